#!/bin/bash
# tools/matrix.sh <seed-id>... : runs every check (quick) against each seeded change in a scratch copy of
# /verif whose `subject` points at a scratch worktree with the change applied. Does not touch /repo's
# working tree or /verif's build output. Results: /verif/seeded/<id>/matrix.json
V2=/tmp/verif2
WT=/tmp/wt-mut
mkdir -p $V2
rsync -a --delete --exclude target --exclude .git --exclude replays --exclude evidence /verif/ $V2/
rm -f $V2/harness/subject; ln -s $WT $V2/harness/subject
for SID in "$@"; do
  git -C /repo worktree remove --force $WT 2>/dev/null
  git -C /repo worktree add -q $WT HEAD || exit 2
  git -C $WT apply /verif/seeded/$SID/patch.diff || { echo "patch failed $SID"; continue; }
  (cd $V2 && ./check setup >/dev/null 2>&1)
  PROP=$(python3 -c "import json;print(json.load(open('/verif/seeded/$SID/meta.json'))['property'])")
  echo "{" > /tmp/matrix-$SID.json
  for i in $(seq -w 1 20); do
    P=C$i
    OUT=$(cd $V2 && timeout 900 ./check $P quick 2>&1); RC=$?
    NV=$(echo "$OUT" | grep -c "^VIOLATION")
    FIRST=$(echo "$OUT" | grep -m1 "^  case=" | cut -c1-240 | sed 's/\\/\\\\/g; s/"/\\"/g')
    MACH=$(echo "$OUT" | grep -m1 "^MACHINERY" | cut -c1-200 | sed 's/\\/\\\\/g; s/"/\\"/g')
    echo "  \"$P\": {\"exit\": $RC, \"violations\": $NV, \"first\": \"$FIRST\", \"machinery\": \"$MACH\"}," >> /tmp/matrix-$SID.json
    echo "$SID $P exit=$RC violations=$NV"
  done
  echo "  \"seed\": \"$SID\", \"property\": \"$PROP\"" >> /tmp/matrix-$SID.json
  echo "}" >> /tmp/matrix-$SID.json
  cp /tmp/matrix-$SID.json /verif/seeded/$SID/matrix.json
  git -C /repo worktree remove --force $WT
done
