#!/bin/bash
# tools/run_all.sh [quick|thorough] : every check on the current tree; one summary line each; non-zero if any is not exit 0
T=${1:-quick}; RC=0
cd "$(dirname "$0")/.."
for i in $(seq -w 1 20); do
  OUT=$(./check C$i $T 2>&1); E=$?
  echo "C$i exit=$E $(echo "$OUT" | grep -E '^property=' | cut -d' ' -f3-)"
  [ $E -ne 0 ] && { RC=1; echo "$OUT" | grep -E "MACHINERY|VIOLATION|class x" | head -5; }
done
exit $RC
