#!/usr/bin/env python3
"""Runs the registered checks against a seeded (property-breaking) change.

  tools/seeded.py <seed-id> [--all] [--tier quick|thorough]

Applies /verif/seeded/<seed-id>/patch.diff to /repo, runs the check of the property the seed
breaks (and with --all every other check too, to see cross-alarms), then reverts /repo
(git checkout -- .) whatever happens. Never commits anything to /repo.
"""
import json, os, subprocess, sys, time
ROOT = os.path.dirname(os.path.dirname(os.path.abspath(__file__)))

def sh(cmd, **kw):
    return subprocess.run(cmd, shell=True, text=True, capture_output=True, **kw)

def main():
    sid = sys.argv[1]
    tier = "quick"
    if "--tier" in sys.argv:
        tier = sys.argv[sys.argv.index("--tier") + 1]
    d = os.path.join(ROOT, "seeded", sid)
    meta = json.load(open(os.path.join(d, "meta.json")))
    prop = meta["property"]
    st = sh("git -C /repo status --porcelain")
    if st.stdout.strip():
        print("refusing: /repo has uncommitted changes"); sys.exit(2)
    ap = sh(f"git -C /repo apply {d}/patch.diff")
    if ap.returncode != 0:
        print("patch does not apply:", ap.stderr); sys.exit(2)
    results = {}
    try:
        props = [prop]
        if "--all" in sys.argv:
            props += [f"C{i:02d}" for i in range(1, 21) if f"C{i:02d}" != prop]
        for p in props:
            t0 = time.time()
            r = sh(f"cd {ROOT} && ./check {p} {tier}")
            viol = [l for l in r.stdout.splitlines() if l.startswith("VIOLATION")]
            mach = [l for l in r.stdout.splitlines() if l.startswith("MACHINERY")]
            first = next((l.strip() for l in r.stdout.splitlines() if l.startswith("  case=")), "")
            results[p] = {"exit": r.returncode, "violations": len(viol), "machinery": mach[:1], "first": first[:300], "seconds": round(time.time() - t0, 1)}
            print(p, results[p], flush=True)
    finally:
        sh("git -C /repo checkout -- .")
        sh("git -C /repo clean -fdq wgsl_to_wgpu/tests")
    out = os.path.join(d, f"result-{tier}.json")
    json.dump({"seed": sid, "property": prop, "tier": tier, "results": results}, open(out, "w"), indent=1)
    caught = results[prop]["exit"] == 1 and results[prop]["violations"] > 0
    print("CAUGHT" if caught else "MISSED", sid, prop)

if __name__ == "__main__":
    main()
