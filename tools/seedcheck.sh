#!/bin/bash
# tools/seedcheck.sh <seed-id> [tier] : runs the check of the seed's own property against the seeded change in
# a scratch copy of /verif (subject -> scratch worktree with the change). /repo's working tree is untouched.
SID=$1; TIER=${2:-quick}
V=/tmp/verif3; WT=/tmp/wt-mut3
mkdir -p $V
rsync -a --delete --exclude target --exclude .git --exclude replays --exclude evidence /verif/ $V/
rm -f $V/harness/subject; ln -s $WT $V/harness/subject
git -C /repo worktree remove --force $WT 2>/dev/null
git -C /repo worktree add -q $WT HEAD || exit 2
git -C $WT apply /verif/seeded/$SID/patch.diff || { echo "patch failed"; exit 2; }
PROP=$(python3 -c "import json;print(json.load(open('/verif/seeded/$SID/meta.json'))['property'])")
[ -d $V/target/probe-target ] || (cd $V && ./check setup >/dev/null 2>&1)
OUT=$(cd $V && ./check $PROP $TIER 2>&1); RC=$?
echo "$OUT" | grep -E "^  class x|^property|^MACHINERY" | cut -c1-260 | head -8
NV=$(echo "$OUT" | grep -c "^VIOLATION")
if [ $RC -eq 1 ] && [ $NV -gt 0 ]; then echo "CAUGHT $SID $PROP"; else echo "MISSED $SID $PROP (exit $RC)"; fi
python3 - "$SID" "$PROP" "$TIER" "$RC" "$NV" <<'PY'
import json,sys,os
sid,prop,tier,rc,nv=sys.argv[1:6]
p=f"/verif/seeded/{sid}/meta.json"; m=json.load(open(p))
m.setdefault("check_results",{})[tier]={"property":prop,"exit":int(rc),"violations":int(nv),"caught":int(rc)==1 and int(nv)>0}
json.dump(m,open(p,"w"),indent=1)
PY
git -C /repo worktree remove --force $WT
