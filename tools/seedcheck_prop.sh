#!/bin/bash
# tools/seedcheck_prop.sh <seed-id> <property> [tier] : like seedcheck.sh but runs the check of ANOTHER property against the seed
SID=$1; PROP=$2; TIER=${3:-quick}
V=/tmp/verif3; WT=/tmp/wt-mut3
mkdir -p $V
rsync -a --delete --exclude target --exclude .git --exclude replays --exclude evidence /verif/ $V/
rm -f $V/harness/subject; ln -s $WT $V/harness/subject
git -C /repo worktree remove --force $WT 2>/dev/null
git -C /repo worktree add -q $WT HEAD || exit 2
git -C $WT apply /verif/seeded/$SID/patch.diff || { echo "patch failed"; exit 2; }
OUT=$(cd $V && ./check $PROP $TIER 2>&1); RC=$?
echo "$OUT" | grep -E "^  class x|^property|^MACHINERY" | cut -c1-260 | head -8
echo "exit=$RC"
git -C /repo worktree remove --force $WT
