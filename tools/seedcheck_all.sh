#!/bin/bash
# tools/seedcheck_all.sh [slots] : re-runs every stored seed against its own property's quick check, in parallel
# slots (each slot has its own scratch copy of /verif and its own worktree). Prints one line per seed.
SLOTS=${1:-3}
cd "$(dirname "$0")/.."
ls seeded | sort > /tmp/allseeds.txt
run_slot() {
  local k=$1
  local V=/tmp/verif-slot$k WT=/tmp/wt-slot$k
  mkdir -p $V
  rsync -a --delete --exclude target --exclude .git --exclude replays --exclude evidence /verif/ $V/
  [ -d $V/target ] || cp -r /verif/target $V/target
  rm -f $V/harness/subject; ln -s $WT $V/harness/subject
  awk -v k=$k -v n=$SLOTS 'NR % n == k' /tmp/allseeds.txt | while read SID; do
    git -C /repo worktree remove --force $WT 2>/dev/null
    git -C /repo worktree add -q --detach $WT HEAD || { echo "$SID WORKTREE-FAILED"; continue; }
    git -C $WT apply /verif/seeded/$SID/patch.diff || { echo "$SID PATCH-FAILED"; continue; }
    PROP=$(python3 -c "import json;print(json.load(open('/verif/seeded/$SID/meta.json'))['property'])")
    OUT=$(cd $V && ./check $PROP quick 2>&1); RC=$?
    NV=$(echo "$OUT" | grep -c "^VIOLATION")
    if [ $RC -eq 1 ] && [ $NV -gt 0 ]; then echo "$SID CAUGHT $PROP"; else echo "$SID MISSED $PROP exit=$RC"; fi
  done
  git -C /repo worktree remove --force $WT 2>/dev/null
}
for k in $(seq 0 $((SLOTS-1))); do run_slot $k & done
wait
