#!/usr/bin/env python3
"""Writes /verif/MANIFEST.json from the table below (one entry per claimed property)."""
import json, os, sys
ROOT = os.path.dirname(os.path.dirname(os.path.abspath(__file__)))

CHECKS = {
 "C01": dict(engine="E1+E2",
    technique="enumeration of declaration atoms, atom pairs and kitchen-sink shaders x configuration sets; outputs de-duplicated by text and type-checked by rustc against the real wgpu 24.0.5 / bytemuck / encase / serde / glam",
    text="Every atom (one WGSL feature each: struct shapes over the leaf table, every resource kind, constant / override / push-constant forms, entry shapes, bind group shapes, every Rust keyword naga accepts and every generator-introduced name in 10 naming positions, collision cases), pairs of class representatives and three kitchen-sink shaders are generated under 16x3 derive/representation combinations (struct atoms) or 5 base configurations, and every distinct output text is compiled by rustc against the real crates; only layout-assertion and Pod-padding rejections are permitted.",
    note="Trusted: rustc 1.95 (edition 2021), the real wgpu/bytemuck/encase/serde/glam crates from the offline cache; nalgebra is a stand-in and Nalgebra x encase is not judged. Pairs, not arbitrary mixes.",
    design="4 C01"),
 "C07": dict(engine="E1+E2",
    technique="enumeration of vertex input structs x entry shapes x 12 configurations; omodel + real wgpu-core check_stage with the emitted attributes; compiled subset executed to compare offsets with rustc's offset_of!/size_of and to apply the transcribed vertex-buffer rules",
    text="All 1-member and (thorough: all) 2-member vertex input structs over the 16 attribute types with builtins at every position and three location patterns, plus multi-struct / shared-struct / multi-entry shapes, under representation x bytemuck x encase combinations: attribute count, location, format, offset source, stride source and per-entry buffer order are checked on every state; wgpu's own vertex-input validation runs on every state; a spread subset is compiled and executed.",
    note="Trusted: rustc, wgpu-core validation (run for real), transcription of create_render_pipeline's vertex buffer loop, omodel.",
    design="4 C07"),
 "C12": dict(engine="E1+E2",
    technique="enumeration of override sets x field assignments; every module compiled and executed; resulting map fed to the real naga process_overrides",
    text="48 single override shapes and ordered pairs of them (quick: a band; thorough: all) x 5-9 assignments incl. extremes and unset optionals: struct fields and key set through omodel; constants() and the maps reaching entry helpers / state builders through execution; then naga's own override resolution must accept the map and yield the supplied values.",
    note="Trusted: rustc, naga::back::pipeline_constants (run for real), the wgpu stand-in (type-checked against real wgpu).",
    design="4 C12"),
 "C14": dict(engine="E1+E2",
    technique="full product of entry shapes per stage x overrides, omodel on every state, execution of every helper / pipeline constructor on the recording stand-in",
    text="Every combination of vertex parameter shape, fragment result shape, compute workgroup size and override presence, with rotating names (ascii, mixed case, non-ASCII, upper case) and multi-entry programs: name constants, helper signatures, target counts, buffer counts, state builders and compute constructors are read from every output and executed on a subset.",
    note="Trusted: rustc, the stand-in, omodel.",
    design="4 C14"),
 "C15": dict(engine="E1+E2",
    technique="enumeration of scalar constant declarations (type x value x form); value by construction cross-checked with naga's evaluator; read through omodel and evaluated by rustc",
    text="83 constant declarations over all scalar types, extreme values and six forms, explored together, per form and alone; type and exact bits compared through omodel on every module and through rustc evaluation (type_name_of_val, to_bits).",
    note="Trusted: rustc, naga constant evaluator as cross-check.",
    design="4 C15"),
 "C16": dict(engine="E1+E2",
    technique="all payload strings of length <=2 (<=3) over an escaping alphabet x 3 placements x formatter on/off; syn literal value; rustc include_bytes! comparison and device hand-over on compiled cases",
    text="Every string up to the length bound over a 48-character alphabet of escaping-relevant characters is embedded in a valid shader in three placements; SOURCE is compared with the input through syn on every case and through rustc on the compiled cases, incl. the bytes handed to create_shader_module; include paths likewise.",
    note="Trusted: syn's literal parser (bound to rustc on the compiled subset), rustc.",
    design="4 C16"),
 "C18": dict(engine="E3",
    technique="controlled-scheduler exploration of real threads (preemption-bounded DFS over verif-hooks yield points, prefix replay checked); exhaustive call histories in fresh processes; enumerated hash seeds via a getrandom interposer; strace monitor",
    text="All call histories up to depth 2/3 over a colliding 6-input alphabet; all schedules of 2-3 real threads within preemption bound 1-3 at 12 section yield points per call (replayed prefixes must reproduce); 24/256 enumerated hash seeds x cwd x environment in fresh processes, with the realised HashSet iteration orders counted; no file/process/network syscall between markers. Every output must be byte-identical to the isolated reference.",
    note="Trusted: the yield hooks sit between all sections (audit of cross-call state constructs is reported); ASLR-dependent nondeterminism is sampled only by the process sweep.",
    design="4 C18"),
 "C19": dict(engine="E4", category="fault_enumeration",
    technique="fault enumeration: scripted rustfmt stub x exact token-string sizes around the pipe buffer x ordering hook; token equality with the unformatted program",
    text="Every formatter behaviour of the list (absent, not executable, exits with/without reading, killed by signals, closes stdin early, exit 0 without output, slow, genuine) x token-string sizes {1.4k, 65535, 65536, 65537, 300k} x order (race / formatter terminated before the parent's write) runs in a child process with a hang cap; result must be Ok and token-equal to the unformatted program; formatter on vs off compared on a program corpus.",
    note="Trusted: a genuine rustfmt on PATH; /proc for the ordering hook.",
    design="4 C19"),
 "C02": dict(engine="E1+E2",
    technique="exhaustive enumeration of a resource table and index placements; generated layouts fed to the real wgpu-core Interface::check_stage; transcribed create_bind_group_layout rules; comparison with wgpu's derived layout",
    text="Every resource kind WGSL can declare (3 buffer address spaces x 7 types, all sampled/multisampled/depth texture types, 41 storage formats x 4 accesses x 4 dimensions, 16 texture/sampler pairings) used by every legal stage set, plus sparse index placements and two-resource programs, is generated for real; the layouts read from the output are handed to wgpu-core's own check_stage as Provided layouts for every entry point, checked against the transcribed create_bind_group_layout entry rules, and compared with the layout wgpu derives itself. The space is finite and fully enumerated.",
    note="Trusted: naga front end/validator, wgpu-core 24.0.5 validation code (run for real), my transcription of Device::create_bind_group_layout (cited in wgpucheck.rs), omodel. Most permissive device assumed.",
    design="4 C02"),
 "C03": dict(engine="E1",
    technique="bounded exhaustive enumeration of call graphs / placements / call and access forms; every program run through the real generator; stage sets by construction cross-checked against naga ModuleInfo",
    text="Every program of a finite grammar (entry sets x helper DAGs on <=3 helpers x entry-call subsets x 9 call forms; calls and accesses at each of 13 placement contexts and all ordered context pairs; 9 resource kinds x access forms; chains of mixed statement/value calls) is generated for real and the emitted visibility of every binding is compared with the stage set known by construction. Exhaustive within the bound, so any statement kind, nesting level or call form the walk skips is hit by some enumerated program.",
    note="Trusted: naga's parser/validator (cross-check of the by-construction oracle), omodel. Bounds: <=3 helpers, nesting depth 2.",
    design="4 C03"),
 "C04": dict(engine="E1+E2",
    technique="BFS over declaration sequences (order is state); omodel on every state; execution of the generated code on a recording wgpu stand-in with tagged resources; conformance omodel vs compiled descriptors",
    text="All declaration sequences up to the bound (1 group x every repetition-free binding sequence, 2-3 groups x all interleavings, 4..8 groups rotated/reversed, rotating resource kinds, adversarial names) are generated; field sets, entry index->field mapping, layout use, set index, set_bind_groups / BindGroups::set and pipeline layout order are read from every output, and a spread subset is compiled (against real wgpu 24.0.5 and the stand-in) and executed with a distinguishable resource per field so the slot each value reaches is observed, on compute passes, render passes and render bundle encoders.",
    note="Trusted: rustc, the recording stand-in (kept honest by type-checking the same probe code against real wgpu), omodel (bound to the compiled program by the layout conformance count).",
    design="4 C04"),
 "C05": dict(engine="E1+E2",
    technique="exhaustive enumeration of 1-/2-/3-field host-shareable structs x 3 representations; assertion literals vs WGSL layout reference (three-way with naga Layouter); each module compiled twice by rustc (as generated / checks stripped) to read real offsets",
    text="Every struct of the space gets its emitted assertion literals compared with an independent WGSL layout reference; a subset (thorough: every 4th state) is compiled as generated and with the assertions and Pod derive stripped, so that rustc itself tells the real field offsets and size: accepted => real layout = WGSL; real != WGSL => rejected; equal and unpadded => accepted.",
    note="Trusted: rustc, bytemuck, glam, the nalgebra stand-in (layout-faithful), WGSL layout reference (cross-checked with naga per state).",
    design="4 C05"),
 "C06": dict(engine="E1+E2",
    technique="exhaustive enumeration of member types and nestings x 3 representations; structural type denotation compared with a reference; denotation resolved by rustc against the linked crates on a compiled subset",
    text="For every struct of the space (leaf table complete, runtime arrays, bools, IO structs with builtins at every position) the emitted field name sequence and the structural denotation of each field type are compared with the WGSL member; on a compiled subset the denotation is produced by rustc's own type resolution (trait Denote implemented for primitives, arrays, Vec, glam types via to_array/to_cols_array_2d).",
    note="Trusted: rustc, glam, nalgebra stand-in, omodel. Matrix orientation of plain arrays is not constrained (statement says element counts).",
    design="4 C06"),
 "C08": dict(engine="E1",
    technique="exhaustive enumeration of struct pools, nesting DAGs and role sets; reachability reference vs emitted struct multiset",
    text="Every program over a pool of <=4 structs (5 member shapes, full power set of roles for single structs, role pairs for IO structs, every nesting DAG for plain structs with nesting by member or by array) is generated and the multiset of emitted struct names compared with the reachability reference.",
    note="Trusted: naga validator as universe filter, omodel.",
    design="4 C08"),
 "C09": dict(engine="E1+E2",
    technique="complete enumeration of the 192 configurations x role shaders; truth table + differential non-interference on token streams; trait-implementation probes compiled by rustc",
    text="All 192 option combinations are run on every role shader; derives, repr and assertion presence are compared with the truth table, everything outside the struct items must be token-identical across all configurations, and compiled modules are probed for the traits actually implemented.",
    note="Trusted: rustc, rustfmt present on PATH for the formatter dimension, omodel.",
    design="4 C09"),
 "C10": dict(engine="E2",
    technique="enumeration of glam-representable host-shareable structs; compiled with real encase+glam and executed; byte image compared with the WGSL layout reference",
    text="Each compiled module builds a value with a distinct sentinel per component, writes it with the real encase StorageBuffer/UniformBuffer and the harness compares length and every component's bytes with the reference WGSL offsets, for runtime arrays with 0..3 elements too.",
    note="Trusted: rustc, encase 0.10, glam 0.29 (real crates), WGSL layout reference. Quick compiles a spread subset; thorough the whole space.",
    design="4 C10"),
 "C11": dict(engine="E1",
    technique="BFS over declaration sequences of (group,binding) pairs to depth 4/5 plus boundary indices; contract model; naga called directly for pre-emption",
    text="All sequences of resource declarations up to the depth bound over a 3x3 / 4x3 index grid (order is part of the state), used and unused, with validation on and off, plus extreme indices, are run and the outcome compared with the contract model; on success the emitted groups, indices and names are compared with the declaration.",
    note="Trusted: naga (parse/validate verdict called directly), omodel.",
    design="4 C11"),
 "C13": dict(engine="E1",
    technique="exhaustive product of push-constant types x entry sets x using subsets x use route; WGSL size reference cross-checked with naga",
    text="29 push-constant types x all entry sets x all using subsets x direct/helper use x group counts, plus shaders without one: the range list, its length, start and stages are read from the output and compared with the reference.",
    note="Trusted: naga Layouter (cross-check), omodel.",
    design="4 C13"),
 "C17": dict(engine="E1",
    technique="complete single-edit neighbourhood (and a double-edit neighbourhood) of a corpus of shaders x 6 validation settings; differential against naga called directly",
    text="Every truncation, deletion, adjacent swap and 10 injects at every position, every token deletion/duplication/swap of 8 base shaders, 30 parsable-but-invalid modules, and all double edits of the smallest shader are run with validation off / all / empty / 3 capability subsets; outcome class, diagnostic text and panic-freedom are compared with naga called directly, and passing sources must give identical outcomes with validation on and off.",
    note="Trusted: naga (the differential reference).",
    design="4 C17"),
 "C20": dict(engine="E5",
    technique="deterministic step counting through the walk hooks on every call-graph tile composed in series and on amplified families; wall clock in child processes",
    text="Every DAG tile on <=4 helpers with per-edge multiplicity/call form, repeated 8x/16x in series, every chain/diamond/fan-in/fan-out family at depths up to 64 (290 functions) with each call form at each placement context, and nested/wide type families and statement-shape families inside one function (else-if chains, nested if/else/loop/for/switch/blocks up to size 60) are generated with step budgets of 8*E*(F+C+1) function visits, 8*E*(B+1) block visits and 8*G*(T+M+1) type visits enforced by the hooks; amplified members are also timed in child processes without hooks.",
    note="Trusted: the verif-hooks points in the three recursive walks (functions, blocks, types); wall clock part decides alone if they disappear.",
    design="4 C20"),
}

PENDING = {}
ALL = ["C%02d" % i for i in range(1, 21)]

def round2_notes():
    """The 'as built after round 2' paragraph of each property section of DESIGN.md (single source of truth)."""
    import re
    txt = open(os.path.join(ROOT, "DESIGN.md")).read()
    out = {}
    for m in re.finditer(r"^### (C\d\d) — .*?$", txt, re.M):
        pid = m.group(1)
        rest = txt[m.end():]
        nxt = re.search(r"^##+ ", rest, re.M)
        sec = rest[:nxt.start()] if nxt else rest
        b = re.search(r"\*As built after round 2[^*]*\*\s*(.*?)\n\n", sec, re.S)
        if b:
            out[pid] = " ".join(b.group(1).split())
    return out

def main():
    r2 = round2_notes()
    checks = []
    for pid in ALL:
        if pid not in CHECKS: continue
        c = CHECKS[pid]
        checks.append({
            "property_id": pid,
            "quick_cmd": f"./check {pid} quick",
            "thorough_cmd": f"./check {pid} thorough",
            "evidence_file": f"/verif/evidence/{pid}.json",
            "replay_cmd_template": "./check replay {path}",
            "engine": c["engine"],
            "level_claimed": {"category": c.get("category", "model_checking"), "text": c["text"] + (" Extended in round 2: " + r2[pid] if pid in r2 else ""), "design_ref": "DESIGN.md " + c["design"]},
            "level_note": c["note"],
            "technique": c["technique"],
        })
    na = [{"property_id": p, "reason": PENDING.get(p, "check under construction in this round; not yet claimed")} for p in ALL if p not in CHECKS]
    m = {
        "version": 1,
        "setup_cmd": "./check setup",
        "hooks": {
            "guard": "cargo feature `verif-hooks` of wgsl_to_wgpu",
            "enable": "the harness depends on /repo/wgsl_to_wgpu (path dependency through harness/subject) with features=[\"verif-hooks\"]",
            "baseline_off_cmd": "cd /repo && cargo test --workspace --no-fail-fast --offline",
            "source_commits": open(os.path.join(ROOT, "tools", "hook_commits.txt")).read().split(),
            "add_only": True,
        },
        "engines": [
            {"name": "E1", "path": "harness/explore", "serves_properties": [p for p in ALL if p in CHECKS and "E1" in CHECKS[p]["engine"]], "kind_free_text": "in-process bounded exhaustive explorer over WGSL programs / configurations; runs the real generator on every state and reads the output through omodel (syn) and real wgpu-core/naga oracles"},
            {"name": "E2", "path": "harness/explore/src/probe.rs", "serves_properties": [p for p in ALL if p in CHECKS and "E2" in CHECKS[p]["engine"]], "kind_free_text": "probe batches: generated modules compiled unmodified by rustc against real wgpu 24 (type check) and against a recording wgpu stand-in (execution)"},
            {"name": "E3", "path": "harness/explore/src/c18.rs", "serves_properties": [p for p in ALL if p in CHECKS and "E3" in CHECKS[p]["engine"]], "kind_free_text": "preemption-bounded controlled scheduler over real threads via verif-hooks yield points; history explorer; hash-seed / environment interposer"},
            {"name": "E4", "path": "harness/explore/src/c19.rs", "serves_properties": [p for p in ALL if p in CHECKS and "E4" in CHECKS[p]["engine"]], "kind_free_text": "formatter fault enumeration with a scripted rustfmt stub"},
            {"name": "E5", "path": "harness/explore/src/c20.rs", "serves_properties": [p for p in ALL if p in CHECKS and "E5" in CHECKS[p]["engine"]], "kind_free_text": "cost explorer: deterministic step counts from walk hooks on every call-graph tile and amplified family"},
        ],
        "checks": checks,
        "not_applicable": na,
        "notes": "All checks rebuild the harness (and through it /repo/wgsl_to_wgpu with the hooks feature) from the current working tree before exploring. Exit 2 = machinery failure, never a verdict. Known findings: /verif/known_findings.json.",
    }
    with open(os.path.join(ROOT, "MANIFEST.json"), "w") as f:
        json.dump(m, f, indent=1)
        f.write("\n")
    try:
        import jsonschema
        jsonschema.validate(m, json.load(open("/root/.vp/MANIFEST.schema.json")))
        print("MANIFEST.json valid;", len(checks), "checks,", len(na), "not_applicable")
    except ImportError:
        print("written (jsonschema not importable in this python)")

if __name__ == "__main__":
    main()
