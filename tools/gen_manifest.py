#!/usr/bin/env python3
"""Writes /verif/MANIFEST.json from the table below (one entry per claimed property)."""
import json, os, sys
ROOT = os.path.dirname(os.path.dirname(os.path.abspath(__file__)))

CHECKS = {
 "C03": dict(
    engine="E1",
    technique="bounded exhaustive enumeration of call graphs / placements / call and access forms; every program run through the real generator; stage sets by construction cross-checked against naga ModuleInfo",
    text="Every program of a finite grammar (entry sets x helper DAGs on <=3 helpers x entry-call subsets x 9 call forms; calls and accesses at each of 13 placement contexts and all ordered context pairs; 9 resource kinds x access forms; chains of mixed statement/value calls) is generated for real and the emitted visibility of every binding is compared with the stage set known by construction. Exhaustive within the bound, so any statement kind, nesting level or call form the walk skips is hit by some enumerated program.",
    note="Trusted: naga's parser/validator (used as cross-check of the by-construction oracle), the syn-based reader of the generated text (omodel). Bounds: <=3 helpers, nesting depth 2.",
    design="4 C03"),
}

PENDING = {}
ALL = ["C%02d" % i for i in range(1, 21)]

def main():
    checks = []
    for pid in ALL:
        if pid not in CHECKS: continue
        c = CHECKS[pid]
        checks.append({
            "property_id": pid,
            "quick_cmd": f"./check {pid} quick",
            "thorough_cmd": f"./check {pid} thorough",
            "evidence_file": f"/verif/evidence/{pid}.json",
            "replay_cmd_template": "./check replay {path}",
            "engine": c["engine"],
            "level_claimed": {"category": c.get("category", "model_checking"), "text": c["text"], "design_ref": "DESIGN.md " + c["design"]},
            "level_note": c["note"],
            "technique": c["technique"],
        })
    na = [{"property_id": p, "reason": PENDING.get(p, "check under construction in this round; not yet claimed")} for p in ALL if p not in CHECKS]
    m = {
        "version": 1,
        "setup_cmd": "./check setup",
        "hooks": {
            "guard": "cargo feature `verif-hooks` of wgsl_to_wgpu",
            "enable": "the harness depends on /repo/wgsl_to_wgpu (path dependency through harness/subject) with features=[\"verif-hooks\"]",
            "baseline_off_cmd": "cd /repo && cargo test --workspace --no-fail-fast --offline",
            "source_commits": open(os.path.join(ROOT, "tools", "hook_commits.txt")).read().split(),
            "add_only": True,
        },
        "engines": [
            {"name": "E1", "path": "harness/explore", "serves_properties": [p for p in ALL if p in CHECKS and "E1" in CHECKS[p]["engine"]], "kind_free_text": "in-process bounded exhaustive explorer over WGSL programs / configurations; runs the real generator on every state and reads the output through omodel (syn) and real wgpu-core/naga oracles"},
            {"name": "E2", "path": "harness/explore/src/probe.rs", "serves_properties": [p for p in ALL if p in CHECKS and "E2" in CHECKS[p]["engine"]], "kind_free_text": "probe batches: generated modules compiled unmodified by rustc against real wgpu 24 (type check) and against a recording wgpu stand-in (execution)"},
            {"name": "E3", "path": "harness/explore/src/c18.rs", "serves_properties": [p for p in ALL if p in CHECKS and "E3" in CHECKS[p]["engine"]], "kind_free_text": "preemption-bounded controlled scheduler over real threads via verif-hooks yield points; history explorer; hash-seed / environment interposer"},
            {"name": "E4", "path": "harness/explore/src/c19.rs", "serves_properties": [p for p in ALL if p in CHECKS and "E4" in CHECKS[p]["engine"]], "kind_free_text": "formatter fault enumeration with a scripted rustfmt stub"},
            {"name": "E5", "path": "harness/explore/src/c20.rs", "serves_properties": [p for p in ALL if p in CHECKS and "E5" in CHECKS[p]["engine"]], "kind_free_text": "cost explorer: deterministic step counts from walk hooks on every call-graph tile and amplified family"},
        ],
        "checks": checks,
        "not_applicable": na,
        "notes": "All checks rebuild the harness (and through it /repo/wgsl_to_wgpu with the hooks feature) from the current working tree before exploring. Exit 2 = machinery failure, never a verdict. Known findings: /verif/known_findings.json.",
    }
    with open(os.path.join(ROOT, "MANIFEST.json"), "w") as f:
        json.dump(m, f, indent=1)
        f.write("\n")
    try:
        import jsonschema
        jsonschema.validate(m, json.load(open("/root/.vp/MANIFEST.schema.json")))
        print("MANIFEST.json valid;", len(checks), "checks,", len(na), "not_applicable")
    except ImportError:
        print("written (jsonschema not importable in this python)")

if __name__ == "__main__":
    main()
