#!/bin/bash
# tools/intake.sh <property-id> <seed-id> : confirm a seeded change delivered under /tmp/seed-<property-id>
# in a scratch worktree (tests pass with it, demo fails with it and passes without), store it under
# /verif/seeded/<seed-id>/ and run the property's check against it.
set -u
P=$1; SID=$2
SRC=/tmp/seed-$P
WT=/tmp/wt-confirm
export CARGO_TARGET_DIR=/tmp/wt-confirm-target CARGO_NET_OFFLINE=true
[ -f $SRC/patch.diff ] || { echo "no $SRC/patch.diff"; exit 2; }
git -C /repo worktree remove --force $WT 2>/dev/null
git -C /repo worktree add -q $WT HEAD || exit 2
cd $WT
git apply $SRC/patch.diff || { echo "PATCH DOES NOT APPLY"; exit 2; }
SUITE=$(cargo test --workspace --offline 2>&1 | grep -E "^test result" | tr '\n' ' ')
echo "suite with change: $SUITE"
cp $SRC/seeded_demo.rs wgsl_to_wgpu/tests/seeded_demo.rs
WITH=$(cargo test -p wgsl_to_wgpu --test seeded_demo --offline 2>&1 | grep -E "^test result" | tr '\n' ' ')
echo "demo with change:    $WITH"
git checkout -q -- wgsl_to_wgpu/src
WITHOUT=$(cargo test -p wgsl_to_wgpu --test seeded_demo --offline 2>&1 | grep -E "^test result" | tr '\n' ' ')
echo "demo without change: $WITHOUT"
cd /verif
git -C /repo worktree remove --force $WT
mkdir -p /verif/seeded/$SID
cp $SRC/patch.diff /verif/seeded/$SID/patch.diff
cp $SRC/seeded_demo.rs /verif/seeded/$SID/seeded_demo.rs
cp $SRC/notes.txt /verif/seeded/$SID/notes.txt 2>/dev/null
python3 - "$P" "$SID" "$SUITE" "$WITH" "$WITHOUT" <<'PY'
import json,sys
p,sid,suite,w,wo=sys.argv[1:6]
ok = ("FAILED" not in suite and "failed" not in suite.replace("0 failed","")) and ("FAILED" in w) and ("FAILED" not in wo and "ok" in wo)
notes=open(f"/verif/seeded/{sid}/notes.txt").read() if __import__('os').path.exists(f"/verif/seeded/{sid}/notes.txt") else ""
json.dump({"property":p,"seed":sid,"confirmed":ok,"suite_with_change":suite.strip(),"demo_with_change":w.strip(),"demo_without_change":wo.strip(),
  "needs_to_manifest":notes[:1500],"confirmed_by":"tools/intake.sh in scratch worktree /tmp/wt-confirm (removed afterwards)"},open(f"/verif/seeded/{sid}/meta.json","w"),indent=1)
print("CONFIRMED" if ok else "NOT CONFIRMED", sid)
PY
