#!/usr/bin/env python3
import json,glob,sys
import jsonschema
schema=json.load(open('/root/.vp/EVIDENCE.schema.json'))
bad=0
for f in sorted(glob.glob('/verif/evidence/*.json')):
    e=json.load(open(f))
    try:
        jsonschema.validate(e,schema)
        c=e['coverage']
        print(f.split('/')[-1], e['tier'], e['level'], 'states',c.get('states'),'trans',c.get('transitions'),'evals',c.get('evaluations'),'validated',c.get('traces_validated_against_impl'),'nontrivial',c.get('distinct_nontrivial'),'wall',round(e['wall_s'],1))
    except Exception as ex:
        bad+=1; print("INVALID",f,str(ex)[:200])
sys.exit(bad)
