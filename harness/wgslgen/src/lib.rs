//! `wgslgen`: WGSL type descriptions, a printer, and the reference models that are written from
//! the WGSL / wgpu specifications (memory layout, type denotation). Nothing here looks at the
//! generator.
use std::collections::BTreeMap;
use std::fmt::Write;

#[derive(Clone, Copy, Debug, PartialEq, Eq, Hash, PartialOrd, Ord)]
pub enum Scalar {
    I32,
    U32,
    F32,
    F64,
    Bool,
    /// 64-bit integers (naga: SHADER_INT64); the generator has no Rust mapping for them and refuses
    I64,
    U64,
}

impl Scalar {
    pub fn wgsl(self) -> &'static str {
        match self {
            Scalar::I32 => "i32",
            Scalar::U32 => "u32",
            Scalar::F32 => "f32",
            Scalar::F64 => "f64",
            Scalar::Bool => "bool",
            Scalar::I64 => "i64",
            Scalar::U64 => "u64",
        }
    }
    pub fn rust(self) -> &'static str {
        self.wgsl()
    }
    /// byte width in host-shareable memory (bool is not host-shareable; naga lays it out as 1 byte)
    pub fn width(self) -> u32 {
        match self {
            Scalar::I32 | Scalar::U32 | Scalar::F32 => 4,
            Scalar::F64 | Scalar::I64 | Scalar::U64 => 8,
            Scalar::Bool => 1,
        }
    }
    pub fn all_numeric() -> [Scalar; 4] {
        [Scalar::I32, Scalar::U32, Scalar::F32, Scalar::F64]
    }
}

#[derive(Clone, Debug, PartialEq, Eq, Hash, PartialOrd, Ord)]
pub enum Ty {
    Scalar(Scalar),
    Atomic(Scalar),
    Vec(u8, Scalar),
    /// columns, rows
    Mat(u8, u8, Scalar),
    Array(Box<Ty>, u32),
    RtArray(Box<Ty>),
    Struct(String),
}

impl Ty {
    pub fn wgsl(&self) -> String {
        match self {
            Ty::Scalar(s) => s.wgsl().to_string(),
            Ty::Atomic(s) => format!("atomic<{}>", s.wgsl()),
            Ty::Vec(n, s) => format!("vec{}<{}>", n, s.wgsl()),
            Ty::Mat(c, r, s) => format!("mat{}x{}<{}>", c, r, s.wgsl()),
            Ty::Array(e, n) => format!("array<{}, {}>", e.wgsl(), n),
            Ty::RtArray(e) => format!("array<{}>", e.wgsl()),
            Ty::Struct(n) => n.clone(),
        }
    }
    pub fn uses_f64(&self, env: &TypeEnv) -> bool {
        match self {
            Ty::Scalar(s) | Ty::Atomic(s) | Ty::Vec(_, s) | Ty::Mat(_, _, s) => *s == Scalar::F64,
            Ty::Array(e, _) | Ty::RtArray(e) => e.uses_f64(env),
            Ty::Struct(n) => env.get(n).members.iter().any(|m| m.ty.uses_f64(env)),
        }
    }
    pub fn has_rt_array(&self, env: &TypeEnv) -> bool {
        match self {
            Ty::RtArray(_) => true,
            Ty::Struct(n) => env.get(n).members.iter().any(|m| m.ty.has_rt_array(env)),
            _ => false,
        }
    }
    pub fn has_bool(&self, env: &TypeEnv) -> bool {
        match self {
            Ty::Scalar(s) | Ty::Atomic(s) | Ty::Vec(_, s) | Ty::Mat(_, _, s) => *s == Scalar::Bool,
            Ty::Array(e, _) | Ty::RtArray(e) => e.has_bool(env),
            Ty::Struct(n) => env.get(n).members.iter().any(|m| m.ty.has_bool(env)),
        }
    }
    pub fn has_atomic(&self, env: &TypeEnv) -> bool {
        match self {
            Ty::Atomic(_) => true,
            Ty::Array(e, _) | Ty::RtArray(e) => e.has_atomic(env),
            Ty::Struct(n) => env.get(n).members.iter().any(|m| m.ty.has_atomic(env)),
            _ => false,
        }
    }
    /// structs referenced (transitively), in first-use order
    pub fn struct_refs(&self, env: &TypeEnv, out: &mut Vec<String>) {
        match self {
            Ty::Array(e, _) | Ty::RtArray(e) => e.struct_refs(env, out),
            Ty::Struct(n) => {
                if !out.contains(n) {
                    out.push(n.clone());
                    for m in &env.get(n).members {
                        m.ty.struct_refs(env, out);
                    }
                }
            }
            _ => {}
        }
    }
}

#[derive(Clone, Debug, Default, PartialEq, Eq, Hash)]
pub struct MemberAttrs {
    pub align: Option<u32>,
    pub size: Option<u32>,
    pub location: Option<u32>,
    pub builtin: Option<String>,
    pub flat: bool,
}

#[derive(Clone, Debug, PartialEq, Eq, Hash)]
pub struct Member {
    pub name: String,
    pub ty: Ty,
    pub attrs: MemberAttrs,
}

impl Member {
    pub fn plain(name: &str, ty: Ty) -> Member {
        Member { name: name.to_string(), ty, attrs: MemberAttrs::default() }
    }
    pub fn located(name: &str, ty: Ty, location: u32) -> Member {
        let flat = matches!(&ty, Ty::Scalar(s) | Ty::Vec(_, s) if matches!(s, Scalar::I32 | Scalar::U32 | Scalar::F64));
        Member { name: name.to_string(), ty, attrs: MemberAttrs { location: Some(location), flat, ..Default::default() } }
    }
    pub fn builtin(name: &str, ty: Ty, builtin: &str) -> Member {
        Member { name: name.to_string(), ty, attrs: MemberAttrs { builtin: Some(builtin.to_string()), ..Default::default() } }
    }
}

#[derive(Clone, Debug, PartialEq, Eq, Hash)]
pub struct StructDef {
    pub name: String,
    pub members: Vec<Member>,
}

impl StructDef {
    pub fn wgsl(&self, interpolate_flat: bool) -> String {
        let mut s = String::new();
        writeln!(s, "struct {} {{", self.name).unwrap();
        for m in &self.members {
            s.push_str("    ");
            if let Some(a) = m.attrs.align {
                write!(s, "@align({}) ", a).unwrap();
            }
            if let Some(a) = m.attrs.size {
                write!(s, "@size({}) ", a).unwrap();
            }
            if let Some(l) = m.attrs.location {
                write!(s, "@location({}) ", l).unwrap();
                if m.attrs.flat && interpolate_flat {
                    s.push_str("@interpolate(flat) ");
                }
            }
            if let Some(b) = &m.attrs.builtin {
                write!(s, "@builtin({}) ", b).unwrap();
            }
            writeln!(s, "{}: {},", m.name, m.ty.wgsl()).unwrap();
        }
        s.push_str("};\n");
        s
    }
}

#[derive(Clone, Debug, Default)]
pub struct TypeEnv {
    pub order: Vec<String>,
    pub structs: BTreeMap<String, StructDef>,
}

impl TypeEnv {
    pub fn add(&mut self, s: StructDef) {
        if !self.structs.contains_key(&s.name) {
            self.order.push(s.name.clone());
        }
        self.structs.insert(s.name.clone(), s);
    }
    pub fn get(&self, name: &str) -> &StructDef {
        self.structs.get(name).unwrap_or_else(|| panic!("unknown struct {name}"))
    }
    pub fn wgsl(&self, interpolate_flat: bool) -> String {
        self.order.iter().map(|n| self.structs[n].wgsl(interpolate_flat)).collect()
    }
}

// ---------------------------------------------------------------------------------------------
// WGSL memory layout reference (WGSL spec §13.4 "Memory Layout", alignment and size table;
// generalised by scalar width for the f64 extension that naga accepts).

pub fn round_up(align: u32, n: u32) -> u32 {
    n.div_ceil(align) * align
}

#[derive(Clone, Debug, PartialEq, Eq)]
pub struct StructLayout {
    pub align: u32,
    pub size: u32,
    pub offsets: Vec<u32>,
}

pub fn align_of(t: &Ty, env: &TypeEnv) -> u32 {
    match t {
        Ty::Scalar(s) | Ty::Atomic(s) => s.width(),
        Ty::Vec(n, s) => match n {
            2 => 2 * s.width(),
            3 | 4 => 4 * s.width(),
            _ => panic!("vec{n}"),
        },
        Ty::Mat(_, r, s) => align_of(&Ty::Vec(*r, *s), env),
        Ty::Array(e, _) | Ty::RtArray(e) => align_of(e, env),
        Ty::Struct(n) => struct_layout(env.get(n), env).align,
    }
}

pub fn size_of(t: &Ty, env: &TypeEnv) -> u32 {
    match t {
        Ty::Scalar(s) | Ty::Atomic(s) => s.width(),
        Ty::Vec(n, s) => *n as u32 * s.width(),
        Ty::Mat(c, r, s) => {
            let col = Ty::Vec(*r, *s);
            *c as u32 * round_up(align_of(&col, env), size_of(&col, env))
        }
        Ty::Array(e, n) => n * stride_of(e, env),
        // one element: what naga's `TypeInner::size` reports and the minimum binding size
        Ty::RtArray(e) => stride_of(e, env),
        Ty::Struct(n) => struct_layout(env.get(n), env).size,
    }
}

pub fn stride_of(elem: &Ty, env: &TypeEnv) -> u32 {
    round_up(align_of(elem, env), size_of(elem, env))
}

pub fn struct_layout(s: &StructDef, env: &TypeEnv) -> StructLayout {
    let mut offsets = vec![];
    let mut align = 1;
    let mut end = 0;
    for m in &s.members {
        let a = m.attrs.align.unwrap_or_else(|| align_of(&m.ty, env));
        let sz = m.attrs.size.unwrap_or_else(|| size_of(&m.ty, env));
        let off = round_up(a, end);
        offsets.push(off);
        end = off + sz;
        align = align.max(a);
    }
    StructLayout { align, size: round_up(align, end), offsets }
}

// ---------------------------------------------------------------------------------------------
// Type denotation reference: what scalar kind / width / element counts a type stands for.

/// kind ∈ {"i","u","f","b"}; width in bytes; dims: outermost first; `rt` = growable vector;
/// `strukt` = names a struct.
#[derive(Clone, Debug, PartialEq, Eq)]
pub struct Denotation {
    pub kind: char,
    pub width: u32,
    /// array lengths from the outside in, *excluding* the vector/matrix part
    pub array_dims: Vec<u32>,
    /// vector: [n]; matrix: [cols, rows] as a multiset (sorted); scalar: []
    pub shape: Vec<u32>,
    pub strukt: Option<String>,
    pub runtime: bool,
}

pub fn denote_wgsl(t: &Ty) -> Denotation {
    fn scalar_kind(s: Scalar) -> (char, u32) {
        match s {
            Scalar::I32 => ('i', 4),
            Scalar::U32 => ('u', 4),
            Scalar::F32 => ('f', 4),
            Scalar::F64 => ('f', 8),
            Scalar::Bool => ('b', 1),
            Scalar::I64 => ('i', 8),
            Scalar::U64 => ('u', 8),
        }
    }
    match t {
        Ty::Scalar(s) | Ty::Atomic(s) => {
            let (k, w) = scalar_kind(*s);
            Denotation { kind: k, width: w, array_dims: vec![], shape: vec![], strukt: None, runtime: false }
        }
        Ty::Vec(n, s) => {
            let (k, w) = scalar_kind(*s);
            Denotation { kind: k, width: w, array_dims: vec![], shape: vec![*n as u32], strukt: None, runtime: false }
        }
        Ty::Mat(c, r, s) => {
            let (k, w) = scalar_kind(*s);
            let mut shape = vec![*c as u32, *r as u32];
            shape.sort();
            Denotation { kind: k, width: w, array_dims: vec![], shape, strukt: None, runtime: false }
        }
        Ty::Array(e, n) => {
            let mut d = denote_wgsl(e);
            d.array_dims.insert(0, *n);
            d
        }
        Ty::RtArray(e) => {
            let mut d = denote_wgsl(e);
            d.runtime = true;
            d
        }
        Ty::Struct(n) => Denotation { kind: 's', width: 0, array_dims: vec![], shape: vec![], strukt: Some(n.clone()), runtime: false },
    }
}

/// Representation selected by the write options.
#[derive(Clone, Copy, Debug, PartialEq, Eq, Hash, PartialOrd, Ord)]
pub enum Repr {
    Rust,
    Glam,
    Nalgebra,
}

/// Denotation of a Rust type expression as printed in the generated module (whitespace removed).
/// Table entries for the `glam::*` / `nalgebra::*` names follow those crates' documentation and are
/// bound to the linked crates by compile-time assertions in the probe support crate.
pub fn denote_rust(ty: &str) -> Result<Denotation, String> {
    fn prim(t: &str) -> Option<(char, u32)> {
        Some(match t {
            "i32" => ('i', 4),
            "u32" => ('u', 4),
            "f32" => ('f', 4),
            "f64" => ('f', 8),
            "bool" => ('b', 1),
            "i64" => ('i', 8),
            "u64" => ('u', 8),
            "i16" => ('i', 2),
            "u16" => ('u', 2),
            "i8" => ('i', 1),
            "u8" => ('u', 1),
            _ => return None,
        })
    }
    let base = |kind: char, width: u32, shape: Vec<u32>| Denotation { kind, width, array_dims: vec![], shape, strukt: None, runtime: false };
    if let Some((k, w)) = prim(ty) {
        return Ok(base(k, w, vec![]));
    }
    if let Some(inner) = ty.strip_prefix("Vec<").and_then(|s| s.strip_suffix('>')) {
        let mut d = denote_rust(inner)?;
        if d.runtime {
            return Err("nested Vec".into());
        }
        d.runtime = true;
        return Ok(d);
    }
    if let Some(inner) = ty.strip_prefix('[').and_then(|s| s.strip_suffix(']')) {
        // split at the last top-level ';'
        let mut depth = 0i32;
        let mut split = None;
        for (i, c) in inner.char_indices() {
            match c {
                '[' | '<' | '(' => depth += 1,
                ']' | '>' | ')' => depth -= 1,
                ';' if depth == 0 => split = Some(i),
                _ => {}
            }
        }
        let i = split.ok_or_else(|| format!("array type without length: {ty}"))?;
        let n: u32 = inner[i + 1..].parse().map_err(|_| format!("array length in {ty}"))?;
        let mut d = denote_rust(&inner[..i])?;
        d.array_dims.insert(0, n);
        return Ok(d);
    }
    if let Some(name) = ty.strip_prefix("glam::") {
        let t: Option<(char, u32, Vec<u32>)> = match name {
            "Vec2" => Some(('f', 4, vec![2])),
            "Vec3" => Some(('f', 4, vec![3])),
            "Vec4" => Some(('f', 4, vec![4])),
            "DVec2" => Some(('f', 8, vec![2])),
            "DVec3" => Some(('f', 8, vec![3])),
            "DVec4" => Some(('f', 8, vec![4])),
            "UVec2" => Some(('u', 4, vec![2])),
            "UVec3" => Some(('u', 4, vec![3])),
            "UVec4" => Some(('u', 4, vec![4])),
            "IVec2" => Some(('i', 4, vec![2])),
            "IVec3" => Some(('i', 4, vec![3])),
            "IVec4" => Some(('i', 4, vec![4])),
            "I64Vec2" => Some(('i', 8, vec![2])),
            "I64Vec3" => Some(('i', 8, vec![3])),
            "I64Vec4" => Some(('i', 8, vec![4])),
            "U64Vec2" => Some(('u', 8, vec![2])),
            "U64Vec3" => Some(('u', 8, vec![3])),
            "U64Vec4" => Some(('u', 8, vec![4])),
            "Mat2" => Some(('f', 4, vec![2, 2])),
            "Mat3" => Some(('f', 4, vec![3, 3])),
            "Mat4" => Some(('f', 4, vec![4, 4])),
            "DMat2" => Some(('f', 8, vec![2, 2])),
            "DMat3" => Some(('f', 8, vec![3, 3])),
            "DMat4" => Some(('f', 8, vec![4, 4])),
            // glam types that denote something else than the WGSL type of the same size
            "Vec3A" => Some(('f', 4, vec![3])),
            "Mat3A" => Some(('f', 4, vec![3, 3])),
            _ => None,
        };
        return t.map(|(k, w, s)| base(k, w, s)).ok_or_else(|| format!("unknown glam type {ty}"));
    }
    if let Some(args) = ty.strip_prefix("nalgebra::SVector<").and_then(|s| s.strip_suffix('>')) {
        let p: Vec<&str> = args.split(',').collect();
        if p.len() == 2 {
            if let (Some((k, w)), Ok(n)) = (prim(p[0]), p[1].parse::<u32>()) {
                return Ok(base(k, w, vec![n]));
            }
        }
        return Err(format!("unreadable nalgebra vector {ty}"));
    }
    if let Some(args) = ty.strip_prefix("nalgebra::SMatrix<").and_then(|s| s.strip_suffix('>')) {
        let p: Vec<&str> = args.split(',').collect();
        if p.len() == 3 {
            if let (Some((k, w)), Ok(r), Ok(c)) = (prim(p[0]), p[1].parse::<u32>(), p[2].parse::<u32>()) {
                let mut shape = vec![r, c];
                shape.sort();
                return Ok(base(k, w, shape));
            }
        }
        return Err(format!("unreadable nalgebra matrix {ty}"));
    }
    if ty.chars().all(|c| c.is_alphanumeric() || c == '_') && !ty.is_empty() {
        return Ok(Denotation { kind: 's', width: 0, array_dims: vec![], shape: vec![], strukt: Some(ty.to_string()), runtime: false });
    }
    Err(format!("unreadable Rust type `{ty}`"))
}

/// Does the Rust denotation match the WGSL one under the given representation?
/// For the plain representation a vector is an array whose last dimension is the component count,
/// and a matrix is a two-level array (orientation not constrained, see DESIGN.md C06).
pub fn denotations_match(wgsl: &Denotation, rust: &Denotation) -> bool {
    if wgsl.strukt.is_some() || rust.strukt.is_some() {
        return wgsl == rust;
    }
    if wgsl.kind != rust.kind || wgsl.width != rust.width || wgsl.runtime != rust.runtime {
        return false;
    }
    // flatten: array dims then shape; the Rust side may express the shape as trailing array dims
    let w_dims = wgsl.array_dims.clone();
    let mut r_dims = rust.array_dims.clone();
    if rust.shape.is_empty() && !wgsl.shape.is_empty() {
        // plain arrays: the trailing dims carry the shape
        let k = wgsl.shape.len();
        if r_dims.len() < k {
            return false;
        }
        let mut tail: Vec<u32> = r_dims.split_off(r_dims.len() - k);
        tail.sort();
        return tail == wgsl.shape && r_dims == w_dims;
    }
    rust.shape == wgsl.shape && r_dims == w_dims
}

/// Which WGSL types glam can represent directly (everything else falls back to arrays under Glam).
pub fn glam_has_type(t: &Ty) -> bool {
    match t {
        Ty::Vec(_, s) => matches!(s, Scalar::F32 | Scalar::F64 | Scalar::U32 | Scalar::I32),
        Ty::Mat(c, r, s) => c == r && matches!(s, Scalar::F32 | Scalar::F64),
        _ => false,
    }
}

// ---------------------------------------------------------------------------------------------
// vertex formats (WebGPU GPUVertexFormat table restricted to what WGSL scalars/vectors can carry)

pub fn vertex_format_name(t: &Ty) -> Option<String> {
    let (n, s) = match t {
        Ty::Scalar(s) => (1, *s),
        Ty::Vec(n, s) => (*n, *s),
        _ => return None,
    };
    let base = match s {
        Scalar::F32 => "Float32",
        Scalar::F64 => "Float64",
        Scalar::I32 => "Sint32",
        Scalar::U32 => "Uint32",
        Scalar::Bool | Scalar::I64 | Scalar::U64 => return None,
    };
    Some(if n == 1 { base.to_string() } else { format!("{base}x{n}") })
}

// ---------------------------------------------------------------------------------------------
// small helpers for enumeration

/// All k-element sequences over `0..n` (n^k), in lexicographic order.
pub fn sequences(n: usize, k: usize) -> Vec<Vec<usize>> {
    let mut out = vec![vec![]];
    for _ in 0..k {
        let mut next = Vec::with_capacity(out.len() * n);
        for p in &out {
            for i in 0..n {
                let mut q = p.clone();
                q.push(i);
                next.push(q);
            }
        }
        out = next;
    }
    out
}

/// All subsets of `0..n` as bit masks.
pub fn subsets(n: usize) -> impl Iterator<Item = usize> {
    0..(1usize << n)
}

pub fn permutations(n: usize) -> Vec<Vec<usize>> {
    fn rec(cur: &mut Vec<usize>, used: &mut Vec<bool>, n: usize, out: &mut Vec<Vec<usize>>) {
        if cur.len() == n {
            out.push(cur.clone());
            return;
        }
        for i in 0..n {
            if !used[i] {
                used[i] = true;
                cur.push(i);
                rec(cur, used, n, out);
                cur.pop();
                used[i] = false;
            }
        }
    }
    let mut out = vec![];
    rec(&mut vec![], &mut vec![false; n], n, &mut out);
    out
}
