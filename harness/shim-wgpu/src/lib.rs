//! Recording stand-in for the `wgpu` 24 facade: same paths, field names and signatures for
//! everything the generated modules touch. Every executed case is also type-checked against the
//! real `wgpu` 24.0.5 (check flavour), which is what keeps this stand-in honest.
pub use wgpu_types::*;
use std::borrow::Cow;
use std::cell::RefCell;
use std::collections::HashMap;
use std::rc::Rc;

pub type Label<'a> = Option<&'a str>;

fn q(s: &str) -> String {
    // JSON string
    let mut o = String::from("\"");
    for c in s.chars() {
        match c {
            '"' => o.push_str("\\\""),
            '\\' => o.push_str("\\\\"),
            '\n' => o.push_str("\\n"),
            '\r' => o.push_str("\\r"),
            '\t' => o.push_str("\\t"),
            c if (c as u32) < 0x20 => o.push_str(&format!("\\u{:04x}", c as u32)),
            c => o.push(c),
        }
    }
    o.push('"');
    o
}
fn ql(l: Label) -> String {
    match l {
        Some(s) => q(s),
        None => "null".into(),
    }
}

#[derive(Debug, Default)]
pub struct Log(pub RefCell<Vec<String>>, pub RefCell<u32>);

#[derive(Debug, Clone)]
pub struct Device {
    log: Rc<Log>,
}
impl Device {
    pub fn recording() -> Device {
        Device { log: Rc::new(Log::default()) }
    }
    pub fn take_log(&self) -> Vec<String> {
        std::mem::take(&mut *self.log.0.borrow_mut())
    }
    fn next_id(&self) -> u32 {
        let mut n = self.log.1.borrow_mut();
        *n += 1;
        *n
    }
    fn push(&self, s: String) {
        self.log.0.borrow_mut().push(s);
    }
    pub fn create_bind_group_layout(&self, desc: &BindGroupLayoutDescriptor<'_>) -> BindGroupLayout {
        let id = self.next_id();
        let entries: Vec<String> = desc.entries.iter().map(|e| q(&format!("{e:?}"))).collect();
        self.push(format!("{{\"op\":\"create_bind_group_layout\",\"id\":{id},\"label\":{},\"entries\":[{}]}}", ql(desc.label), entries.join(",")));
        BindGroupLayout { id }
    }
    pub fn create_bind_group(&self, desc: &BindGroupDescriptor<'_>) -> BindGroup {
        let id = self.next_id();
        let entries: Vec<String> = desc
            .entries
            .iter()
            .map(|e| {
                let (kind, tag) = match &e.resource {
                    BindingResource::Buffer(b) => ("Buffer", format!("{}:{}:{:?}", b.buffer.tag, b.offset, b.size.map(|s| s.get()))),
                    BindingResource::TextureView(v) => ("TextureView", v.tag.to_string()),
                    BindingResource::Sampler(s) => ("Sampler", s.tag.to_string()),
                    BindingResource::BufferArray(_) => ("BufferArray", String::new()),
                    BindingResource::SamplerArray(_) => ("SamplerArray", String::new()),
                    BindingResource::TextureViewArray(_) => ("TextureViewArray", String::new()),
                };
                format!("{{\"binding\":{},\"kind\":\"{kind}\",\"tag\":{}}}", e.binding, q(&tag))
            })
            .collect();
        self.push(format!("{{\"op\":\"create_bind_group\",\"id\":{id},\"label\":{},\"layout\":{},\"entries\":[{}]}}", ql(desc.label), desc.layout.id, entries.join(",")));
        BindGroup { id }
    }
    pub fn create_pipeline_layout(&self, desc: &PipelineLayoutDescriptor<'_>) -> PipelineLayout {
        let id = self.next_id();
        let layouts: Vec<String> = desc.bind_group_layouts.iter().map(|l| l.id.to_string()).collect();
        let ranges: Vec<String> = desc.push_constant_ranges.iter().map(|r| format!("{{\"stages\":{},\"start\":{},\"end\":{}}}", r.stages.bits(), r.range.start, r.range.end)).collect();
        self.push(format!("{{\"op\":\"create_pipeline_layout\",\"id\":{id},\"label\":{},\"bind_group_layouts\":[{}],\"push_constant_ranges\":[{}]}}", ql(desc.label), layouts.join(","), ranges.join(",")));
        PipelineLayout { id }
    }
    pub fn create_shader_module(&self, desc: ShaderModuleDescriptor<'_>) -> ShaderModule {
        let id = self.next_id();
        let ShaderSource::Wgsl(src) = &desc.source;
        let bytes: Vec<String> = src.as_bytes().iter().map(|b| b.to_string()).collect();
        self.push(format!("{{\"op\":\"create_shader_module\",\"id\":{id},\"label\":{},\"source_bytes\":[{}]}}", ql(desc.label), bytes.join(",")));
        ShaderModule { id }
    }
    pub fn create_compute_pipeline(&self, desc: &ComputePipelineDescriptor<'_>) -> ComputePipeline {
        let id = self.next_id();
        let mut consts: Vec<String> = desc.compilation_options.constants.iter().map(|(k, v)| format!("[{},{}]", q(k), q(&format!("{:?}", v)))).collect();
        consts.sort();
        self.push(format!(
            "{{\"op\":\"create_compute_pipeline\",\"id\":{id},\"label\":{},\"layout\":{},\"module\":{},\"entry_point\":{},\"constants\":[{}],\"zero_init\":{},\"cache\":{}}}",
            ql(desc.label),
            desc.layout.map(|l| l.id.to_string()).unwrap_or("null".into()),
            desc.module.id,
            ql(desc.entry_point),
            consts.join(","),
            desc.compilation_options.zero_initialize_workgroup_memory,
            desc.cache.is_some()
        ));
        ComputePipeline { id }
    }
}

#[derive(Debug)]
pub struct BindGroupLayout {
    pub id: u32,
}
#[derive(Debug)]
pub struct BindGroup {
    pub id: u32,
}
#[derive(Debug)]
pub struct PipelineLayout {
    pub id: u32,
}
#[derive(Debug)]
pub struct ShaderModule {
    pub id: u32,
}
#[derive(Debug)]
pub struct ComputePipeline {
    pub id: u32,
}
#[derive(Debug)]
pub struct PipelineCache;
#[derive(Debug)]
pub struct Buffer {
    pub tag: u32,
}
#[derive(Debug)]
pub struct TextureView {
    pub tag: u32,
}
#[derive(Debug)]
pub struct Sampler {
    pub tag: u32,
}

#[derive(Clone, Debug)]
pub struct BindGroupLayoutDescriptor<'a> {
    pub label: Label<'a>,
    pub entries: &'a [BindGroupLayoutEntry],
}
#[derive(Clone, Debug)]
pub struct BindGroupDescriptor<'a> {
    pub label: Label<'a>,
    pub layout: &'a BindGroupLayout,
    pub entries: &'a [BindGroupEntry<'a>],
}
#[derive(Clone, Debug)]
pub struct BindGroupEntry<'a> {
    pub binding: u32,
    pub resource: BindingResource<'a>,
}
#[non_exhaustive]
#[derive(Clone, Debug)]
pub enum BindingResource<'a> {
    Buffer(BufferBinding<'a>),
    BufferArray(&'a [BufferBinding<'a>]),
    Sampler(&'a Sampler),
    SamplerArray(&'a [&'a Sampler]),
    TextureView(&'a TextureView),
    TextureViewArray(&'a [&'a TextureView]),
}
#[derive(Clone, Debug)]
pub struct BufferBinding<'a> {
    pub buffer: &'a Buffer,
    pub offset: BufferAddress,
    pub size: Option<BufferSize>,
}
#[derive(Clone, Debug, Default)]
pub struct PipelineLayoutDescriptor<'a> {
    pub label: Label<'a>,
    pub bind_group_layouts: &'a [&'a BindGroupLayout],
    pub push_constant_ranges: &'a [PushConstantRange],
}
#[derive(Clone, Debug)]
pub struct ShaderModuleDescriptor<'a> {
    pub label: Label<'a>,
    pub source: ShaderSource<'a>,
}
#[derive(Clone, Debug)]
#[non_exhaustive]
pub enum ShaderSource<'a> {
    Wgsl(Cow<'a, str>),
}
#[derive(Clone, Debug)]
pub struct PipelineCompilationOptions<'a> {
    pub constants: &'a HashMap<String, f64>,
    pub zero_initialize_workgroup_memory: bool,
}
impl Default for PipelineCompilationOptions<'_> {
    fn default() -> Self {
        static DEFAULT_CONSTANTS: std::sync::OnceLock<HashMap<String, f64>> = std::sync::OnceLock::new();
        let constants = DEFAULT_CONSTANTS.get_or_init(Default::default);
        Self { constants, zero_initialize_workgroup_memory: true }
    }
}
#[derive(Clone, Debug)]
pub struct ComputePipelineDescriptor<'a> {
    pub label: Label<'a>,
    pub layout: Option<&'a PipelineLayout>,
    pub module: &'a ShaderModule,
    pub entry_point: Option<&'a str>,
    pub compilation_options: PipelineCompilationOptions<'a>,
    pub cache: Option<&'a PipelineCache>,
}
#[derive(Clone, Debug, Hash, Eq, PartialEq)]
pub struct VertexBufferLayout<'a> {
    pub array_stride: BufferAddress,
    pub step_mode: VertexStepMode,
    pub attributes: &'a [VertexAttribute],
}
#[derive(Clone, Debug)]
pub struct VertexState<'a> {
    pub module: &'a ShaderModule,
    pub entry_point: Option<&'a str>,
    pub compilation_options: PipelineCompilationOptions<'a>,
    pub buffers: &'a [VertexBufferLayout<'a>],
}
#[derive(Clone, Debug)]
pub struct FragmentState<'a> {
    pub module: &'a ShaderModule,
    pub entry_point: Option<&'a str>,
    pub compilation_options: PipelineCompilationOptions<'a>,
    pub targets: &'a [Option<ColorTargetState>],
}

macro_rules! pass {
    ($name:ident) => {
        #[derive(Debug)]
        pub struct $name<'a> {
            pub calls: Vec<(u32, Option<u32>, Vec<DynamicOffset>)>,
            _m: std::marker::PhantomData<&'a ()>,
        }
        impl<'p> $name<'p> {
            pub fn recording() -> Self {
                $name { calls: vec![], _m: std::marker::PhantomData }
            }
            pub fn set_bind_group<'a, BG>(&mut self, index: u32, bind_group: BG, offsets: &[DynamicOffset])
            where
                Option<&'a BindGroup>: From<BG>,
            {
                let bg: Option<&BindGroup> = bind_group.into();
                self.calls.push((index, bg.map(|b| b.id), offsets.to_vec()));
            }
            pub fn calls_json(&self) -> String {
                let v: Vec<String> = self.calls.iter().map(|(i, b, o)| format!("[{},{},{}]", i, b.map(|x| x.to_string()).unwrap_or("null".into()), o.len())).collect();
                format!("[{}]", v.join(","))
            }
        }
    };
}
pass!(ComputePass);
pass!(RenderPass);
pass!(RenderBundleEncoder);
