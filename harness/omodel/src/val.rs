//! A small value language: the constant-expression forms the generator emits, read through `syn`.
//! Anything that cannot be represented becomes `Val::Unknown` and makes the consuming
//! interpreter return `Err` (a machinery error, never a verdict).
use std::collections::BTreeMap;

#[derive(Debug, Clone, PartialEq)]
pub enum Val {
    Int(i128, String),
    /// value (for an `f32` suffix: the f32 value, widened), suffix, digits as written
    Float(f64, String, String),
    Bool(bool),
    Str(String),
    /// A path used as a value: unit variant, constant, `None`.
    Path(Vec<String>),
    Struct {
        path: Vec<String>,
        fields: BTreeMap<String, Val>,
        rest: Option<Box<Val>>,
    },
    /// `path(args)`: tuple variant or function call.
    Call { path: Vec<String>, args: Vec<Val> },
    Method {
        recv: Box<Val>,
        name: String,
        args: Vec<Val>,
    },
    Array(Vec<Val>),
    Ref(Box<Val>),
    Range(Option<Box<Val>>, Option<Box<Val>>, bool),
    Field(Box<Val>, String),
    Macro { name: String, tokens: String },
    Cast(Box<Val>, String),
    Binary(String, Box<Val>, Box<Val>),
    Unary(String, Box<Val>),
    If(Box<Val>, Box<Val>, Box<Val>),
    Tuple(Vec<Val>),
    Unknown(String),
}

pub fn path_segments(p: &syn::Path) -> Vec<String> {
    p.segments
        .iter()
        .map(|s| match &s.arguments {
            syn::PathArguments::None => s.ident.to_string(),
            syn::PathArguments::AngleBracketed(a) => {
                let inner: Vec<String> = a.args.iter().map(|x| tokens_string(x)).collect();
                format!("{}<{}>", s.ident, inner.join(","))
            }
            syn::PathArguments::Parenthesized(a) => format!("{}{}", s.ident, tokens_string(a)),
        })
        .collect()
}

pub fn tokens_string<T: quote::ToTokens>(t: &T) -> String {
    normalize_tokens(&t.to_token_stream().to_string())
}

/// Token strings with all whitespace removed (types, macro arguments).
pub fn normalize_tokens(s: &str) -> String {
    s.chars().filter(|c| !c.is_whitespace()).collect()
}

fn block_val(b: &syn::Block) -> Val {
    if b.stmts.len() == 1 {
        if let syn::Stmt::Expr(e, None) = &b.stmts[0] {
            return eval(e);
        }
    }
    Val::Unknown(format!("block:{}", tokens_string(b)))
}

pub fn eval(e: &syn::Expr) -> Val {
    use syn::Expr;
    match e {
        Expr::Lit(l) => match &l.lit {
            syn::Lit::Int(i) if i.suffix() == "f32" || i.suffix() == "f64" => {
                // e.g. `16777216f32`: lexically an integer literal with a float suffix
                let digits = i.base10_digits().to_string();
                let v = if i.suffix() == "f32" { digits.parse::<f32>().map(|x| x as f64) } else { digits.parse::<f64>() };
                match v {
                    Ok(v) => Val::Float(v, i.suffix().to_string(), digits),
                    Err(_) => Val::Unknown(format!("float:{}", i)),
                }
            }
            syn::Lit::Int(i) => match i.base10_parse::<i128>() {
                Ok(v) => Val::Int(v, i.suffix().to_string()),
                Err(_) => Val::Unknown(format!("int:{}", i)),
            },
            syn::Lit::Float(f) => {
                let digits = f.base10_digits().to_string();
                let v = if f.suffix() == "f32" { digits.parse::<f32>().map(|x| x as f64) } else { digits.parse::<f64>() };
                match v {
                    Ok(v) => Val::Float(v, f.suffix().to_string(), digits),
                    Err(_) => Val::Unknown(format!("float:{}", f)),
                }
            }
            syn::Lit::Bool(b) => Val::Bool(b.value),
            syn::Lit::Str(s) => Val::Str(s.value()),
            other => Val::Unknown(format!("lit:{}", tokens_string(other))),
        },
        Expr::Path(p) => Val::Path(path_segments(&p.path)),
        Expr::Struct(s) => {
            let mut fields = BTreeMap::new();
            for f in &s.fields {
                let name = match &f.member {
                    syn::Member::Named(i) => i.to_string(),
                    syn::Member::Unnamed(i) => i.index.to_string(),
                };
                fields.insert(name, eval(&f.expr));
            }
            Val::Struct {
                path: path_segments(&s.path),
                fields,
                rest: s.rest.as_ref().map(|r| Box::new(eval(r))),
            }
        }
        Expr::Call(c) => {
            let args = c.args.iter().map(eval).collect();
            match &*c.func {
                Expr::Path(p) => Val::Call {
                    path: path_segments(&p.path),
                    args,
                },
                other => Val::Unknown(format!("call:{}", tokens_string(other))),
            }
        }
        Expr::MethodCall(m) => Val::Method {
            recv: Box::new(eval(&m.receiver)),
            name: m.method.to_string(),
            args: m.args.iter().map(eval).collect(),
        },
        Expr::Array(a) => Val::Array(a.elems.iter().map(eval).collect()),
        Expr::Reference(r) => Val::Ref(Box::new(eval(&r.expr))),
        Expr::Paren(p) => eval(&p.expr),
        Expr::Group(g) => eval(&g.expr),
        Expr::Range(r) => Val::Range(
            r.start.as_ref().map(|x| Box::new(eval(x))),
            r.end.as_ref().map(|x| Box::new(eval(x))),
            matches!(r.limits, syn::RangeLimits::Closed(_)),
        ),
        Expr::Field(f) => {
            let name = match &f.member {
                syn::Member::Named(i) => i.to_string(),
                syn::Member::Unnamed(i) => i.index.to_string(),
            };
            Val::Field(Box::new(eval(&f.base)), name)
        }
        Expr::Macro(m) => Val::Macro {
            name: path_segments(&m.mac.path).join("::"),
            tokens: m.mac.tokens.to_string(),
        },
        Expr::Cast(c) => Val::Cast(Box::new(eval(&c.expr)), tokens_string(&c.ty)),
        Expr::Binary(b) => Val::Binary(
            tokens_string(&b.op),
            Box::new(eval(&b.left)),
            Box::new(eval(&b.right)),
        ),
        Expr::Unary(u) => Val::Unary(tokens_string(&u.op), Box::new(eval(&u.expr))),
        Expr::If(i) => match &i.else_branch {
            Some((_, els)) => {
                let els_v = match &**els {
                    Expr::Block(b) => block_val(&b.block),
                    other => eval(other),
                };
                Val::If(
                    Box::new(eval(&i.cond)),
                    Box::new(block_val(&i.then_branch)),
                    Box::new(els_v),
                )
            }
            None => Val::Unknown(format!("if-no-else:{}", tokens_string(i))),
        },
        Expr::Block(b) => block_val(&b.block),
        Expr::Tuple(t) => Val::Tuple(t.elems.iter().map(eval).collect()),
        other => Val::Unknown(tokens_string(other)),
    }
}

impl Val {
    pub fn unref(&self) -> &Val {
        match self {
            Val::Ref(inner) => inner.unref(),
            other => other,
        }
    }
    pub fn last_seg(&self) -> Option<&str> {
        match self {
            Val::Path(p) => p.last().map(|s| s.as_str()),
            _ => None,
        }
    }
    pub fn field(&self, name: &str) -> Result<&Val, String> {
        match self.unref() {
            Val::Struct { fields, .. } => fields
                .get(name)
                .ok_or_else(|| format!("missing field `{name}` in {self:?}")),
            other => Err(format!("not a struct literal (want field `{name}`): {other:?}")),
        }
    }
    pub fn as_u64(&self) -> Result<u64, String> {
        match self.unref() {
            Val::Int(v, _) if *v >= 0 && *v <= u64::MAX as i128 => Ok(*v as u64),
            Val::Cast(inner, _) => inner.as_u64(),
            other => Err(format!("not an unsigned integer: {other:?}")),
        }
    }
    pub fn as_bool(&self) -> Result<bool, String> {
        match self.unref() {
            Val::Bool(b) => Ok(*b),
            other => Err(format!("not a bool: {other:?}")),
        }
    }
    pub fn as_str(&self) -> Result<&str, String> {
        match self.unref() {
            Val::Str(s) => Ok(s),
            other => Err(format!("not a string: {other:?}")),
        }
    }
    pub fn as_array(&self) -> Result<&[Val], String> {
        match self.unref() {
            Val::Array(a) => Ok(a),
            other => Err(format!("not an array: {other:?}")),
        }
    }
    /// `Some(x)` / `None`.
    pub fn as_option(&self) -> Result<Option<&Val>, String> {
        match self.unref() {
            Val::Path(p) if p.last().map(|s| s == "None").unwrap_or(false) => Ok(None),
            Val::Call { path, args } if path.last().map(|s| s == "Some").unwrap_or(false) && args.len() == 1 => {
                Ok(Some(&args[0]))
            }
            other => Err(format!("not an Option literal: {other:?}")),
        }
    }
}
