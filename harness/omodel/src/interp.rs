//! Interpretation of `Val` trees as real `wgpu_types` values.
use crate::val::Val;
use std::collections::BTreeMap;
use wgpu_types as wgt;

pub type Env = BTreeMap<String, Val>;

macro_rules! name_table {
    ($fname:ident, $ty:ty, [$($v:ident),* $(,)?]) => {
        pub fn $fname(name: &str) -> Option<$ty> {
            match name {
                $(stringify!($v) => Some(<$ty>::$v),)*
                _ => None,
            }
        }
    };
}

name_table!(texture_format_by_name, wgt::TextureFormat, [
    R8Unorm, R8Snorm, R8Uint, R8Sint, R16Uint, R16Sint, R16Unorm, R16Snorm, R16Float, Rg8Unorm,
    Rg8Snorm, Rg8Uint, Rg8Sint, R32Uint, R32Sint, R32Float, Rg16Uint, Rg16Sint, Rg16Unorm,
    Rg16Snorm, Rg16Float, Rgba8Unorm, Rgba8UnormSrgb, Rgba8Snorm, Rgba8Uint, Rgba8Sint,
    Bgra8Unorm, Bgra8UnormSrgb, Rgb9e5Ufloat, Rgb10a2Uint, Rgb10a2Unorm, Rg11b10Ufloat, R64Uint,
    Rg32Uint, Rg32Sint, Rg32Float, Rgba16Uint, Rgba16Sint, Rgba16Unorm, Rgba16Snorm, Rgba16Float,
    Rgba32Uint, Rgba32Sint, Rgba32Float, Stencil8, Depth16Unorm, Depth24Plus, Depth24PlusStencil8,
    Depth32Float, Depth32FloatStencil8, NV12, Bc1RgbaUnorm, Bc1RgbaUnormSrgb, Bc2RgbaUnorm,
    Bc2RgbaUnormSrgb, Bc3RgbaUnorm, Bc3RgbaUnormSrgb, Bc4RUnorm, Bc4RSnorm, Bc5RgUnorm,
    Bc5RgSnorm, Bc6hRgbUfloat, Bc6hRgbFloat, Bc7RgbaUnorm, Bc7RgbaUnormSrgb, Etc2Rgb8Unorm,
    Etc2Rgb8UnormSrgb, Etc2Rgb8A1Unorm, Etc2Rgb8A1UnormSrgb, Etc2Rgba8Unorm, Etc2Rgba8UnormSrgb,
    EacR11Unorm, EacR11Snorm, EacRg11Unorm, EacRg11Snorm,
]);

name_table!(vertex_format_by_name, wgt::VertexFormat, [
    Uint8, Uint8x2, Uint8x4, Sint8, Sint8x2, Sint8x4, Unorm8, Unorm8x2, Unorm8x4, Snorm8, Snorm8x2,
    Snorm8x4, Uint16, Uint16x2, Uint16x4, Sint16, Sint16x2, Sint16x4, Unorm16, Unorm16x2,
    Unorm16x4, Snorm16, Snorm16x2, Snorm16x4, Float16, Float16x2, Float16x4, Float32, Float32x2,
    Float32x3, Float32x4, Uint32, Uint32x2, Uint32x3, Uint32x4, Sint32, Sint32x2, Sint32x3,
    Sint32x4, Float64, Float64x2, Float64x3, Float64x4, Unorm8x4Bgra,
]);

name_table!(view_dimension_by_name, wgt::TextureViewDimension, [D1, D2, D2Array, Cube, CubeArray, D3]);
name_table!(storage_access_by_name, wgt::StorageTextureAccess, [WriteOnly, ReadOnly, ReadWrite, Atomic]);
name_table!(sampler_type_by_name, wgt::SamplerBindingType, [Filtering, NonFiltering, Comparison]);
name_table!(step_mode_by_name, wgt::VertexStepMode, [Vertex, Instance]);

/// The path must be `<...>::<enum_name>::<Variant>` (with or without the leading `wgpu::`).
fn variant_of<'a>(path: &'a [String], enum_name: &str) -> Result<&'a str, String> {
    if path.len() >= 2 && path[path.len() - 2] == enum_name {
        Ok(path[path.len() - 1].as_str())
    } else {
        Err(format!("expected a `{enum_name}::..` path, found `{}`", path.join("::")))
    }
}

fn lookup<'a>(v: &'a Val, env: &'a Env, depth: usize) -> &'a Val {
    if depth > 8 {
        return v;
    }
    if let Val::Path(p) = v {
        if p.len() == 1 {
            if let Some(x) = env.get(&p[0]) {
                return lookup(x, env, depth + 1);
            }
        }
        // `super::NAME`, `self::NAME`, `crate::...::NAME`
        if p.len() >= 2 && p[..p.len() - 1].iter().all(|s| s == "super" || s == "self" || s == "crate") {
            if let Some(x) = env.get(&p[p.len() - 1]) {
                return lookup(x, env, depth + 1);
            }
        }
    }
    v
}

pub fn shader_stages(v: &Val, env: &Env) -> Result<wgt::ShaderStages, String> {
    let v = lookup(v.unref(), env, 0);
    match v {
        Val::Path(p) => {
            let name = variant_of(p, "ShaderStages")?;
            match name {
                "NONE" => Ok(wgt::ShaderStages::NONE),
                "VERTEX" => Ok(wgt::ShaderStages::VERTEX),
                "FRAGMENT" => Ok(wgt::ShaderStages::FRAGMENT),
                "COMPUTE" => Ok(wgt::ShaderStages::COMPUTE),
                "VERTEX_FRAGMENT" => Ok(wgt::ShaderStages::VERTEX_FRAGMENT),
                other => Err(format!("unknown ShaderStages constant `{other}`")),
            }
        }
        Val::Call { path, args } if args.is_empty() => {
            let name = variant_of(path, "ShaderStages")?;
            match name {
                "all" => Ok(wgt::ShaderStages::all()),
                "empty" => Ok(wgt::ShaderStages::empty()),
                other => Err(format!("unknown ShaderStages constructor `{other}`")),
            }
        }
        Val::Method { recv, name, args } if args.len() == 1 => {
            let a = shader_stages(recv, env)?;
            let b = shader_stages(&args[0], env)?;
            match name.as_str() {
                "union" => Ok(a.union(b)),
                "intersection" => Ok(a.intersection(b)),
                "difference" => Ok(a.difference(b)),
                other => Err(format!("unknown ShaderStages method `{other}`")),
            }
        }
        Val::Binary(op, a, b) => {
            let a = shader_stages(a, env)?;
            let b = shader_stages(b, env)?;
            match op.as_str() {
                "|" => Ok(a | b),
                "&" => Ok(a & b),
                other => Err(format!("unknown ShaderStages operator `{other}`")),
            }
        }
        other => Err(format!("cannot read ShaderStages from {other:?}")),
    }
}

fn sample_type(v: &Val) -> Result<wgt::TextureSampleType, String> {
    match v.unref() {
        Val::Path(p) => match variant_of(p, "TextureSampleType")? {
            "Depth" => Ok(wgt::TextureSampleType::Depth),
            "Sint" => Ok(wgt::TextureSampleType::Sint),
            "Uint" => Ok(wgt::TextureSampleType::Uint),
            other => Err(format!("unknown TextureSampleType `{other}`")),
        },
        Val::Struct { path, .. } => match variant_of(path, "TextureSampleType")? {
            "Float" => Ok(wgt::TextureSampleType::Float {
                filterable: v.field("filterable")?.as_bool()?,
            }),
            other => Err(format!("unknown TextureSampleType `{other}`")),
        },
        other => Err(format!("cannot read TextureSampleType from {other:?}")),
    }
}

fn buffer_binding_type(v: &Val) -> Result<wgt::BufferBindingType, String> {
    match v.unref() {
        Val::Path(p) => match variant_of(p, "BufferBindingType")? {
            "Uniform" => Ok(wgt::BufferBindingType::Uniform),
            other => Err(format!("unknown BufferBindingType `{other}`")),
        },
        Val::Struct { path, .. } => match variant_of(path, "BufferBindingType")? {
            "Storage" => Ok(wgt::BufferBindingType::Storage {
                read_only: v.field("read_only")?.as_bool()?,
            }),
            other => Err(format!("unknown BufferBindingType `{other}`")),
        },
        other => Err(format!("cannot read BufferBindingType from {other:?}")),
    }
}

fn unit_variant<T>(v: &Val, enum_name: &str, table: fn(&str) -> Option<T>) -> Result<T, UnknownName> {
    match v.unref() {
        Val::Path(p) => {
            let name = variant_of(p, enum_name).map_err(UnknownName::Form)?;
            table(name).ok_or_else(|| UnknownName::NoSuchVariant(format!("{enum_name}::{name}")))
        }
        other => Err(UnknownName::Form(format!("cannot read {enum_name} from {other:?}"))),
    }
}

/// Distinguishes "the text names an enum variant that does not exist in wgpu 24"
/// (which rustc would reject: a property-level fact) from "the reader does not understand the form".
#[derive(Debug, Clone, PartialEq)]
pub enum UnknownName {
    NoSuchVariant(String),
    Form(String),
    /// an item every module with this content must have is absent (a verdict about the module, not about the reader)
    Missing(String),
}
impl From<String> for UnknownName {
    fn from(s: String) -> Self {
        UnknownName::Form(s)
    }
}

pub fn binding_type(v: &Val) -> Result<wgt::BindingType, UnknownName> {
    match v.unref() {
        Val::Struct { path, .. } => match variant_of(path, "BindingType")? {
            "Buffer" => {
                let min = v.field("min_binding_size")?.as_option()?;
                let min_binding_size = match min {
                    None => None,
                    Some(x) => {
                        // e.g. std::num::NonZeroU64::new(16) -- not emitted today
                        return Err(UnknownName::Form(format!("min_binding_size form {x:?}")));
                    }
                };
                Ok(wgt::BindingType::Buffer {
                    ty: buffer_binding_type(v.field("ty")?)?,
                    has_dynamic_offset: v.field("has_dynamic_offset")?.as_bool()?,
                    min_binding_size,
                })
            }
            "Texture" => Ok(wgt::BindingType::Texture {
                sample_type: sample_type(v.field("sample_type")?)?,
                view_dimension: unit_variant(v.field("view_dimension")?, "TextureViewDimension", view_dimension_by_name)?,
                multisampled: v.field("multisampled")?.as_bool()?,
            }),
            "StorageTexture" => Ok(wgt::BindingType::StorageTexture {
                access: unit_variant(v.field("access")?, "StorageTextureAccess", storage_access_by_name)?,
                format: unit_variant(v.field("format")?, "TextureFormat", texture_format_by_name)?,
                view_dimension: unit_variant(v.field("view_dimension")?, "TextureViewDimension", view_dimension_by_name)?,
            }),
            other => Err(UnknownName::Form(format!("unknown BindingType struct variant `{other}`"))),
        },
        Val::Call { path, args } if args.len() == 1 => match variant_of(path, "BindingType")? {
            "Sampler" => Ok(wgt::BindingType::Sampler(unit_variant(
                &args[0],
                "SamplerBindingType",
                sampler_type_by_name,
            )?)),
            other => Err(UnknownName::Form(format!("unknown BindingType tuple variant `{other}`"))),
        },
        Val::Path(p) => match variant_of(p, "BindingType")? {
            "AccelerationStructure" => Ok(wgt::BindingType::AccelerationStructure),
            other => Err(UnknownName::Form(format!("unknown BindingType unit variant `{other}`"))),
        },
        other => Err(UnknownName::Form(format!("cannot read BindingType from {other:?}"))),
    }
}

pub fn layout_entry(v: &Val, env: &Env) -> Result<wgt::BindGroupLayoutEntry, UnknownName> {
    let count = v.field("count")?.as_option()?;
    if count.is_some() {
        return Err(UnknownName::Form("count: Some(..) is not modelled".into()));
    }
    let binding = v.field("binding")?.as_u64()?;
    if binding > u32::MAX as u64 {
        return Err(UnknownName::NoSuchVariant(format!("binding literal {binding} out of range for u32")));
    }
    Ok(wgt::BindGroupLayoutEntry {
        binding: binding as u32,
        visibility: shader_stages(v.field("visibility")?, env)?,
        ty: binding_type(v.field("ty")?)?,
        count: None,
    })
}
impl From<&str> for UnknownName {
    fn from(s: &str) -> Self {
        UnknownName::Form(s.to_string())
    }
}
impl std::fmt::Display for UnknownName {
    fn fmt(&self, f: &mut std::fmt::Formatter<'_>) -> std::fmt::Result {
        match self {
            UnknownName::NoSuchVariant(s) => write!(f, "names something that does not exist in wgpu 24: {s}"),
            UnknownName::Form(s) => write!(f, "unreadable form: {s}"),
            UnknownName::Missing(s) => write!(f, "missing item: {s}"),
        }
    }
}
