//! `omodel`: a reader of the generated Rust module ("L2-model").
//!
//! It parses the text with `syn` and exposes the items the properties talk about. Constant
//! expressions are turned into `Val` trees and interpreted as real `wgpu_types` values.
//! Every accessor returns `Err(String)` for a form it does not understand; callers treat that as a
//! machinery error (exit 2), never as a verdict.
pub mod interp;
pub mod val;

use std::collections::BTreeMap;
use syn::visit::Visit;
pub use val::{eval, normalize_tokens, tokens_string, Val};

#[derive(Debug, Clone, PartialEq)]
pub struct FieldInfo {
    pub name: String,
    pub ty: String,
    pub attrs: Vec<String>,
    pub is_pub: bool,
}

#[derive(Debug, Clone, PartialEq)]
pub struct StructInfo {
    pub name: String,
    pub derives: Vec<String>,
    pub repr: Vec<String>,
    pub other_attrs: Vec<String>,
    pub generics: String,
    pub fields: Vec<FieldInfo>,
    pub tuple: bool,
    pub is_pub: bool,
}

#[derive(Debug, Clone, PartialEq)]
pub struct ConstInfo {
    pub name: String,
    pub ty: String,
    pub val: Val,
    pub is_pub: bool,
}

#[derive(Debug, Clone)]
pub struct FnInfo {
    pub name: String,
    pub generics: String,
    pub params: Vec<(String, String)>,
    pub ret: String,
    pub is_pub: bool,
    pub is_const: bool,
    pub block: syn::Block,
}

#[derive(Debug, Clone, PartialEq)]
pub struct Assertion {
    pub struct_name: String,
    /// `Some(field)` for an offset assertion, `None` for a size assertion.
    pub field: Option<String>,
    pub expected: u64,
    pub msg: String,
    /// attributes on the assertion item (an unconditional check has none)
    pub attrs: Vec<String>,
}

#[derive(Debug, Clone)]
pub struct ImplInfo {
    pub self_ty: String,
    pub trait_: Option<String>,
    pub generics: String,
    pub consts: Vec<ConstInfo>,
    pub fns: Vec<FnInfo>,
}

/// One lexical scope (the file, or a `mod`).
#[derive(Debug, Clone, Default)]
pub struct Scope {
    pub structs: Vec<StructInfo>,
    pub consts: Vec<ConstInfo>,
    pub fns: Vec<FnInfo>,
    pub impls: Vec<ImplInfo>,
    pub mods: Vec<(String, bool, Scope)>,
    pub traits: Vec<String>,
    pub assertions: Vec<Assertion>,
    /// Items the reader has no slot for (kept as token strings so nothing is silently ignored).
    pub other_items: Vec<String>,
    /// Names of all items in declaration order with a kind tag, e.g. `struct:Foo`.
    pub order: Vec<String>,
}

fn is_pub(v: &syn::Visibility) -> bool {
    matches!(v, syn::Visibility::Public(_))
}

fn attr_lists(attrs: &[syn::Attribute]) -> (Vec<String>, Vec<String>, Vec<String>) {
    let mut derives = vec![];
    let mut repr = vec![];
    let mut other = vec![];
    for a in attrs {
        let name = val::path_segments(a.path()).join("::");
        if name == "derive" || name == "repr" {
            let mut items = vec![];
            let _ = a.parse_nested_meta(|m| {
                items.push(normalize_tokens(&quote::ToTokens::to_token_stream(&m.path).to_string()));
                // consume optional (...) or = value
                if m.input.peek(syn::token::Paren) {
                    let content;
                    syn::parenthesized!(content in m.input);
                    let ts: proc_macro2::TokenStream = content.parse()?;
                    let last = items.pop().unwrap();
                    items.push(format!("{}({})", last, normalize_tokens(&ts.to_string())));
                }
                Ok(())
            });
            if name == "derive" {
                derives.extend(items);
            } else {
                repr.extend(items);
            }
        } else {
            other.push(tokens_string(a));
        }
    }
    (derives, repr, other)
}

fn read_fields(fields: &syn::Fields) -> (Vec<FieldInfo>, bool) {
    match fields {
        syn::Fields::Named(n) => (
            n.named
                .iter()
                .map(|f| FieldInfo {
                    name: f.ident.as_ref().unwrap().to_string(),
                    ty: tokens_string(&f.ty),
                    attrs: f.attrs.iter().map(tokens_string).collect(),
                    is_pub: is_pub(&f.vis),
                })
                .collect(),
            false,
        ),
        syn::Fields::Unnamed(u) => (
            u.unnamed
                .iter()
                .enumerate()
                .map(|(i, f)| FieldInfo {
                    name: i.to_string(),
                    ty: tokens_string(&f.ty),
                    attrs: f.attrs.iter().map(tokens_string).collect(),
                    is_pub: is_pub(&f.vis),
                })
                .collect(),
            true,
        ),
        syn::Fields::Unit => (vec![], true),
    }
}

fn read_sig(vis_pub: bool, sig: &syn::Signature, block: &syn::Block) -> FnInfo {
    FnInfo {
        name: sig.ident.to_string(),
        generics: tokens_string(&sig.generics),
        params: sig
            .inputs
            .iter()
            .map(|a| match a {
                syn::FnArg::Receiver(r) => ("self".to_string(), tokens_string(r)),
                syn::FnArg::Typed(t) => (tokens_string(&t.pat), tokens_string(&t.ty)),
            })
            .collect(),
        ret: match &sig.output {
            syn::ReturnType::Default => String::new(),
            syn::ReturnType::Type(_, t) => tokens_string(t),
        },
        is_pub: vis_pub,
        is_const: sig.constness.is_some(),
        block: block.clone(),
    }
}

/// `const _: () = assert!(std::mem::offset_of!(S, f) == N, "msg");`
/// `const _: () = assert!(std::mem::size_of::<S>() == N, "msg");`
fn read_assertion(c: &syn::ItemConst) -> Result<Option<Assertion>, String> {
    if c.ident != "_" {
        return Ok(None);
    }
    let mac = match &*c.expr {
        syn::Expr::Macro(m) if val::path_segments(&m.mac.path).last().map(|s| s == "assert").unwrap_or(false) => &m.mac,
        _ => return Err(format!("unnamed const that is not an assert!: {}", tokens_string(c))),
    };
    let args = mac
        .parse_body_with(syn::punctuated::Punctuated::<syn::Expr, syn::Token![,]>::parse_terminated)
        .map_err(|e| format!("assert! arguments: {e}"))?;
    let args: Vec<_> = args.into_iter().collect();
    if args.is_empty() || args.len() > 2 {
        return Err(format!("assert! with {} arguments", args.len()));
    }
    let msg = match args.get(1).map(eval) {
        Some(Val::Str(s)) => s,
        None => String::new(),
        Some(other) => return Err(format!("assert! message form {other:?}")),
    };
    let (lhs, rhs) = match eval(&args[0]) {
        Val::Binary(op, l, r) if op == "==" => (*l, *r),
        other => return Err(format!("assert! condition is not an `==` comparison: {other:?}")),
    };
    // accept either order
    let (probe, expected) = match (lhs.as_u64(), rhs.as_u64()) {
        (Err(_), Ok(n)) => (lhs, n),
        (Ok(n), Err(_)) => (rhs, n),
        _ => return Err("assert! comparison without exactly one integer literal side".into()),
    };
    match probe {
        Val::Macro { name, tokens } if name.ends_with("offset_of") => {
            let parts: Vec<String> = tokens.split(',').map(normalize_tokens).collect();
            if parts.len() != 2 {
                return Err(format!("offset_of! arguments `{tokens}`"));
            }
            Ok(Some(Assertion {
                struct_name: parts[0].clone(),
                field: Some(parts[1].clone()),
                expected,
                msg, attrs: vec![]
            }))
        }
        Val::Call { path, args } if args.is_empty() => {
            let last = path.last().cloned().unwrap_or_default();
            if let Some(inner) = last.strip_prefix("size_of<").and_then(|s| s.strip_suffix('>')) {
                Ok(Some(Assertion {
                    struct_name: inner.to_string(),
                    field: None,
                    expected,
                    msg, attrs: vec![]
                }))
            } else {
                Err(format!("assert! probes `{}`", path.join("::")))
            }
        }
        other => Err(format!("assert! probe form {other:?}")),
    }
}

fn read_const(c: &syn::ItemConst) -> ConstInfo {
    ConstInfo {
        name: c.ident.to_string(),
        ty: tokens_string(&c.ty),
        val: eval(&c.expr),
        is_pub: is_pub(&c.vis),
    }
}

pub fn read_scope(items: &[syn::Item]) -> Result<Scope, String> {
    let mut s = Scope::default();
    for item in items {
        match item {
            syn::Item::Struct(st) => {
                let (derives, repr, other_attrs) = attr_lists(&st.attrs);
                let (fields, tuple) = read_fields(&st.fields);
                s.order.push(format!("struct:{}", st.ident));
                s.structs.push(StructInfo {
                    name: st.ident.to_string(),
                    derives,
                    repr,
                    other_attrs,
                    generics: tokens_string(&st.generics),
                    fields,
                    tuple,
                    is_pub: is_pub(&st.vis),
                });
            }
            syn::Item::Const(c) => {
                if c.ident == "_" {
                    match read_assertion(c)? {
                        Some(mut a) => {
                            a.attrs = c.attrs.iter().map(|x| tokens_string(x)).collect();
                            s.order.push(format!("assert:{}:{}", a.struct_name, a.field.clone().unwrap_or_default()));
                            s.assertions.push(a)
                        }
                        None => unreachable!(),
                    }
                } else {
                    s.order.push(format!("const:{}", c.ident));
                    s.consts.push(read_const(c));
                }
            }
            syn::Item::Fn(f) => {
                s.order.push(format!("fn:{}", f.sig.ident));
                s.fns.push(read_sig(is_pub(&f.vis), &f.sig, &f.block));
            }
            syn::Item::Impl(i) => {
                let mut consts = vec![];
                let mut fns = vec![];
                for ii in &i.items {
                    match ii {
                        syn::ImplItem::Const(c) => consts.push(ConstInfo {
                            name: c.ident.to_string(),
                            ty: tokens_string(&c.ty),
                            val: eval(&c.expr),
                            is_pub: is_pub(&c.vis),
                        }),
                        syn::ImplItem::Fn(f) => fns.push(read_sig(is_pub(&f.vis), &f.sig, &f.block)),
                        other => s.other_items.push(tokens_string(other)),
                    }
                }
                let info = ImplInfo {
                    self_ty: tokens_string(&i.self_ty),
                    trait_: i.trait_.as_ref().map(|(_, p, _)| val::path_segments(p).join("::")),
                    generics: tokens_string(&i.generics),
                    consts,
                    fns,
                };
                s.order.push(format!("impl:{}:{}", info.trait_.clone().unwrap_or_default(), info.self_ty));
                s.impls.push(info);
            }
            syn::Item::Mod(m) => {
                let inner = match &m.content {
                    Some((_, items)) => read_scope(items)?,
                    None => return Err(format!("out-of-line module `{}`", m.ident)),
                };
                s.order.push(format!("mod:{}", m.ident));
                s.mods.push((m.ident.to_string(), is_pub(&m.vis), inner));
            }
            syn::Item::Trait(t) => {
                s.order.push(format!("trait:{}", t.ident));
                s.traits.push(t.ident.to_string());
            }
            other => {
                s.order.push("other".into());
                s.other_items.push(tokens_string(other))
            }
        }
    }
    Ok(s)
}

pub struct Module {
    pub file: syn::File,
    pub top: Scope,
}

pub fn parse(text: &str) -> Result<Module, String> {
    let file = syn::parse_file(text).map_err(|e| format!("syn cannot parse the generated module: {e}"))?;
    let top = read_scope(&file.items)?;
    Ok(Module { file, top })
}

// ---------------------------------------------------------------------------------------------
// searching function bodies

struct Finder<'a> {
    struct_name: Option<&'a str>,
    method_name: Option<&'a str>,
    call_last: Option<&'a str>,
    structs: Vec<Val>,
    methods: Vec<Val>,
    calls: Vec<Val>,
}
impl<'ast, 'a> Visit<'ast> for Finder<'a> {
    fn visit_expr_struct(&mut self, s: &'ast syn::ExprStruct) {
        if let Some(n) = self.struct_name {
            if s.path.segments.last().map(|x| x.ident == n).unwrap_or(false) {
                self.structs.push(eval(&syn::Expr::Struct(s.clone())));
            }
        }
        syn::visit::visit_expr_struct(self, s);
    }
    fn visit_expr_method_call(&mut self, m: &'ast syn::ExprMethodCall) {
        if let Some(n) = self.method_name {
            if m.method == n {
                self.methods.push(eval(&syn::Expr::MethodCall(m.clone())));
            }
        }
        syn::visit::visit_expr_method_call(self, m);
    }
    fn visit_expr_call(&mut self, c: &'ast syn::ExprCall) {
        if let Some(n) = self.call_last {
            if let syn::Expr::Path(p) = &*c.func {
                if p.path.segments.last().map(|x| x.ident == n).unwrap_or(false) {
                    self.calls.push(eval(&syn::Expr::Call(c.clone())));
                }
            }
        }
        syn::visit::visit_expr_call(self, c);
    }
}

pub fn find_struct_literals(block: &syn::Block, name: &str) -> Vec<Val> {
    let mut f = Finder { struct_name: Some(name), method_name: None, call_last: None, structs: vec![], methods: vec![], calls: vec![] };
    f.visit_block(block);
    f.structs
}
pub fn find_method_calls(block: &syn::Block, name: &str) -> Vec<Val> {
    let mut f = Finder { struct_name: None, method_name: Some(name), call_last: None, structs: vec![], methods: vec![], calls: vec![] };
    f.visit_block(block);
    f.methods
}
pub fn find_calls(block: &syn::Block, last_segment: &str) -> Vec<Val> {
    let mut f = Finder { struct_name: None, method_name: None, call_last: Some(last_segment), structs: vec![], methods: vec![], calls: vec![] };
    f.visit_block(block);
    f.calls
}

/// `let <name> = <expr>;` bindings of a block (top level statements only), as an environment.
pub fn let_env(block: &syn::Block) -> interp::Env {
    let mut env = BTreeMap::new();
    for st in &block.stmts {
        if let syn::Stmt::Local(l) = st {
            if let (syn::Pat::Ident(pi), Some(init)) = (&l.pat, &l.init) {
                env.insert(pi.ident.to_string(), eval(&init.expr));
            }
        }
    }
    env
}

// ---------------------------------------------------------------------------------------------
// bind groups

#[derive(Debug, Clone, PartialEq)]
pub struct GroupEntryUse {
    pub binding: u64,
    /// `Buffer` / `TextureView` / `Sampler`
    pub resource_kind: String,
    /// the field of `bindings` handed over
    pub field: String,
}

#[derive(Debug, Clone)]
pub struct GroupInfo {
    pub index: u32,
    pub wrapper_derives: Vec<String>,
    pub resource_fields: Vec<FieldInfo>,
    pub layout_label: Option<String>,
    pub layout_entries: Vec<wgpu_types::BindGroupLayoutEntry>,
    /// names of the layout-descriptor constants referenced by `get_bind_group_layout` and `from_bindings`
    pub get_layout_uses: Vec<String>,
    pub from_bindings_layout_uses: Vec<String>,
    pub from_bindings_param_ty: String,
    pub from_bindings_entries: Vec<GroupEntryUse>,
    pub from_bindings_layout_is_local: bool,
    pub bind_group_label: Option<String>,
    /// (index, bind group expr, offsets expr) of every `set_bind_group` call in `set`
    pub set_calls: Vec<(u64, Val, Val)>,
    pub layout_const_name: String,
}

#[derive(Debug, Clone, Default)]
pub struct BindGroupsInfo {
    pub groups: Vec<GroupInfo>,
    /// fields of `BindGroups<'a>`: (field name, type)
    pub bind_groups_fields: Vec<FieldInfo>,
    /// receivers of `.set(pass)` in `BindGroups::set`, e.g. `self.bind_group0`
    pub bind_groups_set_calls: Vec<Val>,
    /// (self type, forwards `index, bind_group, offsets` unchanged)
    pub set_bind_group_impls: Vec<(String, bool)>,
    /// top-level `set_bind_groups` parameters and its `.set(pass)` receivers
    pub set_bind_groups_params: Vec<(String, String)>,
    pub set_bind_groups_calls: Vec<Val>,
    pub present: bool,
}

fn strip_num<'a>(s: &'a str, prefix: &str) -> Option<u32> {
    s.strip_prefix(prefix).and_then(|n| if !n.is_empty() && n.bytes().all(|b| b.is_ascii_digit()) { n.parse().ok() } else { None })
}

impl Module {
    pub fn mod_scope(&self, name: &str) -> Option<&Scope> {
        self.top.mods.iter().find(|(n, _, _)| n == name).map(|(_, _, s)| s)
    }

    pub fn top_fn(&self, name: &str) -> Option<&FnInfo> {
        self.top.fns.iter().find(|f| f.name == name)
    }

    pub fn top_const(&self, name: &str) -> Option<&ConstInfo> {
        self.top.consts.iter().find(|c| c.name == name)
    }

    /// Environment of top-level constants (for resolving e.g. `PUSH_CONSTANT_STAGES`).
    pub fn const_env(&self) -> interp::Env {
        self.top.consts.iter().map(|c| (c.name.clone(), c.val.clone())).collect()
    }

    pub fn bind_groups(&self) -> Result<BindGroupsInfo, interp::UnknownName> {
        let mut out = BindGroupsInfo::default();
        let scope = match self.mod_scope("bind_groups") {
            Some(s) => s,
            None => {
                // still read a top-level set_bind_groups if any (there should be none)
                if self.top_fn("set_bind_groups").is_some() {
                    return Err("set_bind_groups without a bind_groups module".to_string().into());
                }
                return Ok(out);
            }
        };
        out.present = true;
        let env: interp::Env = self.const_env();
        // wrappers: struct BindGroup<N>(wgpu::BindGroup)
        let mut indices: Vec<u32> = scope.structs.iter().filter_map(|s| strip_num(&s.name, "BindGroup")).collect();
        indices.sort();
        for n in indices {
            let wrapper = scope.structs.iter().find(|s| s.name == format!("BindGroup{n}")).unwrap();
            let res_name = format!("BindGroupLayout{n}");
            let res = scope
                .structs
                .iter()
                .find(|s| s.name == res_name)
                .ok_or_else(|| interp::UnknownName::Missing(format!("no struct {res_name} for bind group {n}")))?;
            let layout_const_name = format!("LAYOUT_DESCRIPTOR{n}");
            let lc = scope
                .consts
                .iter()
                .find(|c| c.name == layout_const_name)
                .ok_or_else(|| interp::UnknownName::Missing(format!("no const {layout_const_name} for bind group {n}")))?;
            let label = match lc.val.field("label")?.as_option()? {
                Some(l) => Some(l.as_str()?.to_string()),
                None => None,
            };
            let mut layout_entries = vec![];
            for e in lc.val.field("entries")?.as_array()? {
                layout_entries.push(interp::layout_entry(e, &env)?);
            }
            let imp = scope
                .impls
                .iter()
                .find(|i| i.trait_.is_none() && i.self_ty == format!("BindGroup{n}"))
                .ok_or_else(|| format!("no impl BindGroup{n}"))?;
            let consts_used = |f: &FnInfo| -> Vec<String> {
                let mut v = vec![];
                for c in find_method_calls(&f.block, "create_bind_group_layout") {
                    if let Val::Method { args, .. } = c {
                        for a in args {
                            if let Val::Path(p) = a.unref() {
                                v.push(p.join("::"));
                            } else {
                                v.push(format!("{:?}", a));
                            }
                        }
                    }
                }
                v
            };
            let get_fn = imp.fns.iter().find(|f| f.name == "get_bind_group_layout").ok_or("no get_bind_group_layout")?;
            let from_fn = imp.fns.iter().find(|f| f.name == "from_bindings").ok_or("no from_bindings")?;
            let set_fn = imp.fns.iter().find(|f| f.name == "set").ok_or("no set")?;
            let descs = find_struct_literals(&from_fn.block, "BindGroupDescriptor");
            if descs.len() != 1 {
                return Err(format!("{} BindGroupDescriptor literals in from_bindings", descs.len()).into());
            }
            let desc = &descs[0];
            let lets = let_env(&from_fn.block);
            // `layout: &bind_group_layout` where bind_group_layout is the local created from the constant
            let layout_is_local = match desc.field("layout")?.unref() {
                Val::Path(p) if p.len() == 1 => matches!(lets.get(&p[0]), Some(Val::Method { name, .. }) if name == "create_bind_group_layout"),
                Val::Method { name, .. } => name == "create_bind_group_layout",
                _ => false,
            };
            let bindings_param = from_fn
                .params
                .iter()
                .find(|(_, t)| t.contains("BindGroupLayout"))
                .map(|(n, t)| (n.clone(), t.clone()))
                .ok_or("from_bindings has no BindGroupLayout parameter")?;
            let mut uses = vec![];
            for e in desc.field("entries")?.as_array()? {
                let binding = e.field("binding")?.as_u64()?;
                match e.field("resource")?.unref() {
                    Val::Call { path, args } if args.len() == 1 && path.len() >= 2 && path[path.len() - 2] == "BindingResource" => {
                        let field = match args[0].unref() {
                            Val::Field(base, f) if matches!(&**base, Val::Path(p) if p.len()==1 && p[0]==bindings_param.0) => f.clone(),
                            other => return Err(format!("resource argument form {other:?}").into()),
                        };
                        uses.push(GroupEntryUse { binding, resource_kind: path[path.len() - 1].clone(), field });
                    }
                    other => return Err(format!("resource form {other:?}").into()),
                }
            }
            let bg_label = match desc.field("label")?.as_option()? {
                Some(l) => Some(l.as_str()?.to_string()),
                None => None,
            };
            let mut set_calls = vec![];
            for c in find_method_calls(&set_fn.block, "set_bind_group") {
                if let Val::Method { args, .. } = c {
                    if args.len() != 3 {
                        return Err(format!("set_bind_group with {} args", args.len()).into());
                    }
                    set_calls.push((args[0].as_u64()?, args[1].clone(), args[2].clone()));
                }
            }
            out.groups.push(GroupInfo {
                index: n,
                wrapper_derives: wrapper.derives.clone(),
                resource_fields: res.fields.clone(),
                layout_label: label,
                layout_entries,
                get_layout_uses: consts_used(get_fn),
                from_bindings_layout_uses: consts_used(from_fn),
                from_bindings_param_ty: bindings_param.1,
                from_bindings_entries: uses,
                from_bindings_layout_is_local: layout_is_local,
                bind_group_label: bg_label,
                set_calls,
                layout_const_name,
            });
        }
        if let Some(bgs) = scope.structs.iter().find(|s| s.name == "BindGroups") {
            out.bind_groups_fields = bgs.fields.clone();
        }
        if let Some(imp) = scope.impls.iter().find(|i| i.trait_.is_none() && i.self_ty.starts_with("BindGroups<")) {
            if let Some(f) = imp.fns.iter().find(|f| f.name == "set") {
                for c in find_method_calls(&f.block, "set") {
                    if let Val::Method { recv, .. } = c {
                        out.bind_groups_set_calls.push(*recv);
                    }
                }
            }
        }
        for imp in scope.impls.iter().filter(|i| i.trait_.as_deref() == Some("SetBindGroup")) {
            let mut ok = false;
            if let Some(f) = imp.fns.iter().find(|f| f.name == "set_bind_group") {
                let names: Vec<&str> = f.params.iter().skip(1).map(|(n, _)| n.as_str()).collect();
                let calls = find_method_calls(&f.block, "set_bind_group");
                if calls.len() == 1 {
                    if let Val::Method { recv, args, .. } = &calls[0] {
                        let is_self = matches!(&**recv, Val::Path(p) if p.len()==1 && p[0]=="self");
                        let fwd: Vec<String> = args.iter().map(|a| match a { Val::Path(p) if p.len()==1 => p[0].clone(), other => format!("{other:?}") }).collect();
                        ok = is_self && fwd.iter().map(|s| s.as_str()).collect::<Vec<_>>() == names;
                    }
                }
            }
            out.set_bind_group_impls.push((imp.self_ty.clone(), ok));
        }
        if let Some(f) = self.top_fn("set_bind_groups") {
            out.set_bind_groups_params = f.params.clone();
            for c in find_method_calls(&f.block, "set") {
                if let Val::Method { recv, .. } = c {
                    out.set_bind_groups_calls.push(*recv);
                }
            }
        }
        Ok(out)
    }
}

// ---------------------------------------------------------------------------------------------
// pipeline layout / push constants / source

#[derive(Debug, Clone)]
pub struct PipelineLayoutInfo {
    /// group numbers in the order listed, read from `bind_groups::BindGroup<N>::get_bind_group_layout(device)`
    pub group_order: Vec<u32>,
    /// (stages expr resolved, stages as written, start, end)
    pub push_ranges: Vec<(wgpu_types::ShaderStages, Val, u64, u64)>,
    pub label_is_none: bool,
}

impl Module {
    pub fn pipeline_layout(&self) -> Result<PipelineLayoutInfo, String> {
        let f = self.top_fn("create_pipeline_layout").ok_or("no create_pipeline_layout")?;
        let descs = find_struct_literals(&f.block, "PipelineLayoutDescriptor");
        if descs.len() != 1 {
            return Err(format!("{} PipelineLayoutDescriptor literals", descs.len()));
        }
        let d = &descs[0];
        let mut group_order = vec![];
        for g in d.field("bind_group_layouts")?.as_array()? {
            match g.unref() {
                Val::Call { path, .. } if path.last().map(|s| s == "get_bind_group_layout").unwrap_or(false) && path.len() >= 2 => {
                    let n = strip_num(&path[path.len() - 2], "BindGroup").ok_or_else(|| format!("layout path {}", path.join("::")))?;
                    group_order.push(n);
                }
                other => return Err(format!("bind_group_layouts element form {other:?}")),
            }
        }
        let env = self.const_env();
        let mut push_ranges = vec![];
        for r in d.field("push_constant_ranges")?.as_array()? {
            let stages_v = r.field("stages")?.clone();
            let stages = interp::shader_stages(&stages_v, &env)?;
            match r.field("range")?.unref() {
                Val::Range(Some(a), Some(b), false) => push_ranges.push((stages, stages_v, a.as_u64()?, b.as_u64()?)),
                other => return Err(format!("push constant range form {other:?}")),
            }
        }
        Ok(PipelineLayoutInfo { group_order, push_ranges, label_is_none: d.field("label")?.as_option()?.is_none() })
    }

    pub fn push_constant_stages(&self) -> Result<Option<wgpu_types::ShaderStages>, String> {
        match self.top_const("PUSH_CONSTANT_STAGES") {
            None => Ok(None),
            Some(c) => Ok(Some(interp::shader_stages(&c.val, &self.const_env())?)),
        }
    }
}

// ---------------------------------------------------------------------------------------------
// vertex inputs

#[derive(Debug, Clone, PartialEq)]
pub struct VertexAttr {
    pub format: wgpu_types::VertexFormat,
    pub offset_struct: String,
    pub offset_field: String,
    pub location: u64,
}

#[derive(Debug, Clone)]
pub struct VertexImpl {
    pub struct_name: String,
    pub declared_count: String,
    pub attrs: Vec<VertexAttr>,
    /// struct named in `size_of::<..>()` for the stride
    pub stride_struct: String,
    pub step_mode_forwarded: bool,
    pub attributes_ref: String,
}

impl Module {
    pub fn vertex_impls(&self) -> Result<Vec<VertexImpl>, interp::UnknownName> {
        let mut out = vec![];
        for imp in self.top.impls.iter().filter(|i| i.trait_.is_none()) {
            let c = match imp.consts.iter().find(|c| c.name == "VERTEX_ATTRIBUTES") {
                Some(c) => c,
                None => continue,
            };
            let mut attrs = vec![];
            for a in c.val.as_array()? {
                let format = match a.field("format")?.unref() {
                    Val::Path(p) if p.len() >= 2 && p[p.len() - 2] == "VertexFormat" => interp::vertex_format_by_name(&p[p.len() - 1])
                        .ok_or_else(|| interp::UnknownName::NoSuchVariant(format!("VertexFormat::{}", p[p.len() - 1])))?,
                    other => return Err(format!("vertex format form {other:?}").into()),
                };
                let (os, of) = match a.field("offset")?.unref() {
                    Val::Cast(inner, ty) if ty == "u64" => match &**inner {
                        Val::Macro { name, tokens } if name.ends_with("offset_of") => {
                            let parts: Vec<String> = tokens.split(',').map(normalize_tokens).collect();
                            if parts.len() != 2 {
                                return Err(format!("offset_of! args `{tokens}`").into());
                            }
                            (parts[0].clone(), parts[1].clone())
                        }
                        other => return Err(format!("attribute offset form {other:?}").into()),
                    },
                    // a plain number: readable, but the model cannot tell whether it is the Rust field's offset - the
                    // executed probe compares it with the real `offset_of!`
                    Val::Int(n, _) => (imp.self_ty.clone(), format!("<literal {n}>")),
                    other => return Err(format!("attribute offset form {other:?}").into()),
                };
                attrs.push(VertexAttr { format, offset_struct: os, offset_field: of, location: a.field("shader_location")?.as_u64()? });
            }
            let f = imp.fns.iter().find(|f| f.name == "vertex_buffer_layout").ok_or("no vertex_buffer_layout")?;
            let lits = find_struct_literals(&f.block, "VertexBufferLayout");
            if lits.len() != 1 {
                return Err(format!("{} VertexBufferLayout literals", lits.len()).into());
            }
            let l = &lits[0];
            let stride_struct = match l.field("array_stride")?.unref() {
                Val::Cast(inner, ty) if ty == "u64" => match &**inner {
                    Val::Call { path, args } if args.is_empty() => path
                        .last()
                        .and_then(|s| s.strip_prefix("size_of<"))
                        .and_then(|s| s.strip_suffix('>'))
                        .map(|s| s.to_string())
                        .ok_or_else(|| format!("stride form {}", path.join("::")))?,
                    other => return Err(format!("stride form {other:?}").into()),
                },
                other => return Err(format!("stride form {other:?}").into()),
            };
            let param = f.params.first().map(|(n, _)| n.clone()).unwrap_or_default();
            let step_mode_forwarded = matches!(l.field("step_mode")?.unref(), Val::Path(p) if p.len()==1 && p[0]==param);
            let attributes_ref = match l.field("attributes")?.unref() {
                Val::Path(p) => p.join("::"),
                other => format!("{other:?}"),
            };
            out.push(VertexImpl {
                struct_name: imp.self_ty.clone(),
                declared_count: c.ty.clone(),
                attrs,
                stride_struct,
                step_mode_forwarded,
                attributes_ref,
            });
        }
        Ok(out)
    }
}

// ---------------------------------------------------------------------------------------------
// entry points

#[derive(Debug, Clone)]
pub struct EntryHelper {
    pub fn_name: String,
    pub params: Vec<(String, String)>,
    pub ret: String,
    /// the struct literal returned (`VertexEntry { .. }` / `FragmentEntry { .. }`)
    pub literal: Val,
}

#[derive(Debug, Clone)]
pub struct ComputeInfo {
    pub workgroup_consts: Vec<ConstInfo>,
    /// (fn name, params, descriptor literal, let-bindings of the body)
    pub pipelines: Vec<(String, Vec<(String, String)>, Val, interp::Env, String)>,
}

impl Module {
    /// All top-level `*_entry` functions returning `VertexEntry<..>` or `FragmentEntry<..>`.
    pub fn entry_helpers(&self, kind: &str) -> Result<Vec<EntryHelper>, String> {
        let mut out = vec![];
        for f in &self.top.fns {
            if f.ret.starts_with(&format!("{kind}<")) {
                let lits = find_struct_literals(&f.block, kind);
                if lits.len() != 1 {
                    return Err(format!("{} {kind} literals in {}", lits.len(), f.name));
                }
                out.push(EntryHelper { fn_name: f.name.clone(), params: f.params.clone(), ret: f.ret.clone(), literal: lits[0].clone() });
            }
        }
        Ok(out)
    }

    /// `vertex_state` / `fragment_state`: the `wgpu::VertexState { .. }` literal and the parameter names.
    pub fn state_builder(&self, fn_name: &str, lit: &str) -> Result<Option<(Vec<(String, String)>, Val)>, String> {
        match self.top_fn(fn_name) {
            None => Ok(None),
            Some(f) => {
                let lits = find_struct_literals(&f.block, lit);
                if lits.len() != 1 {
                    return Err(format!("{} {lit} literals in {fn_name}", lits.len()));
                }
                Ok(Some((f.params.clone(), lits[0].clone())))
            }
        }
    }

    pub fn compute(&self) -> Result<Option<ComputeInfo>, String> {
        let scope = match self.mod_scope("compute") {
            Some(s) => s,
            None => return Ok(None),
        };
        let mut pipelines = vec![];
        for f in &scope.fns {
            let lits = find_struct_literals(&f.block, "ComputePipelineDescriptor");
            if lits.len() != 1 {
                return Err(format!("{} ComputePipelineDescriptor literals in {}", lits.len(), f.name));
            }
            pipelines.push((f.name.clone(), f.params.clone(), lits[0].clone(), let_env(&f.block), f.ret.clone()));
        }
        Ok(Some(ComputeInfo { workgroup_consts: scope.consts.clone(), pipelines }))
    }
}
