/* LD_PRELOAD interposer: answers getrandom() (and getentropy()) deterministically from
 * VERIF_HASH_SEED, so that std's HashMap keys (RandomState) become a function of the seed.
 * std calls getrandom through a weak libc symbol precisely so that it can be interposed. */
#define _GNU_SOURCE
#include <stddef.h>
#include <stdint.h>
#include <stdlib.h>
#include <sys/types.h>

static uint64_t state = 0;
static int init = 0;

static uint64_t next(void) {
    if (!init) {
        const char *s = getenv("VERIF_HASH_SEED");
        state = s ? strtoull(s, NULL, 10) : 0;
        state = state * 6364136223846793005ULL + 1442695040888963407ULL;
        init = 1;
    }
    /* splitmix64 */
    uint64_t z = (state += 0x9e3779b97f4a7c15ULL);
    z = (z ^ (z >> 30)) * 0xbf58476d1ce4e5b9ULL;
    z = (z ^ (z >> 27)) * 0x94d049bb133111ebULL;
    return z ^ (z >> 31);
}

ssize_t getrandom(void *buf, size_t len, unsigned int flags) {
    (void)flags;
    unsigned char *p = buf;
    for (size_t i = 0; i < len; i++) {
        if (i % 8 == 0) {
            uint64_t v = next();
            for (size_t j = 0; j < 8 && i + j < len; j++) p[i + j] = (unsigned char)(v >> (8 * j));
        }
    }
    return (ssize_t)len;
}

int getentropy(void *buf, size_t len) {
    getrandom(buf, len, 0);
    return 0;
}
