//! nalgebra stores `SMatrix<T, R, C>` as `ArrayStorage<T, R, C>([[T; R]; C])` (column-major,
//! `#[repr(transparent)]`/`#[repr(C)]`); `SVector<T, N> = SMatrix<T, N, 1>`.
#[repr(transparent)]
#[derive(Debug, Clone, Copy, PartialEq)]
pub struct SMatrix<T, const R: usize, const C: usize>(pub [[T; R]; C]);
pub type SVector<T, const N: usize> = SMatrix<T, N, 1>;

unsafe impl<T: bytemuck::Zeroable, const R: usize, const C: usize> bytemuck::Zeroable for SMatrix<T, R, C> {}
unsafe impl<T: bytemuck::Pod, const R: usize, const C: usize> bytemuck::Pod for SMatrix<T, R, C> {}

impl<T: Default + Copy, const R: usize, const C: usize> Default for SMatrix<T, R, C> {
    fn default() -> Self {
        SMatrix([[T::default(); R]; C])
    }
}
impl<T: serde::Serialize + Copy, const R: usize, const C: usize> serde::Serialize for SMatrix<T, R, C> {
    fn serialize<S: serde::Serializer>(&self, s: S) -> Result<S::Ok, S::Error> {
        let flat: Vec<T> = self.0.iter().flat_map(|c| c.iter().copied()).collect();
        flat.serialize(s)
    }
}
impl<'de, T: serde::Deserialize<'de> + Default + Copy, const R: usize, const C: usize> serde::Deserialize<'de> for SMatrix<T, R, C> {
    fn deserialize<D: serde::Deserializer<'de>>(d: D) -> Result<Self, D::Error> {
        let flat: Vec<T> = Vec::deserialize(d)?;
        let mut m = Self::default();
        for (i, v) in flat.into_iter().enumerate().take(R * C) {
            m.0[i / R][i % R] = v;
        }
        Ok(m)
    }
}
