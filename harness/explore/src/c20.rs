//! C20 — generation cost stays polynomial in shader size and call depth.
//! Deterministic step counts from the `walk:*` hooks on (1) every call-graph tile composed in
//! series, (2) amplified families (chain / diamond / fan-in / fan-out) with call sites in every
//! placement context, (3) type families; plus black-box wall-clock runs in child processes.
use crate::common::*;
use std::collections::BTreeSet;
use crate::progs::*;
use serde_json::json;
use std::cell::Cell;

thread_local! {
    static FN_VISITS: Cell<u64> = const { Cell::new(0) };
    static TY_VISITS: Cell<u64> = const { Cell::new(0) };
    static FN_BUDGET: Cell<u64> = const { Cell::new(u64::MAX) };
    static TY_BUDGET: Cell<u64> = const { Cell::new(u64::MAX) };
    static BLK_VISITS: Cell<u64> = const { Cell::new(0) };
    static BLK_BUDGET: Cell<u64> = const { Cell::new(u64::MAX) };
}

fn hook(label: &'static str) {
    match label {
        "walk:function" => {
            let n = FN_VISITS.with(|c| {
                c.set(c.get() + 1);
                c.get()
            });
            if n > FN_BUDGET.with(|b| b.get()) {
                panic!("VERIF step budget exceeded (walk:function)");
            }
        }
        "walk:type" => {
            let n = TY_VISITS.with(|c| {
                c.set(c.get() + 1);
                c.get()
            });
            if n > TY_BUDGET.with(|b| b.get()) {
                panic!("VERIF step budget exceeded (walk:type)");
            }
        }
        "walk:block" => {
            let n = BLK_VISITS.with(|c| {
                c.set(c.get() + 1);
                c.get()
            });
            if n > BLK_BUDGET.with(|b| b.get()) {
                panic!("VERIF step budget exceeded (walk:block)");
            }
        }
        _ => {}
    }
}

/// Number of statement blocks in the module's IR (function bodies, both arms of every `if`, switch case bodies,
/// loop bodies and continuing blocks, nested blocks) - the size measure for the statement walk.
pub fn count_blocks(module: &naga::Module) -> u64 {
    fn block(b: &naga::Block) -> u64 {
        let mut n = 1;
        for s in b.iter() {
            n += match s {
                naga::Statement::Block(b) => block(b),
                naga::Statement::If { accept, reject, .. } => block(accept) + block(reject),
                naga::Statement::Switch { cases, .. } => cases.iter().map(|c| block(&c.body)).sum(),
                naga::Statement::Loop { body, continuing, .. } => block(body) + block(continuing),
                _ => 0,
            };
        }
        n
    }
    module.functions.iter().map(|(_, f)| block(&f.body)).sum::<u64>() + module.entry_points.iter().map(|e| block(&e.function.body)).sum::<u64>()
}

/// CPU time consumed by the calling thread (seconds): unlike wall-clock time it does not grow when the machine is
/// busy with other work, so a limit on it is a statement about the code, not about the load.
pub fn thread_cpu_seconds() -> f64 {
    let mut ts = libc::timespec { tv_sec: 0, tv_nsec: 0 };
    unsafe {
        libc::clock_gettime(libc::CLOCK_THREAD_CPUTIME_ID, &mut ts);
    }
    ts.tv_sec as f64 + ts.tv_nsec as f64 * 1e-9
}

pub struct Shape {
    pub key: String,
    pub src: String,
    /// entries, functions (incl. entries), call sites
    pub e: u64,
    pub f: u64,
    pub c: u64,
    /// global variables, types (structs + leaf), member/array edges
    pub g: u64,
    pub t: u64,
    pub m: u64,
    pub helpers_reachable: bool,
}

impl Shape {
    pub fn fn_bound(&self) -> u64 {
        8 * self.e * (self.f + self.c + 1)
    }
    pub fn ty_bound(&self) -> u64 {
        8 * self.g.max(1) * (self.t + self.m + 1)
    }
}

// ---------------------------------------------------------------------------------------------
// (1) tiles

/// Per forward edge: list of call forms (0, 1 or 2 calls).
fn edge_options() -> Vec<Vec<CallForm>> {
    vec![
        vec![],
        vec![CallForm::Stmt],
        vec![CallForm::Let],
        vec![CallForm::Stmt, CallForm::Stmt],
        vec![CallForm::Nested, CallForm::Arg],
        vec![CallForm::Stmt, CallForm::Let],
    ]
}

/// A tile on k helpers with the given per-edge options, repeated `reps` times in series: every sink of
/// copy i calls the source of copy i+1 once (statement or value alternating).
pub fn tile_program(k: usize, choice: &[usize], reps: usize, key: String) -> Shape {
    let opts = edge_options();
    // edges of one tile
    let mut edges: Vec<Vec<(usize, CallForm)>> = vec![vec![]; k];
    let mut idx = 0;
    for i in 0..k {
        for j in (i + 1)..k {
            for f in &opts[choice[idx]] {
                edges[i].push((j, *f));
            }
            idx += 1;
        }
    }
    // does any node return a value? value helpers are needed when called in value form
    let mut called_as_value = vec![false; k];
    for es in &edges {
        for (j, f) in es {
            if f.is_value() {
                called_as_value[*j] = true;
            }
        }
    }
    // a node called both ways must be a value helper; statement call of a value fn is not allowed in WGSL
    // unless the result is used: use `_ = h();` phony assignment for statement form on value helpers.
    let mut src = String::from("@group(0) @binding(0) var<uniform> leaf: vec4<f32>;\n");
    let mut calls = 0u64;
    let mut uid = 0usize;
    let name = |r: usize, i: usize| format!("t{r}_h{i}");
    for r in (0..reps).rev() {
        for i in (0..k).rev() {
            let mut body = String::new();
            let is_sink = edges[i].is_empty();
            for (j, f) in &edges[i] {
                uid += 1;
                let callee = name(r, *j);
                let st = if *f == CallForm::Stmt && called_as_value[*j] { format!("_ = {callee}();") } else { f.stmt(&callee, uid).full };
                body.push_str(&indent(&st));
                calls += 1;
            }
            if is_sink {
                if r + 1 < reps {
                    uid += 1;
                    // source of the next copy is always a value helper (see below) called in alternating forms
                    let callee = name(r + 1, 0);
                    let st = if r % 2 == 0 { format!("_ = {callee}();") } else { CallForm::Nested.stmt(&callee, uid).full };
                    body.push_str(&indent(&st));
                    calls += 1;
                } else {
                    body.push_str("    acc += leaf.x;\n");
                }
            }
            let value = called_as_value[i] || i == 0;
            src.push_str(&helper(&name(r, i), value, &body));
        }
    }
    src.push_str(&Stage::C.entry("cs_main", &indent(&format!("acc += {}();", name(0, 0)))));
    calls += 1;
    Shape { key, src, e: 1, f: (reps * k + 1) as u64, c: calls, g: 1, t: 2, m: 0, helpers_reachable: true }
}

// ---------------------------------------------------------------------------------------------
// (2) families

pub fn family(kind: &str, depth: usize, form: CallForm, ctx: Ctx, entries: &[Stage]) -> Option<Shape> {
    let mut src = String::from("@group(0) @binding(0) var<uniform> leaf: vec4<f32>;\n");
    let value = form.is_value();
    let mut calls = 0u64;
    let mut nfn = 0u64;
    let call = |callee: &str, uid: usize| -> Option<String> { ctx.wrap(&form.stmt(callee, uid)).map(|s| indent(&s.full)) };
    match kind {
        "chain" => {
            for i in (0..depth).rev() {
                let body = if i + 1 < depth { calls += 1; call(&format!("h{}", i + 1), i)? } else { "    acc += leaf.x;\n".to_string() };
                src.push_str(&helper(&format!("h{i}"), value, &body));
                nfn += 1;
            }
        }
        "diamond" => {
            // level i has two nodes a_i, b_i; each calls both nodes of level i+1
            for i in (0..depth).rev() {
                for side in ["a", "b"] {
                    let body = if i + 1 < depth {
                        calls += 2;
                        format!("{}{}", call(&format!("a{}", i + 1), i * 4)?, call(&format!("b{}", i + 1), i * 4 + 1)?)
                    } else {
                        "    acc += leaf.x;\n".to_string()
                    };
                    src.push_str(&helper(&format!("{side}{i}"), value, &body));
                    nfn += 1;
                }
            }
            // root h0 calls a0 and b0
            calls += 2;
            src.push_str(&helper("h0", value, &format!("{}{}", call("a0", 9000)?, call("b0", 9001)?)));
            nfn += 1;
        }
        "fanin" => {
            // chain of `depth` helpers; each calls the next one 3 times
            for i in (0..depth).rev() {
                let body = if i + 1 < depth {
                    calls += 3;
                    let n = format!("h{}", i + 1);
                    format!("{}{}{}", call(&n, i * 3)?, call(&n, i * 3 + 1)?, call(&n, i * 3 + 2)?)
                } else {
                    "    acc += leaf.x;\n".to_string()
                };
                src.push_str(&helper(&format!("h{i}"), value, &body));
                nfn += 1;
            }
        }
        "fanout" => {
            // h0 calls `depth` leaves, each of which calls one shared helper
            src.push_str(&helper("shr", value, "    acc += leaf.x;\n"));
            nfn += 1;
            let mut body = String::new();
            for i in 0..depth {
                calls += 2;
                src.push_str(&helper(&format!("l{i}"), value, &call("shr", i)?));
                nfn += 1;
                body.push_str(&call(&format!("l{i}"), 10_000 + i)?);
            }
            src.push_str(&helper("h0", value, &body));
            nfn += 1;
        }
        _ => unreachable!(),
    }
    for (i, st) in entries.iter().enumerate() {
        calls += 1;
        let n = format!("{}_{i}", match st { Stage::V => "vs", Stage::F => "fs", Stage::C => "cs" });
        let c = if value { "    acc += h0();\n".to_string() } else { "    h0();\n".to_string() };
        src.push_str(&st.entry(&n, &c));
        nfn += 1;
    }
    Some(Shape {
        key: format!("family|{kind}|depth={depth}|form={form:?}|ctx={ctx:?}|entries={}", entries.len()),
        src,
        e: entries.len() as u64,
        f: nfn,
        c: calls,
        g: 1,
        t: 2,
        m: 0,
        helpers_reachable: true,
    })
}

// ---------------------------------------------------------------------------------------------
// (3) type families

pub fn type_family(kind: &str, depth: usize, vars: usize) -> Shape {
    let mut src = String::new();
    let mut t = 2u64; // f32, vec4
    let mut m = 0u64;
    match kind {
        "nested2" => {
            // S_i { a: S_{i+1}, b: S_{i+1} }
            src.push_str(&format!("struct S{depth} {{ x: vec4<f32> }};\n"));
            t += 1;
            m += 1;
            for i in (0..depth).rev() {
                src.push_str(&format!("struct S{i} {{ a: S{}, b: S{} }};\n", i + 1, i + 1));
                t += 1;
                m += 2;
            }
        }
        "nested3-array" => {
            src.push_str(&format!("struct S{depth} {{ x: vec4<f32> }};\n"));
            t += 1;
            m += 1;
            for i in (0..depth).rev() {
                src.push_str(&format!("struct S{i} {{ a: S{}, b: array<S{}, 2>, c: S{} }};\n", i + 1, i + 1, i + 1));
                t += 2;
                m += 4;
            }
        }
        "wide" => {
            // one struct with `depth` members of the same leaf struct
            src.push_str("struct Leaf { x: vec4<f32> };\n");
            let members: Vec<String> = (0..depth).map(|i| format!("m{i}: Leaf")).collect();
            src.push_str(&format!("struct S0 {{ {} }};\n", members.join(", ")));
            t += 2;
            m += depth as u64 + 1;
        }
        _ => unreachable!(),
    }
    for v in 0..vars {
        src.push_str(&format!("@group(0) @binding({v}) var<storage, read> g{v}: S0;\n"));
    }
    src.push_str("@compute @workgroup_size(1) fn cs_main() {\n}\n");
    Shape { key: format!("types|{kind}|depth={depth}|vars={vars}"), src, e: 1, f: 1, c: 0, g: vars as u64, t, m, helpers_reachable: false }
}

// ---------------------------------------------------------------------------------------------

/// Size families: hundreds of bindings / members / structs / entry points / consts (linear-size inputs that
/// must stay well under a second whatever the per-item work is).
pub fn scale_family(kind: &str, n: usize) -> Shape {
    if let Some(k) = kind.strip_prefix("stmt-") {
        let mut s = stmt_family(k, n, &[Stage::F, Stage::C]);
        s.key = format!("scale|{kind}|n={n}");
        return s;
    }
    let mut src = String::new();
    let (mut e, mut f, mut c, mut g, mut t, mut m) = (1u64, 1u64, 0u64, 0u64, 2u64, 0u64);
    match kind {
        "bindings" => {
            for i in 0..n {
                src.push_str(&format!("@group({}) @binding({}) var<uniform> ub{i}: vec4<f32>;\n", i % 4, i / 4));
            }
            g = n as u64;
            let uses: Vec<String> = (0..n).map(|i| format!("    acc += ub{i}.x;\n")).collect();
            src.push_str(&format!("@compute @workgroup_size(1) fn cs_main() {{\n    var acc: f32 = 0.0;\n{}}}\n", uses.concat()));
        }
        "members" => {
            let ms: Vec<String> = (0..n).map(|i| format!("m{i}: vec4<f32>")).collect();
            src.push_str(&format!("struct Big {{ {} }};\n@group(0) @binding(0) var<storage, read> big: Big;\n@compute @workgroup_size(1) fn cs_main() {{ let x = big.m0; }}\n", ms.join(", ")));
            g = 1;
            t = 3;
            m = n as u64;
        }
        "structs" => {
            for i in 0..n {
                src.push_str(&format!("struct S{i} {{ a: vec4<f32>, b: f32 }};\n@group({}) @binding({}) var<uniform> v{i}: S{i};\n", i % 4, i / 4));
            }
            src.push_str("@compute @workgroup_size(1) fn cs_main() { let x = v0.a; }\n");
            g = n as u64;
            t = n as u64 + 3;
            m = 2 * n as u64;
        }
        "vertex-structs" => {
            let mut params = vec![];
            for i in 0..n.min(12) {
                src.push_str(&format!("struct VI{i} {{ @location({}) a: vec4<f32>, @location({}) b: vec2<f32> }};\n", 2 * i, 2 * i + 1));
                params.push(format!("p{i}: VI{i}"));
            }
            for k in 0..n {
                src.push_str(&format!("@vertex fn vs_{k}({}) -> @builtin(position) vec4<f32> {{ return p0.a; }}\n", params.join(", ")));
            }
            e = n as u64;
            f = n as u64;
        }
        "entries" => {
            src.push_str("@group(0) @binding(0) var<uniform> leaf: vec4<f32>;\nfn shared_a() -> f32 { return leaf.x; }\nfn shared_b() -> f32 { return shared_a() + shared_a(); }\n");
            for k in 0..n {
                match k % 3 {
                    0 => src.push_str(&format!("@compute @workgroup_size(1) fn cs_{k}() {{ let x = shared_b(); }}\n")),
                    1 => src.push_str(&format!("@vertex fn vs_{k}() -> @builtin(position) vec4<f32> {{ return vec4<f32>(shared_b()); }}\n")),
                    _ => src.push_str(&format!("@fragment fn fs_{k}() -> @location(0) vec4<f32> {{ return vec4<f32>(shared_b()); }}\n")),
                }
            }
            e = n as u64;
            f = n as u64 + 2;
            c = 2 * n as u64 + 2;
            g = 1;
        }
        "consts-overrides" => {
            for i in 0..n {
                src.push_str(&format!("const K{i}: f32 = {i}.5;\noverride o{i}: f32 = {i}.0;\n"));
            }
            src.push_str("@vertex fn vs_main() -> @builtin(position) vec4<f32> { return vec4<f32>(K0 + o0); }\n@fragment fn fs_main() -> @location(0) vec4<f32> { return vec4<f32>(o1); }\n");
            e = 2;
            f = 2;
        }
        "fragment-output-members" => {
            // one fragment entry returning a struct with n located members in ascending order
            let ms: Vec<String> = (0..n).map(|i| format!("@location({i}) c{i}: vec4<f32>")).collect();
            src.push_str(&format!("struct FOut {{ {} }};\n@fragment fn fs_main() -> FOut {{ var o: FOut; return o; }}\n", ms.join(", ")));
        }
        "fragment-output-members-desc" => {
            let ms: Vec<String> = (0..n).rev().map(|i| format!("@location({i}) c{i}: vec4<f32>")).collect();
            src.push_str(&format!("struct FOut {{ {} }};\n@fragment fn fs_main() -> FOut {{ var o: FOut; return o; }}\n", ms.join(", ")));
        }
        "vertex-input-members" => {
            let ms: Vec<String> = (0..n).map(|i| format!("@location({i}) a{i}: vec4<f32>")).collect();
            src.push_str(&format!("struct VIn {{ {} }};\n@vertex fn vs_main(v: VIn) -> @builtin(position) vec4<f32> {{ return v.a0; }}\n", ms.join(", ")));
        }
        "overrides" => {
            for i in 0..n {
                src.push_str(&format!("@id({i}) override ov{i}: f32 = {i}.0;\n"));
            }
            src.push_str("@vertex fn vs_main() -> @builtin(position) vec4<f32> { return vec4<f32>(ov0); }\n@fragment fn fs_main() -> @location(0) vec4<f32> { return vec4<f32>(ov1); }\n");
            e = 2;
            f = 2;
        }
        "groups-bindings-mixed" => {
            // 8 groups, bindings declared in descending index order, mixed kinds
            for i in 0..n {
                let (g, b) = (i % 8, n - i);
                match i % 3 {
                    0 => src.push_str(&format!("@group({g}) @binding({b}) var<uniform> r{i}: vec4<f32>;\n")),
                    1 => src.push_str(&format!("@group({g}) @binding({b}) var r{i}: texture_2d<f32>;\n")),
                    _ => src.push_str(&format!("@group({g}) @binding({b}) var r{i}: sampler;\n")),
                }
            }
            src.push_str("@compute @workgroup_size(1) fn cs_main() { }\n");
            g = n as u64;
        }
        "array-nesting" => {
            // array<array<...<vec4<f32>, 2>, 2>...> nested n deep inside one struct member
            let mut ty = "vec4<f32>".to_string();
            for _ in 0..n {
                ty = format!("array<{ty}, 2>");
            }
            src.push_str(&format!("struct Deep {{ a: {ty}, b: {ty} }};\n@group(0) @binding(0) var<storage, read> deep: Deep;\n@compute @workgroup_size(1) fn cs_main() {{ }}\n"));
            g = 1;
            t = n as u64 + 3;
            m = 2 * n as u64 + 2;
        }
        "ladder-other-pc" | "ladder-other-binding" | "ladder-other-both" => {
            // a ladder n levels deep (two helpers per level, each calling both helpers of the next level, void and value
            // forms alternating) under the vertex entry; a push constant / a binding that only the fragment entry uses:
            // "does this entry reach that variable" has the answer no along 2^n call paths
            if kind != "ladder-other-binding" {
                src.push_str("var<push_constant> only_fs_pc: vec4<f32>;\n");
            }
            if kind != "ladder-other-pc" {
                src.push_str("@group(0) @binding(0) var<uniform> only_fs_u: vec4<f32>;\n");
            }
            src.push_str(&format!("@group({}) @binding(0) var<uniform> bottom: vec4<f32>;\n", if kind == "ladder-other-pc" { 0 } else { 1 }));
            src.push_str(&format!("fn fa_{n}() -> f32 {{ return bottom.x; }}\nfn fb_{n}() {{ }}\n"));
            for i in (0..n).rev() {
                src.push_str(&format!("fn fa_{i}() -> f32 {{ fb_{}(); return fa_{}() + 1.0; }}\nfn fb_{i}() {{ fb_{}(); let v = fa_{}(); }}\n", i + 1, i + 1, i + 1, i + 1));
            }
            src.push_str("@vertex fn vs_main() -> @builtin(position) vec4<f32> { fb_0(); return vec4<f32>(fa_0()); }\n");
            let use_pc = if kind != "ladder-other-binding" { "only_fs_pc" } else { "vec4<f32>(0.0)" };
            let use_u = if kind != "ladder-other-pc" { "only_fs_u" } else { "vec4<f32>(0.0)" };
            src.push_str(&format!("@fragment fn fs_main() -> @location(0) vec4<f32> {{ return {use_pc} + {use_u}; }}\n@compute @workgroup_size(1) fn cs_main() {{ }}\n"));
            e = 3;
            f = 2 * n as u64 + 5;
            c = 4 * n as u64 + 2;
            g = 3;
            t = 2;
            m = 0;
        }
        "ident-shapes" => {
            // identifier shapes in every position the generator renames or re-cases (struct, member, variable, entry,
            // override, constant names): n selects the shape; cost must not depend on how a name is spelled
            let long = "x".repeat(4000);
            let caps = "ABCDEFGHIJKLMNOPQRSTUVWXYZ".repeat(40);
            let unders = format!("a{}b", "_".repeat(60));
            let mixed = "aB_".repeat(400);
            let shape: &str = match n {
                0 => "Double__Underscore",
                1 => "trailing_underscore__",
                2 => "Triple___Mid___Runs",
                3 => &unders,
                4 => &long,
                5 => &caps,
                6 => "x9_9__9___9",
                7 => "\u{c9}__\u{df}_\u{3a3}\u{3a3}__\u{3c3}",
                8 => &mixed,
                _ => "A_B__C___D____E",
            };
            src.push_str(&format!("struct {shape}_V {{ @location(0) {shape}_m: vec4<f32>, @location(1) second__m: vec2<f32> }};\nstruct {shape}_H {{ {shape}_f: vec4<f32>, other__f: f32 }};\n@group(0) @binding(0) var<uniform> {shape}_u: {shape}_H;\noverride {shape}_o: f32 = 1.0;\nconst {shape}_c: u32 = 3u;\nvar<push_constant> {shape}_p: vec4<f32>;\n"));
            src.push_str(&format!("@vertex fn {shape}_vs(v: {shape}_V) -> @builtin(position) vec4<f32> {{ return v.{shape}_m * {shape}_u.{shape}_f * {shape}_o + {shape}_p; }}\n@fragment fn {shape}_fs() -> @location(0) vec4<f32> {{ return vec4<f32>(f32({shape}_c)); }}\n@compute @workgroup_size(1) fn {shape}_cs() {{ }}\n"));
            e = 3;
            f = 3;
            g = 2;
            t = 4;
            m = 4;
        }
        "huge-group-index" | "huge-binding-index" => {
            // numeric attribute values: cost must not depend on the magnitude of an index (n = the index value; the
            // group variant is refused as non-consecutive, the binding variant is accepted)
            let idx = if n as u64 > i32::MAX as u64 { format!("{n}u") } else { n.to_string() };
            if kind == "huge-group-index" {
                src.push_str(&format!("@group(0) @binding(0) var<uniform> a: vec4<f32>;\n@group({idx}) @binding(0) var<uniform> b: vec4<f32>;\n"));
            } else {
                src.push_str(&format!("@group(0) @binding(0) var<uniform> a: vec4<f32>;\n@group(0) @binding({idx}) var<uniform> b: vec4<f32>;\n@group(1) @binding({idx}) var<uniform> c: vec4<f32>;\n"));
            }
            src.push_str("@compute @workgroup_size(1) fn cs_main() { let x = a.x + b.x; }\n");
            g = 2;
        }
        "override-diamond" | "const-diamond" => {
            // n levels of `override k_i = k_{i-1} * k_{i-1}` (each level names the previous one twice); the last one sizes
            // a workgroup, a workgroup array and is read in a function; the const variant does the same with `const`
            let kw = if kind == "override-diamond" { "override" } else { "const" };
            src.push_str(&format!("{kw} k_0: u32 = 1u;\n"));
            for i in 1..=n {
                src.push_str(&format!("{kw} k_{i}: u32 = k_{} * k_{};\n", i - 1, i - 1));
            }
            src.push_str(&format!("var<workgroup> tile: array<f32, k_{n}>;\n@compute @workgroup_size(k_{n}, 1, k_{}) fn cs_main() {{ tile[0] = f32(k_{n}); }}\n@fragment fn fs_main() -> @location(0) vec4<f32> {{ return vec4<f32>(f32(k_{})); }}\n", n / 2, n / 3));
            e = 2;
            g = 1;
            t = 3;
            m = 1;
        }
        "array-nesting-1" | "array-nesting-1-vertex-and-override" => {
            // one-element arrays nested n deep (the size stays 16 bytes however deep): as a struct member of a storage
            // variable, as the type of a private variable and of a function-local value
            let mut ty = "vec4<f32>".to_string();
            for _ in 0..n {
                ty = format!("array<{ty}, 1>");
            }
            src.push_str(&format!("struct Deep1 {{ a: {ty}, tail: vec4<f32> }};\n@group(0) @binding(0) var<storage, read> deep1: Deep1;\nvar<private> deep_p: {ty};\n"));
            if kind.ends_with("override") {
                src.push_str("struct VIn { @location(0) p: vec4<f32> };\noverride scale: f32 = 1.0;\n@vertex fn vs_main(v: VIn) -> @builtin(position) vec4<f32> { return v.p * scale + deep1.tail; }\n");
                e = 2;
            }
            src.push_str("@compute @workgroup_size(1) fn cs_main() { }\n");
            g = 2;
            t = n as u64 + 4;
            m = 2 * n as u64 + 4;
        }
        _ => unreachable!(),
    }
    Shape { key: format!("scale|{kind}|n={n}"), src, e, f, c, g, t, m, helpers_reachable: false }
}

/// Members found violating in this run; past 64 the remaining members are not run (each violating member may cost
/// seconds and gigabytes - the verdict is clear, and the run must end).
pub static VIOLATING_MEMBERS: std::sync::atomic::AtomicU64 = std::sync::atomic::AtomicU64::new(0);

pub fn check(s: &Shape, rep: &mut Report) {
    if VIOLATING_MEMBERS.load(std::sync::atomic::Ordering::Relaxed) >= 64 {
        rep.count("members not run: 64 members already violated in this run");
        return;
    }
    let before = rep.violations.len();
    check_inner(s, rep);
    if rep.violations.len() > before {
        VIOLATING_MEMBERS.fetch_add(1, std::sync::atomic::Ordering::Relaxed);
    }
}

fn check_inner(s: &Shape, rep: &mut Report) {
    rep.states += 1;
    rep.transitions += s.f + s.c + s.t + s.m;
    let t_ref = thread_cpu_seconds();
    let m_ref = crate::memcount::start();
    let naga_result = naga_check(&s.src);
    // same-size reference measured in the same thread: naga's own parse + validation (thread CPU time, peak bytes)
    let naga_s = thread_cpu_seconds() - t_ref;
    let naga_peak = crate::memcount::peak_above(m_ref);
    let blocks = match &naga_result {
        Ok((m, _)) => count_blocks(m),
        Err(e) => {
            rep.filtered(&format!("naga rejects: {}", e.replace('\n', " ").chars().take(70).collect::<String>()));
            if std::env::var("VERIF_DEBUG").is_ok() {
                eprintln!("FILTERED {}: {e}\n{}", s.key, s.src);
            }
            return;
        }
    };
    // every function is walked at most once per entry point, so its blocks are
    let blk_bound = 8 * s.e.max(1) * (blocks + 1);
    BLK_VISITS.with(|c| c.set(0));
    BLK_BUDGET.with(|b| b.set(blk_bound));
    FN_VISITS.with(|c| c.set(0));
    TY_VISITS.with(|c| c.set(0));
    FN_BUDGET.with(|b| b.set(s.fn_bound()));
    TY_BUDGET.with(|b| b.set(s.ty_bound()));
    rep.evaluations += 1;
    if std::env::var("VERIF_DEBUG").is_ok() {
        eprintln!("C20 start {}", s.key);
    }
    let t0 = thread_cpu_seconds();
    let m0 = crate::memcount::start();
    let out = generate(&s.src, &Config::default());
    let wall = thread_cpu_seconds() - t0;
    let peak = crate::memcount::peak_above(m0);
    let peak_limit = (32 * naga_peak).max(16 << 20);
    if std::env::var("VERIF_DEBUG").is_ok() {
        eprintln!("C20 done {} {wall:.2}s {} KiB", s.key, peak >> 10);
    }
    FN_BUDGET.with(|b| b.set(u64::MAX));
    TY_BUDGET.with(|b| b.set(u64::MAX));
    BLK_BUDGET.with(|b| b.set(u64::MAX));
    let bv = BLK_VISITS.with(|c| c.get());
    let fv = FN_VISITS.with(|c| c.get());
    let tv = TY_VISITS.with(|c| c.get());
    rep.nontrivial.insert(hash64(&s.src));
    let detail = json!({"wgsl": s.src, "config": Config::default().key(), "function_visits": fv, "function_bound": s.fn_bound(), "type_visits": tv, "type_bound": s.ty_bound(), "block_visits": bv, "block_bound": blk_bound, "blocks": blocks, "wall_s": wall, "peak_bytes": peak, "peak_limit_bytes": peak_limit, "naga_peak_bytes": naga_peak,
        "sizes": {"entries": s.e, "functions": s.f, "call_sites": s.c, "globals": s.g, "types": s.t, "type_edges": s.m}});
    match &out {
        Outcome::Panic(m) if m.contains("VERIF step budget exceeded (walk:function)") => {
            rep.violation(s.key.clone(), format!("call-graph walk exceeded {} steps (8*E*(F+C+1)) for E={} F={} C={}", s.fn_bound(), s.e, s.f, s.c), detail);
            rep.outcomes.insert("fn-budget".into());
        }
        Outcome::Panic(m) if m.contains("VERIF step budget exceeded (walk:block)") => {
            rep.violation(s.key.clone(), format!("statement walk exceeded {blk_bound} block visits (8*E*(B+1)) for E={} B={blocks}", s.e), detail);
            rep.outcomes.insert("blk-budget".into());
        }
        Outcome::Panic(m) if m.contains("VERIF step budget exceeded (walk:type)") => {
            rep.violation(s.key.clone(), format!("type closure exceeded {} steps (8*G*(T+M+1)) for G={} T={} M={}", s.ty_bound(), s.g, s.t, s.m), detail);
            rep.outcomes.insert("ty-budget".into());
        }
        Outcome::Ok(_) => {
            rep.outcomes.insert(format!("ok fn<= {} ty<= {}", fv.next_power_of_two(), tv.next_power_of_two()));
            let limit = (50.0 * naga_s).max(2.0);
            if wall > limit {
                rep.violation(s.key.clone(), format!("generation took {wall:.1}s of CPU time in-process (limit {limit:.1}s = max(2 s, 50 x naga's own parse+validate of the same source)) within step budgets"), detail.clone());
            }
            if peak > peak_limit {
                rep.violation(s.key.clone(), format!("generation allocated {} MiB at its high-water mark (limit {} MiB = max(16 MiB, 32 x naga's own peak for parse+validate of the same source)) within step budgets", peak >> 20, peak_limit >> 20), detail.clone());
            }
            rep.count(&format!("peak allocation <= {} KiB", (peak >> 10).max(1).next_power_of_two()));
            if s.key.starts_with("scale|") {
                rep.count(&format!("scale family wall ms <= {}", ((wall * 1000.0) as u64).next_power_of_two()));
            }
            if s.helpers_reachable && fv == 0 {
                rep.filtered("instrumentation lost: zero walk:function visits (wall clock decides alone)");
            }
        }
        other => {
            rep.filtered(&format!("generator not Ok: {}", other.class()));
        }
    }
}

pub const STMT_KINDS: [&str; 9] = ["else-if-chain", "nested-if", "nested-else", "nested-loop", "nested-for", "switch-cases", "nested-switch", "nested-block", "mixed-nest"];

/// One helper `work()` whose body has the given statement shape of size n, each innermost / each branch calling a
/// shared leaf helper that reads a uniform; called from one entry point per stage.
pub fn stmt_family(kind: &str, n: usize, stages: &[Stage]) -> Shape {
    let mut body = String::new();
    let call = "acc = acc + leaf_fn();";
    match kind {
        "else-if-chain" => {
            body.push_str(&format!("if sel == 0u {{ {call} }}"));
            for i in 1..n {
                body.push_str(&format!(" else if sel == {i}u {{ {call} }}"));
            }
            body.push_str(&format!(" else {{ {call} }}\n"));
        }
        "nested-if" => {
            for i in 0..n {
                body.push_str(&format!("if sel > {i}u {{ {call} "));
            }
            body.push_str(&"}".repeat(n));
            body.push('\n');
        }
        "nested-else" => {
            for i in 0..n {
                body.push_str(&format!("if sel == {i}u {{ {call} }} else {{ "));
            }
            body.push_str(call);
            body.push_str(&" }".repeat(n));
            body.push('\n');
        }
        "nested-loop" => {
            for _ in 0..n {
                body.push_str(&format!("loop {{ {call} if acc > 1.0 {{ break; }} "));
            }
            body.push_str(&"continuing { acc = acc + 1.0; } }".repeat(n));
            body.push('\n');
        }
        "nested-for" => {
            for i in 0..n {
                body.push_str(&format!("for (var k{i} = 0u; k{i} < sel; k{i}++) {{ {call} "));
            }
            body.push_str(&"}".repeat(n));
            body.push('\n');
        }
        "switch-cases" => {
            body.push_str("switch sel {\n");
            for i in 0..n {
                body.push_str(&format!("  case {i}u: {{ {call} }}\n"));
            }
            body.push_str(&format!("  default: {{ {call} }}\n}}\n"));
        }
        "nested-switch" => {
            // two braces per level: half the depth keeps it under naga's brace nesting limit
            let n = n.div_ceil(2);
            for i in 0..n {
                body.push_str(&format!("switch sel {{ case {i}u: {{ {call} }} default: {{ "));
            }
            body.push_str(call);
            body.push_str(&" } }".repeat(n));
            body.push('\n');
        }
        "nested-block" => {
            for _ in 0..n {
                body.push_str(&format!("{{ {call} "));
            }
            body.push_str(&"}".repeat(n));
            body.push('\n');
        }
        _ => {
            // if > loop > switch > block, repeated
            let per = 4;
            let reps = n.div_ceil(per);
            for i in 0..reps {
                body.push_str(&format!("if sel > {i}u {{ loop {{ if acc > 9.0 {{ break; }} switch sel {{ case {i}u: {{ {{ {call} "));
            }
            for _ in 0..reps {
                body.push_str("} } default: { } } continuing { acc = acc + 1.0; } } } else { acc = acc + leaf_fn(); } ");
            }
            body.push('\n');
        }
    }
    let mut src = String::from("@group(0) @binding(0) var<uniform> leaf: vec4<f32>;\nfn leaf_fn() -> f32 { return leaf.x; }\n");
    src.push_str(&format!("fn work(sel: u32) -> f32 {{\n    var acc = 0.0;\n    {body}    return acc;\n}}\n"));
    for st in stages {
        match st {
            Stage::V => src.push_str("@vertex fn vs_main(@builtin(vertex_index) i: u32) -> @builtin(position) vec4<f32> { return vec4<f32>(work(i)); }\n"),
            Stage::F => src.push_str("@fragment fn fs_main(@builtin(sample_index) i: u32) -> @location(0) vec4<f32> { return vec4<f32>(work(i)); }\n"),
            Stage::C => src.push_str("@compute @workgroup_size(1) fn cs_main(@builtin(local_invocation_index) i: u32) { _ = work(i); }\n"),
        }
    }
    let e = stages.len() as u64;
    Shape { key: format!("stmt|{kind}|n={n}|entries={e}"), src, e, f: e + 2, c: e + 2 * n as u64 + 2, g: 1, t: 1, m: 0, helpers_reachable: true }
}

pub fn space(thorough: bool) -> Vec<Shape> {
    let mut out = vec![];
    // tiles
    let kmax = 4;
    let n_opts = edge_options().len();
    for k in 2..=kmax {
        let edges = k * (k - 1) / 2;
        for choice in wgslgen::sequences(n_opts, edges) {
            // k=4: restrict to tiles with at most 4 non-empty edges of the 6 (bounds the product; all 3-node tiles are complete)
            // composed 1x, 2x, 3x, ... in series: one round per length (see run), so that a tile whose cost multiplies
            // per repetition is reported at the shortest length that shows it
            for reps in 1..=(if thorough { 12 } else { 5 }) {
                let key = format!("tile|k={k}|edges={}|n={reps}", choice.iter().map(|c| c.to_string()).collect::<String>());
                out.push(tile_program(k, &choice, reps, key));
            }
        }
    }
    // families
    // sizes are explored in ascending rounds (see run): a family that violates at a small size is not run at larger ones
    let depths: &[usize] = &[4, 8, 12, 16, 20, 24, 28, 32, 48, 64];
    for kind in ["chain", "diamond", "fanin", "fanout"] {
        for &d in depths {
            for form in CallForm::ALL {
                for ctx in Ctx::ALL {
                    if !thorough && ctx != Ctx::Top && d != 16 {
                        continue;
                    }
                    if let Some(s) = family(kind, d, form, ctx, &[Stage::C]) {
                        out.push(s);
                    }
                }
            }
        }
    }
    // statement shapes inside one function: the walk over blocks must be linear in the number of blocks however
    // they nest (else-if chains lower to an `if` nested in the reject block, `for` to loop+if+break, ...)
    let stmt_sizes: &[usize] = if thorough { &[4, 8, 12, 16, 24, 32, 48, 60] } else { &[4, 12, 24, 48] };
    for kind in STMT_KINDS {
        for &n in stmt_sizes {
            for stages in [&[Stage::C][..], &[Stage::V, Stage::F, Stage::C][..]] {
                out.push(stmt_family(kind, n, stages));
            }
        }
    }
    // several entries sharing a deep graph, and up to 300 functions
    for kind in ["chain", "diamond", "fanout"] {
        for form in [CallForm::Stmt, CallForm::Let] {
            out.extend(family(kind, 32, form, Ctx::Top, &[Stage::V, Stage::F, Stage::C, Stage::C]));
            out.extend(family(kind, if kind == "diamond" { 140 } else { 290 }, form, Ctx::IfAccept, &[Stage::C]));
        }
    }
    // type families
    for d in if thorough { vec![4, 8, 12, 15, 20, 24, 40] } else { vec![4, 8, 12, 15, 24] } {
        for vars in [1, 3, 8] {
            out.push(type_family("nested2", d, vars));
            out.push(type_family("nested3-array", d, vars));
        }
    }
    for w in [10, 100, 300] {
        for vars in [1, 8, 64] {
            out.push(type_family("wide", w, vars));
        }
    }
    out
}

/// Black-box wall clock in a child process (decides even if the hooks disappear).
pub fn scale_cases() -> Vec<(&'static str, usize)> {
    let mut v = vec![];
    for (kind, sizes) in [
        ("bindings", vec![64, 400, 1000]),
        ("members", vec![64, 300, 1000]),
        ("structs", vec![64, 300]),
        ("vertex-structs", vec![8, 32, 64]),
        ("entries", vec![16, 64, 200]),
        ("consts-overrides", vec![64, 300]),
        ("overrides", vec![32, 200]),
        ("array-nesting", vec![4, 8, 12, 16]),
        ("fragment-output-members", vec![8, 16, 32, 64]),
        ("fragment-output-members-desc", vec![8, 32, 64]),
        ("vertex-input-members", vec![8, 32, 64]),
        ("groups-bindings-mixed", vec![64, 400]),
        ("ladder-other-pc", vec![8, 24, 40]),
        ("ladder-other-binding", vec![8, 24, 40]),
        ("ladder-other-both", vec![32]),
        ("bindings+fmt", vec![400, 1000]),
        ("structs+fmt", vec![100, 300]),
        ("consts-overrides+fmt", vec![300]),
        ("members+fmt", vec![300]),
        ("entries+fmt", vec![64]),
        ("huge-group-index", vec![1_000, 100_000_000, 4_294_967_295]),
        ("huge-binding-index", vec![1_000, 100_000_000, 4_294_967_295]),
        ("ident-shapes", vec![0, 1, 2, 3, 4, 5, 6, 7, 8, 9]),
        ("override-diamond", vec![8, 24, 48]),
        ("const-diamond", vec![8, 24, 48]),
        ("array-nesting-1", vec![8, 24, 40, 60]),
        ("array-nesting-1-vertex-and-override", vec![30]),
        ("stmt-else-if-chain", vec![24, 48]),
        ("stmt-nested-else", vec![24, 48]),
        ("stmt-nested-if", vec![48]),
        ("stmt-nested-loop", vec![24, 48]),
        ("stmt-nested-switch", vec![48]),
        ("stmt-switch-cases", vec![200]),
        ("stmt-mixed-nest", vec![24, 48]),
    ] {
        for n in sizes {
            v.push((kind, n));
        }
    }
    v
}

pub fn child(kind: &str, depth: usize) -> i32 {
    if let Some(k) = kind.strip_prefix("scale:") {
        // prints: <ok> <generation seconds> <naga parse+validate seconds>
        // a `+fmt` suffix runs the same family with the formatter on (output sizes above the pipe buffer)
        let (k, fmt) = match k.strip_suffix("+fmt") {
            Some(b) => (b, true),
            None => (k, false),
        };
        let sh = scale_family(k, depth);
        let t0 = thread_cpu_seconds();
        let valid = naga_check(&sh.src).is_ok();
        let naga_s = thread_cpu_seconds() - t0;
        if !valid {
            println!("2 0 {naga_s:.6}");
            return 0;
        }
        let t1 = thread_cpu_seconds();
        let w1 = std::time::Instant::now();
        let out = if fmt { generate_with_unguarded(&sh.src, None, Config { rustfmt: true, ..Config::default() }.options()) } else { generate(&sh.src, &Config::default()) };
        let cpu = thread_cpu_seconds() - t1;
        let wall_on = w1.elapsed().as_secs_f64();
        // formatter-on members: most of the time is spent waiting for formatter processes, which the thread's CPU time does
        // not see. Reference measured in the same process under the same load: the formatter-off call plus ONE run of
        // the formatter over the whole text. Printed as 4th / 5th field: wall seconds of the call, wall seconds of the reference.
        let mut extra = String::new();
        if fmt {
            let w2 = std::time::Instant::now();
            if let Outcome::Ok(text) = generate(&sh.src, &Config::default()) {
                use std::io::Write;
                if let Ok(mut ch) = std::process::Command::new("rustfmt").args(["--edition", "2021"]).stdin(std::process::Stdio::piped()).stdout(std::process::Stdio::piped()).stderr(std::process::Stdio::null()).spawn() {
                    let mut stdin = ch.stdin.take().unwrap();
                    let t = text.clone();
                    let w = std::thread::spawn(move || {
                        let _ = stdin.write_all(t.as_bytes());
                    });
                    let _ = ch.wait_with_output();
                    let _ = w.join();
                    extra = format!(" {wall_on:.6} {:.6}", w2.elapsed().as_secs_f64());
                }
            }
        }
        // a typed refusal (Err) is a finished call as well; only a panic is "not Ok" here
        println!("{} {cpu:.6} {naga_s:.6}{extra}", matches!(out, Outcome::Ok(_) | Outcome::Err(..)) as u8);
        return 0;
    }
    let s = match kind {
        "flat" => {
            // reference: same number of functions, no calls between them
            let mut src = String::from("@group(0) @binding(0) var<uniform> leaf: vec4<f32>;\n");
            for i in 0..depth {
                src.push_str(&helper(&format!("h{i}"), true, "    acc += leaf.x;\n"));
            }
            src.push_str(&Stage::C.entry("cs_0", "    acc += h0();\n"));
            src
        }
        "nested2" => type_family("nested2", depth, 1).src,
        k => family(k, depth, CallForm::Let, Ctx::Top, &[Stage::C]).unwrap().src,
    };
    let t0 = thread_cpu_seconds();
    let out = generate(&s, &Config::default());
    let dt = thread_cpu_seconds() - t0;
    println!("{} {:.6}", matches!(out, Outcome::Ok(_)) as u8, dt);
    0
}

/// Children run under an 8 GiB address-space limit: a call whose memory grows without bound dies there (allocation
/// failure aborts) instead of exhausting the machine.
fn limit_address_space(cmd: &mut std::process::Command) {
    use std::os::unix::process::CommandExt;
    unsafe {
        cmd.pre_exec(|| {
            let lim = libc::rlimit { rlim_cur: 8 << 30, rlim_max: 8 << 30 };
            libc::setrlimit(libc::RLIMIT_AS, &lim);
            Ok(())
        });
    }
}

/// `family|chain|depth=16|form=Let|..` -> (`family|chain|form=Let|..`, 16); keys without a size have rank 0.
pub fn family_and_rank(key: &str) -> (String, usize) {
    let mut rank = 0usize;
    let mut rest = vec![];
    for part in key.split('|') {
        match part.strip_prefix("depth=").or_else(|| part.strip_prefix("n=")).and_then(|v| v.parse::<usize>().ok()) {
            Some(v) if rank == 0 => rank = v,
            _ => rest.push(part),
        }
    }
    // the family is the kind of growth, not the placement: for call-graph families the kind and the call form, for
    // type / statement families the kind; a tile is its own family
    let fam = match rest.first().copied() {
        Some("family") => rest.iter().filter(|p| !p.starts_with("ctx=") && !p.starts_with("entries=")).copied().collect::<Vec<_>>().join("|"),
        Some("types") | Some("stmt") => rest.iter().take(2).copied().collect::<Vec<_>>().join("|"),
        _ => rest.join("|"),
    };
    (fam, rank)
}

fn run_child_raw(kind: &str, depth: usize, timeout_s: u64) -> Result<String, String> {
    let exe = std::env::current_exe().unwrap();
    let mut ch = std::process::Command::new(exe);
    ch.args(["c20-child", kind, &depth.to_string()])
        .stdout(std::process::Stdio::piped())
        .stderr(std::process::Stdio::null());
    limit_address_space(&mut ch);
    let mut ch = ch.spawn().map_err(|e| e.to_string())?;
    let t0 = std::time::Instant::now();
    loop {
        match ch.try_wait() {
            Ok(Some(_)) => break,
            Ok(None) => {
                if t0.elapsed().as_secs() >= timeout_s {
                    let _ = ch.kill();
                    let _ = ch.wait();
                    return Err(format!("timeout after {timeout_s}s"));
                }
                std::thread::sleep(std::time::Duration::from_millis(5));
            }
            Err(e) => return Err(e.to_string()),
        }
    }
    let out = ch.wait_with_output().map_err(|e| e.to_string())?;
    if let Some(sig) = std::os::unix::process::ExitStatusExt::signal(&out.status) {
        return Err(format!("terminated by signal {sig}"));
    }
    let s = String::from_utf8_lossy(&out.stdout).trim().to_string();
    if s.is_empty() {
        return Err("no output from child".into());
    }
    Ok(s)
}

fn run_child(kind: &str, depth: usize, timeout_s: u64) -> Result<f64, String> {
    let exe = std::env::current_exe().unwrap();
    let mut ch = std::process::Command::new(exe);
    ch.args(["c20-child", kind, &depth.to_string()])
        .stdout(std::process::Stdio::piped())
        .stderr(std::process::Stdio::null());
    limit_address_space(&mut ch);
    let mut ch = ch.spawn().map_err(|e| e.to_string())?;
    let t0 = std::time::Instant::now();
    loop {
        match ch.try_wait() {
            Ok(Some(_)) => break,
            Ok(None) => {
                if t0.elapsed().as_secs() >= timeout_s {
                    let _ = ch.kill();
                    let _ = ch.wait();
                    return Err(format!("timeout after {timeout_s}s"));
                }
                std::thread::sleep(std::time::Duration::from_millis(5));
            }
            Err(e) => return Err(e.to_string()),
        }
    }
    let out = ch.wait_with_output().map_err(|e| e.to_string())?;
    if let Some(sig) = std::os::unix::process::ExitStatusExt::signal(&out.status) {
        return Err(format!("terminated by signal {sig}"));
    }
    let s = String::from_utf8_lossy(&out.stdout);
    let mut it = s.split_whitespace();
    let ok = it.next().unwrap_or("0");
    let t: f64 = it.next().and_then(|x| x.parse().ok()).ok_or("no timing from child")?;
    if ok != "1" {
        return Err("child: generator not Ok".into());
    }
    Ok(t)
}

pub fn run(tier: &str) -> i32 {
    wgsl_to_wgpu::verif::set_hook(Some(hook));
    let mut rep = Report::new("C20", tier);
    let thorough = rep.thorough();
    let shapes = space(thorough);
    // bound iteration: members are run in rounds of ascending size; once a family (the key without its size) has a
    // violation, its larger members are not run - an exponential section is reported at the smallest size that shows
    // it, before a larger member can exhaust the machine
    let ranked: Vec<(String, usize)> = shapes.iter().map(|s| family_and_rank(&s.key)).collect();
    let ranks: BTreeSet<usize> = ranked.iter().map(|(_, r)| *r).collect();
    let mut stopped: BTreeSet<String> = BTreeSet::new();
    let mut results = vec![];
    for rank in &ranks {
        let round: Vec<usize> = (0..shapes.len()).filter(|i| ranked[*i].1 == *rank).collect();
        let (run_now, skipped): (Vec<usize>, Vec<usize>) = round.into_iter().partition(|i| !stopped.contains(&ranked[*i].0));
        for _ in &skipped {
            rep.count("members not run: their family already violated at a smaller size");
        }
        let rs = par_map(&run_now, |i| {
            let mut r = Report::new("C20", tier);
            check(&shapes[*i], &mut r);
            r
        });
        for (i, r) in run_now.iter().zip(rs.into_iter()) {
            if !r.violations.is_empty() {
                stopped.insert(ranked[*i].0.clone());
            }
            results.push(r);
        }
    }
    rep.set("size_rounds", json!(ranks.iter().collect::<Vec<_>>()));
    for (i, s) in shapes.iter().enumerate() {
        if i % (shapes.len() / 4 + 1) == 5 {
            rep.sample(json!({"key": s.key, "wgsl_head": s.src.chars().take(600).collect::<String>(), "fn_bound": s.fn_bound(), "ty_bound": s.ty_bound()}));
        }
    }
    for r in results {
        rep.merge(r);
    }
    wgsl_to_wgpu::verif::set_hook(None);
    // wall clock in child processes (hooks not installed there)
    let mut wall = vec![];
    let depths: &[usize] = if thorough { &[16, 32, 64] } else { &[32, 64] };
    for kind in ["chain", "diamond", "fanin", "nested2"] {
        for &d in depths {
            let d = if kind == "nested2" { d.min(40) } else { d };
            if stopped.iter().any(|f| f.contains(&format!("|{kind}|"))) {
                rep.count("child runs skipped: the family already violated in-process at a smaller size");
                continue;
            }
            let nfun = match kind { "diamond" => 2 * d + 2, _ => d + 1 };
            let flat = run_child("flat", nfun, 30).unwrap_or(0.05);
            let limit = (200.0 * flat).max(2.0);
            rep.states += 1;
            rep.evaluations += 1;
            // one retry for a child that produced no result (machine under heavy load), timeouts are verdicts
            let mut res = run_child(kind, d, limit.ceil() as u64 + 1);
            if matches!(&res, Err(e) if !e.starts_with("timeout")) {
                res = run_child(kind, d, limit.ceil() as u64 + 1);
            }
            match res {
                Ok(t) => {
                    wall.push(json!({"family": kind, "depth": d, "seconds": t, "flat_reference": flat}));
                    if t > limit {
                        rep.violation(format!("wallclock|{kind}|depth={d}"), format!("took {t:.2}s, limit {limit:.2}s (200 x flat reference {flat:.4}s)"), json!({"family": kind, "depth": d}));
                    }
                }
                Err(e) if e.starts_with("timeout") => {
                    rep.violation(format!("wallclock|{kind}|depth={d}"), format!("did not finish within {limit:.1}s (flat reference {flat:.4}s)"), json!({"family": kind, "depth": d}));
                }
                Err(e) if e.starts_with("terminated by signal") => {
                    rep.violation(format!("wallclock|{kind}|depth={d}"), format!("the process running the call was {e} under an 8 GiB address-space limit (the flat reference of the same size finished in {flat:.4}s)"), json!({"family": kind, "depth": d}));
                }
                Err(e) => machinery(&format!("C20 child failed: {e}")),
            }
        }
    }
    // size families: linear-size inputs in child processes with a hard cap (an exponential section would never return)
    let scs = scale_cases();
    let sres = par_map(&scs, |(kind, n)| run_child_raw(&format!("scale:{kind}"), *n, 20));
    let mut scale_report = vec![];
    for ((kind, n), r) in scs.iter().zip(sres.iter()) {
        rep.states += 1;
        rep.evaluations += 1;
        let key = format!("scale|{kind}|n={n}");
        match r {
            Ok(line) => {
                let p: Vec<&str> = line.split_whitespace().collect();
                let (ok, t, naga_s) = (p.first().copied().unwrap_or("0"), p.get(1).and_then(|x| x.parse::<f64>().ok()).unwrap_or(0.0), p.get(2).and_then(|x| x.parse::<f64>().ok()).unwrap_or(0.0));
                if ok == "2" {
                    rep.filtered("scale family: naga rejects the shader");
                    continue;
                }
                if ok != "1" {
                    rep.filtered("scale family: generator not Ok");
                    continue;
                }
                let limit = (50.0 * naga_s).max(2.0);
                scale_report.push(json!({"family": kind, "n": n, "seconds": t, "naga_seconds": naga_s}));
                rep.nontrivial.insert(hash64(&key));
                if t > limit {
                    rep.violation(key.clone(), format!("took {t:.2}s, limit {limit:.2}s = max(2 s, 50 x naga's own parse+validate {naga_s:.3}s)"), json!({"family": kind, "n": n}));
                }
                // formatter-on members: wall time of the call against formatter-off call + one whole-text formatter run
                if let (Some(on), Some(reference)) = (p.get(3).and_then(|x| x.parse::<f64>().ok()), p.get(4).and_then(|x| x.parse::<f64>().ok())) {
                    let wlimit = (8.0 * reference).max(3.0);
                    if on > wlimit {
                        rep.violation(key, format!("with the formatter on the call took {on:.1}s of wall time; generating without it and formatting the whole text once took {reference:.2}s in the same process (limit max(3 s, 8 x that))"), json!({"family": kind, "n": n}));
                    }
                }
            }
            Err(e) if e.starts_with("timeout") => rep.violation(key, "did not finish within 20 s (naga itself needs milliseconds for this shader)".to_string(), json!({"family": kind, "n": n})),
            Err(e) if e.starts_with("terminated by signal") => rep.violation(key, format!("the process running the call was {e} under an 8 GiB address-space limit"), json!({"family": kind, "n": n})),
            Err(e) => machinery(&format!("C20 scale child failed: {e}")),
        }
    }
    let refused = rep.filtered_out.get("scale family: naga rejects the shader").copied().unwrap_or(0) + rep.filtered_out.get("scale family: generator not Ok").copied().unwrap_or(0);
    if refused > 3 {
        machinery(&format!("C20: {refused} of {} scale family members were refused by naga or the generator (families built wrongly?)", scs.len()));
    }
    rep.set("scale_families", json!(scale_report));
    rep.set("wall_clock_children", json!(wall));
    rep.traces_validated = rep.evaluations;
    rep.rule = format!("(1) every tile: DAG on <= {} helpers with each forward edge in {{absent, 1 statement call, 1 value call, 2 statement calls, 2 value calls, 1+1 mixed}}, composed 1x..{}x in series; (2) chain / diamond / 3-fold fan-in / fan-out families at depths {:?} with every call form at every placement context, plus 4-entry and 290-function members; (3) nested two-/three-member struct types to depth 24/40, wide structs, many variables sharing one type; (3b) statement shapes in one function (else-if chains, nested if / else / loop / for / switch / blocks, mixed) at sizes up to 60 under 1 and 3 entry points, block visits <= 8*E*(B+1) from the walk:block hook; (3c) ladders 40 levels deep under one entry with a push constant / binding that only another entry uses; (3d) override / const initialisers forming a 48-level diamond that sizes a workgroup and an array; (3e) group / binding indices up to u32::MAX; (3f) the large size families again with the formatter on (outputs far above the 64 KiB pipe buffer; wall-clock cap 20 s); (4) size families: up to 1000 bindings / 1000 members / 300 structs / 64 vertex entries x 12 structs / 200 entry points sharing helpers / 300 consts+overrides / arrays nested 16 deep (two elements per level) and 60 deep (one element per level), each under max(2 s, 50 x naga) of thread CPU time. Members run in rounds of ascending size; a family that violates is not run at larger sizes. Oracle: peak bytes allocated by the call on its thread (counting allocator) <= max(16 MiB, 32 x naga's peak on the same source); walk:function visits <= 8*E*(F+C+1), walk:type visits <= 8*G*(T+M+1) (hook aborts at the budget); CPU time of amplified members in child processes <= max(2 s, 200 x same-size flat shader), with a 20-30 s wall-clock cap that only a hang can reach.", 4, if thorough { 12 } else { 5 }, vec![4, 8, 12, 16, 20, 24, 28, 32, 48, 64]);
    rep.assumptions.push("step counts come from the verif-hooks points at the top of the two recursive walks; if a refactor removes them the wall-clock part decides alone".into());
    rep.finish()
}
