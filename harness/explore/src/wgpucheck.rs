//! wgpu's own validation, used for real where it runs without a device
//! (`wgpu_core::validation::Interface`), and transcribed where it needs one
//! (`Device::create_bind_group_layout` entry rules, vertex buffer rules of `create_render_pipeline`).
use wgpu_core::validation::{BindingLayoutSource, Interface, InterfaceVar, StageIo};
use wgpu_types as wgt;

/// The most permissive device: only unconditional rejections count.
pub fn permissive_limits() -> wgt::Limits {
    let mut l = wgt::Limits::default();
    l.max_bind_groups = 8; // hal::MAX_BIND_GROUPS
    l.max_bindings_per_bind_group = u32::MAX;
    l.max_compute_workgroup_size_x = u32::MAX;
    l.max_compute_workgroup_size_y = u32::MAX;
    l.max_compute_workgroup_size_z = u32::MAX;
    l.max_compute_invocations_per_workgroup = u32::MAX;
    l.max_compute_workgroup_storage_size = u32::MAX;
    l.max_inter_stage_shader_components = u32::MAX;
    l.max_vertex_attributes = u32::MAX;
    l.max_vertex_buffers = 16; // hal::MAX_VERTEX_BUFFERS
    l.max_vertex_buffer_array_stride = u32::MAX;
    l.max_push_constant_size = u32::MAX;
    l.max_color_attachments = 8;
    l
}

/// `wgpu-core 24.0.5 src/device/bgl.rs EntryMap::from_entries` + `src/device/resource.rs
/// Device::create_bind_group_layout` (lines 1699-1880), restricted to the rules that do not depend on
/// device features (all features assumed present).
pub fn bgl_rules(entries: &[wgt::BindGroupLayoutEntry], limits: &wgt::Limits) -> Result<(), String> {
    use wgt::BindingType as Bt;
    let mut seen = std::collections::BTreeSet::new();
    for e in entries {
        if e.binding >= limits.max_bindings_per_bind_group {
            return Err(format!("InvalidBindingIndex({})", e.binding));
        }
        if !seen.insert(e.binding) {
            return Err(format!("ConflictBinding({})", e.binding));
        }
    }
    for e in entries {
        match e.ty {
            Bt::Texture { multisampled: true, sample_type: wgt::TextureSampleType::Float { filterable: true }, .. } => {
                return Err(format!("binding {}: SampleTypeFloatFilterableBindingMultisampled", e.binding));
            }
            Bt::Texture { multisampled, view_dimension, .. } => {
                if multisampled && view_dimension != wgt::TextureViewDimension::D2 {
                    return Err(format!("binding {}: Non2DMultisampled({view_dimension:?})", e.binding));
                }
            }
            Bt::StorageTexture { view_dimension, .. } => {
                if matches!(view_dimension, wgt::TextureViewDimension::Cube | wgt::TextureViewDimension::CubeArray) {
                    return Err(format!("binding {}: StorageTextureCube", e.binding));
                }
            }
            _ => {}
        }
        if e.count.is_some() && matches!(e.ty, Bt::AccelerationStructure) {
            return Err(format!("binding {}: ArrayUnsupported", e.binding));
        }
        if e.visibility | wgt::ShaderStages::all() != wgt::ShaderStages::all() {
            return Err(format!("InvalidVisibility({:?})", e.visibility));
        }
    }
    Ok(())
}

pub struct StageVerdict {
    pub stage: naga::ShaderStage,
    pub entry: String,
    pub provided: Result<(), String>,
}

fn stage_bit(s: naga::ShaderStage) -> wgt::ShaderStages {
    match s {
        naga::ShaderStage::Vertex => wgt::ShaderStages::VERTEX,
        naga::ShaderStage::Fragment => wgt::ShaderStages::FRAGMENT,
        naga::ShaderStage::Compute => wgt::ShaderStages::COMPUTE,
    }
}

/// Runs the real `check_stage` for every entry point with the given layouts (in pipeline-layout
/// order: element i is what wgpu will see as group i). `vertex_inputs(entry name)` supplies the
/// vertex attributes for vertex entries. Also returns wgpu's own derived layout per group.
pub fn check_all_stages(
    module: &naga::Module,
    info: &naga::valid::ModuleInfo,
    layouts: &[Vec<wgt::BindGroupLayoutEntry>],
    vertex_inputs: &dyn Fn(&str) -> Vec<(u32, wgt::VertexFormat)>,
) -> (Vec<StageVerdict>, Vec<Vec<wgt::BindGroupLayoutEntry>>) {
    let limits = permissive_limits();
    let iface = Interface::new(module, info, limits.clone());
    // build the unnameable EntryMaps through new_derived
    let mut maps = match BindingLayoutSource::new_derived(&limits) {
        BindingLayoutSource::Derived(b) => *b,
        _ => unreachable!(),
    };
    maps.truncate(layouts.len().min(8));
    for (g, entries) in layouts.iter().enumerate().take(8) {
        for e in entries {
            if let indexmap::map::Entry::Vacant(v) = maps[g].entry(e.binding) {
                v.insert(*e);
            }
        }
        maps[g].sort();
    }
    let mut verdicts = vec![];
    let mut derived_src = BindingLayoutSource::new_derived(&limits);
    for ep in &module.entry_points {
        let mut refs = arrayvec::ArrayVec::new();
        for m in maps.iter() {
            refs.push(m);
        }
        let mut provided = BindingLayoutSource::Provided(refs);
        let mut sizes = Default::default();
        let mut inputs = StageIo::default();
        if ep.stage == naga::ShaderStage::Vertex {
            for (loc, f) in vertex_inputs(&ep.name) {
                inputs.insert(loc, InterfaceVar::vertex_attribute(f));
            }
        }
        let compare = Some(wgt::CompareFunction::Less);
        let r = std::panic::catch_unwind(std::panic::AssertUnwindSafe(|| {
            iface.check_stage(&mut provided, &mut sizes, &ep.name, stage_bit(ep.stage), inputs.clone(), compare).map(|_| ()).map_err(|e| format!("{e:?}"))
        }))
        .unwrap_or_else(|_| Err("check_stage panicked".to_string()));
        verdicts.push(StageVerdict { stage: ep.stage, entry: ep.name.clone(), provided: r });
        let mut sizes2 = Default::default();
        let _ = std::panic::catch_unwind(std::panic::AssertUnwindSafe(|| {
            let _ = iface.check_stage(&mut derived_src, &mut sizes2, &ep.name, stage_bit(ep.stage), inputs.clone(), compare);
        }));
    }
    let derived = match derived_src {
        BindingLayoutSource::Derived(b) => b.iter().map(|m| {
            let mut v: Vec<wgt::BindGroupLayoutEntry> = m.values().copied().collect();
            v.sort_by_key(|e| e.binding);
            v
        }).collect(),
        _ => unreachable!(),
    };
    (verdicts, derived)
}

/// Vertex buffer rules of `Device::create_render_pipeline` (wgpu-core 24.0.5 src/device/resource.rs,
/// the `for (i, vb_state) in desc.vertex.buffers.iter().enumerate()` loop), permissive limits.
pub fn vertex_buffer_rules(buffers: &[(u64, Vec<wgt::VertexAttribute>)], limits: &wgt::Limits) -> Result<(), String> {
    if buffers.len() > limits.max_vertex_buffers as usize {
        return Err(format!("TooManyVertexBuffers({})", buffers.len()));
    }
    let mut total = 0usize;
    let mut locations = std::collections::BTreeSet::new();
    for (i, (stride, attrs)) in buffers.iter().enumerate() {
        if *stride > limits.max_vertex_buffer_array_stride as u64 {
            return Err(format!("VertexStrideTooLarge(buffer {i}, {stride})"));
        }
        if stride % wgt::VERTEX_STRIDE_ALIGNMENT != 0 {
            return Err(format!("UnalignedVertexStride(buffer {i}, {stride})"));
        }
        let max_stride = if *stride == 0 { limits.max_vertex_buffer_array_stride as u64 } else { *stride };
        let mut last_stride = 0;
        for a in attrs {
            let end = a.offset + a.format.size();
            if end > max_stride {
                return Err(format!("VertexAttributeStrideTooLarge(location {}, end {end} > stride {max_stride})", a.shader_location));
            }
            last_stride = last_stride.max(end);
            let align = a.format.size().min(4);
            if a.offset % align != 0 {
                return Err(format!("InvalidVertexAttributeOffset(location {}, offset {})", a.shader_location, a.offset));
            }
            if a.shader_location >= limits.max_vertex_attributes {
                return Err(format!("TooManyVertexAttributes(location {})", a.shader_location));
            }
            if !locations.insert(a.shader_location) {
                return Err(format!("ShaderLocationClash({})", a.shader_location));
            }
        }
        total += attrs.len();
        let _ = last_stride;
    }
    if total > limits.max_vertex_attributes as usize {
        return Err(format!("TooManyVertexAttributes({total})"));
    }
    Ok(())
}
