//! C02 — bind group layouts pass wgpu's shader-interface validation.
//! Oracles: the real `wgpu_core::validation::Interface::check_stage` with the generated layouts as
//! `Provided` layouts, the transcribed `create_bind_group_layout` entry rules, and a comparison with
//! the layout wgpu derives itself for the same shader.
use crate::common::*;
use crate::progs::Stage;
use crate::wgpucheck;
use serde_json::json;
use wgpu_types as wgt;

#[derive(Clone, Debug)]
pub struct Res {
    pub id: String,
    /// declaration with `{at}` for the attributes and `{n}` for the variable name
    pub decl: String,
    /// statements using `{n}` (and `{n2}` for a second variable of a pairing)
    pub access: String,
    /// extra module-scope text (types)
    pub types: String,
    /// second variable of a pairing (declaration template), bound at binding+1
    pub decl2: Option<String>,
    /// stages in which the access is legal
    pub stages: Vec<Stage>,
}

pub const FORMATS: [&str; 41] = [
    "r8unorm", "r8snorm", "r8uint", "r8sint", "r16uint", "r16sint", "r16float", "rg8unorm", "rg8snorm", "rg8uint", "rg8sint", "r32uint", "r32sint", "r32float", "rg16uint", "rg16sint",
    "rg16float", "rgba8unorm", "rgba8snorm", "rgba8uint", "rgba8sint", "bgra8unorm", "rgb10a2uint", "rgb10a2unorm", "rg11b10float", "r64uint", "rg32uint", "rg32sint", "rg32float",
    "rgba16uint", "rgba16sint", "rgba16float", "rgba32uint", "rgba32sint", "rgba32float", "r16unorm", "r16snorm", "rg16unorm", "rg16snorm", "rgba16unorm", "rgba16snorm",
];

fn all3() -> Vec<Stage> {
    Stage::ALL.to_vec()
}

pub fn resource_table(thorough: bool) -> Vec<Res> {
    let mut t = vec![];
    // buffers
    let types = "struct BufS { a: vec4<f32>, b: f32 };\nstruct BufRt { n: u32, data: array<vec4<f32>> };\n";
    for (space, sid, writable) in [("uniform", "uniform", false), ("storage, read", "storage-read", false), ("storage, read_write", "storage-rw", true)] {
        for (ty, tid, load) in [
            ("BufS", "struct", "acc += {n}.b;"),
            ("array<vec4<f32>, 4>", "array4", "acc += {n}[1].x;"),
            ("f32", "f32", "acc += {n};"),
            ("vec4<f32>", "vec4", "acc += {n}.y;"),
            ("mat4x4<f32>", "mat4", "acc += {n}[0].x;"),
            ("BufRt", "rt-struct", "acc += f32(arrayLength(&{n}.data));"),
            ("array<f32>", "rt-array", "acc += {n}[0];"),
        ] {
            if space == "uniform" && (tid.starts_with("rt-")) {
                continue;
            }
            let mut access = load.to_string();
            if writable {
                access.push_str(match tid {
                    "struct" => " {n}.b = 1.0;",
                    "array4" => " {n}[0] = vec4<f32>(1.0);",
                    "f32" => " {n} = 2.0;",
                    "vec4" => " {n}.x = 1.0;",
                    "mat4" => " {n}[1] = vec4<f32>(0.0);",
                    "rt-struct" => " {n}.data[0] = vec4<f32>(0.0);",
                    _ => " {n}[1] = 3.0;",
                });
            }
            t.push(Res { id: format!("buffer|{sid}|{tid}"), decl: format!("{{at}} var<{space}> {{n}}: {ty};"), access, types: types.into(), decl2: None, stages: all3() });
        }
    }
    // sampled textures
    for dim in ["1d", "2d", "2d_array", "3d", "cube", "cube_array"] {
        for sc in ["f32", "i32", "u32"] {
            t.push(Res {
                id: format!("texture|{dim}|{sc}"),
                decl: format!("{{at}} var {{n}}: texture_{dim}<{sc}>;"),
                access: "let d = textureDimensions({n});".into(),
                types: String::new(),
                decl2: None,
                stages: all3(),
            });
        }
    }
    for sc in ["f32", "i32", "u32"] {
        t.push(Res {
            id: format!("texture|multisampled_2d|{sc}"),
            decl: format!("{{at}} var {{n}}: texture_multisampled_2d<{sc}>;"),
            access: "let d = textureDimensions({n}); let s = textureNumSamples({n});".into(),
            types: String::new(),
            decl2: None,
            stages: all3(),
        });
    }
    for d in ["depth_2d", "depth_2d_array", "depth_cube", "depth_cube_array", "depth_multisampled_2d"] {
        t.push(Res { id: format!("texture|{d}"), decl: format!("{{at}} var {{n}}: texture_{d};"), access: "let d = textureDimensions({n});".into(), types: String::new(), decl2: None, stages: all3() });
    }
    // storage textures
    let dims: &[&str] = if thorough { &["1d", "2d", "2d_array", "3d"] } else { &["2d", "3d"] };
    for (fi, f) in FORMATS.iter().enumerate() {
        for dim in dims {
            for access in ["read", "write", "read_write", "atomic"] {
                if !thorough && fi % 5 != 0 && !(f == &"r32uint" || f == &"r32sint" || f == &"r64uint") && *dim != "2d" {
                    continue;
                }
                t.push(Res {
                    id: format!("storage-texture|{f}|{access}|{dim}"),
                    decl: format!("{{at}} var {{n}}: texture_storage_{dim}<{f}, {access}>;"),
                    access: "let d = textureDimensions({n});".into(),
                    types: String::new(),
                    decl2: None,
                    stages: all3(),
                });
            }
        }
    }
    // samplers alone cannot be used without a texture: pairings below cover them.
    // texture x sampler pairings
    let frag = vec![Stage::F];
    let uv = "vec2<f32>(0.5, 0.5)";
    let mut pair = |id: &str, tex: &str, samp: &str, access: String, stages: Vec<Stage>| {
        t.push(Res { id: format!("pair|{id}"), decl: format!("{{at}} var {{n}}: {tex};"), access, types: String::new(), decl2: Some(format!("{{at}} var {{n}}: {samp};")), stages });
    };
    pair("textureSample-f32", "texture_2d<f32>", "sampler", format!("acc += textureSample({{n}}, {{n2}}, {uv}).x;"), frag.clone());
    pair("textureSampleBias-f32", "texture_2d<f32>", "sampler", format!("acc += textureSampleBias({{n}}, {{n2}}, {uv}, 1.0).x;"), frag.clone());
    pair("textureSampleLevel-f32", "texture_2d<f32>", "sampler", format!("acc += textureSampleLevel({{n}}, {{n2}}, {uv}, 0.0).x;"), all3());
    pair("textureSampleGrad-f32", "texture_2d<f32>", "sampler", format!("acc += textureSampleGrad({{n}}, {{n2}}, {uv}, {uv}, {uv}).x;"), all3());
    pair("textureSampleLevel-cube", "texture_cube<f32>", "sampler", "acc += textureSampleLevel({n}, {n2}, vec3<f32>(0.5), 0.0).x;".into(), all3());
    pair("textureSampleLevel-2d_array", "texture_2d_array<f32>", "sampler", format!("acc += textureSampleLevel({{n}}, {{n2}}, {uv}, 1, 0.0).x;"), all3());
    pair("textureSampleCompare-depth", "texture_depth_2d", "sampler_comparison", format!("acc += textureSampleCompare({{n}}, {{n2}}, {uv}, 0.5);"), frag.clone());
    pair("textureSampleCompareLevel-depth", "texture_depth_2d", "sampler_comparison", format!("acc += textureSampleCompareLevel({{n}}, {{n2}}, {uv}, 0.5);"), all3());
    pair("textureSampleCompareLevel-depth_cube", "texture_depth_cube", "sampler_comparison", "acc += textureSampleCompareLevel({n}, {n2}, vec3<f32>(0.5), 0.5);".into(), all3());
    pair("textureSample-depth", "texture_depth_2d", "sampler", format!("acc += textureSample({{n}}, {{n2}}, {uv});"), frag.clone());
    pair("textureSampleLevel-depth", "texture_depth_2d", "sampler", format!("acc += textureSampleLevel({{n}}, {{n2}}, {uv}, 0);"), all3());
    pair("textureGather-f32", "texture_2d<f32>", "sampler", format!("acc += textureGather(0, {{n}}, {{n2}}, {uv}).x;"), all3());
    pair("textureGather-i32", "texture_2d<i32>", "sampler", format!("acc += f32(textureGather(1, {{n}}, {{n2}}, {uv}).x);"), all3());
    pair("textureGather-u32", "texture_2d<u32>", "sampler", format!("acc += f32(textureGather(2, {{n}}, {{n2}}, {uv}).x);"), all3());
    pair("textureGather-depth", "texture_depth_2d", "sampler", format!("acc += textureGather({{n}}, {{n2}}, {uv}).x;"), all3());
    pair("textureGatherCompare-depth", "texture_depth_2d", "sampler_comparison", format!("acc += textureGatherCompare({{n}}, {{n2}}, {uv}, 0.5).x;"), all3());
    t
}

pub struct Prog {
    pub key: String,
    pub src: String,
    pub groups: u32,
}

/// One program: the listed resources at the given (group, binding) slots, used by the given stages.
pub fn build(items: &[(&Res, u32, u32)], users: &[Stage], filler_groups: u32, key: String) -> Prog {
    let mut src = String::new();
    let mut types_seen = std::collections::BTreeSet::new();
    let mut body = String::new();
    let mut max_group = 0;
    for (i, (r, g, b)) in items.iter().enumerate() {
        if !r.types.is_empty() && types_seen.insert(r.types.clone()) {
            src.push_str(&r.types);
        }
        let n = format!("res{i}");
        let n2 = format!("res{i}_second");
        src.push_str(&r.decl.replace("{at}", &format!("@group({g}) @binding({b})")).replace("{n}", &n));
        src.push('\n');
        if let Some(d2) = &r.decl2 {
            src.push_str(&d2.replace("{at}", &format!("@group({g}) @binding({})", b.wrapping_add(1))).replace("{n}", &n2));
            src.push('\n');
        }
        body.push_str(&format!("    {{ {} }}\n", r.access.replace("{n2}", &n2).replace("{n}", &n)));
        max_group = max_group.max(*g);
    }
    // filler groups below the highest used group so that groups are dense
    let used_groups: std::collections::BTreeSet<u32> = items.iter().map(|x| x.1).collect();
    for g in 0..max_group.max(filler_groups.saturating_sub(1)) + 1 {
        if !used_groups.contains(&g) {
            src.push_str(&format!("@group({g}) @binding(0) var<uniform> filler{g}: vec4<f32>;\n"));
        }
    }
    for st in Stage::ALL {
        let name = match st { Stage::V => "vs_main", Stage::F => "fs_main", Stage::C => "cs_main" };
        src.push_str(&st.entry(name, if users.contains(&st) { &body } else { "" }));
    }
    Prog { key, src, groups: max_group + 1 }
}

fn entry_eq_up_to_freedoms(generated: &wgt::BindGroupLayoutEntry, derived: &wgt::BindGroupLayoutEntry) -> bool {
    use wgt::BindingType as Bt;
    if generated.binding != derived.binding || generated.count != derived.count {
        return false;
    }
    match (generated.ty, derived.ty) {
        (Bt::Buffer { ty: a, has_dynamic_offset: da, .. }, Bt::Buffer { ty: b, has_dynamic_offset: db, .. }) => a == b && da == db,
        (Bt::Texture { sample_type: a, view_dimension: va, multisampled: ma }, Bt::Texture { sample_type: b, view_dimension: vb, multisampled: mb }) => {
            let st_ok = match (a, b) {
                (wgt::TextureSampleType::Float { .. }, wgt::TextureSampleType::Float { .. }) => true,
                (x, y) => x == y,
            };
            st_ok && va == vb && ma == mb
        }
        (Bt::Sampler(a), Bt::Sampler(b)) => {
            // wgpu derives Filtering for non-comparison samplers; the generator documents the same assumption
            (a == wgt::SamplerBindingType::Comparison) == (b == wgt::SamplerBindingType::Comparison)
        }
        (a, b) => a == b,
    }
}

pub fn check(p: &Prog, rep: &mut Report) {
    rep.states += 1;
    rep.transitions += 1;
    let (module, info) = match naga_check(&p.src) {
        Ok(x) => x,
        Err(e) => {
            if std::env::var("VERIF_DEBUG").is_ok() {
                eprintln!("FILTERED {}: {e}", p.key);
            }
            rep.filtered(&format!("naga rejects: {}", e.replace('\n', " ").chars().take(70).collect::<String>()));
            return;
        }
    };
    let cfg = Config { encase: true, ..Config::default() };
    rep.evaluations += 1;
    let text = match generate(&p.src, &cfg) {
        Outcome::Ok(t) => t,
        other => {
            rep.generation_failed(p.key.clone(), &other.class(), &p.src, &cfg);
            return;
        }
    };
    let detail = |what: &str| json!({"wgsl": p.src, "config": cfg.key(), "observed": what});
    let m = omodel::parse(&text).unwrap_or_else(|e| machinery(&format!("C02: {e}")));
    let bg = match m.bind_groups() {
        Ok(b) => b,
        Err(omodel::interp::UnknownName::NoSuchVariant(v)) | Err(omodel::interp::UnknownName::Missing(v)) => {
            rep.violation(p.key.clone(), format!("layout {v}"), detail(&v));
            return;
        }
        Err(e) => machinery(&format!("C02: cannot read bind groups of {}: {e}", p.key)),
    };
    let pl = m.pipeline_layout().unwrap_or_else(|e| machinery(&format!("C02: {e}")));
    // layouts in pipeline-layout order
    let mut layouts: Vec<Vec<wgt::BindGroupLayoutEntry>> = vec![];
    for g in &pl.group_order {
        match bg.groups.iter().find(|x| x.index == *g) {
            Some(gi) => layouts.push(gi.layout_entries.clone()),
            None => {
                rep.violation(p.key.clone(), format!("pipeline layout names group {g} which has no layout"), detail("missing group"));
                return;
            }
        }
    }
    rep.nontrivial.insert(hash64(&p.src));
    if rep.thorough() && hash64(&p.key) % 4 == 0 || !rep.thorough() && hash64(&p.key) % 3 == 0 {
        option_leg(rep, &p.key, &p.src, &cfg, &text, "bind group layouts / pipeline layout", &|kind, name| (kind == "mod" && name == "bind_groups") || (kind == "fn" && name == "create_pipeline_layout"));
    }
    let limits = wgpucheck::permissive_limits();
    let mut outcome = String::new();
    for (gi, l) in layouts.iter().enumerate() {
        if let Err(e) = wgpucheck::bgl_rules(l, &limits) {
            rep.violation(p.key.clone(), format!("create_bind_group_layout rejects group {gi}: {e}"), detail(&e));
            outcome.push_str(&e);
        }
    }
    let (verdicts, derived) = wgpucheck::check_all_stages(&module, &info, &layouts, &|_| vec![]);
    for v in &verdicts {
        if let Err(e) = &v.provided {
            // stable short signature: the error's outer shape
            let short: String = e.chars().take(110).collect();
            rep.violation(p.key.clone(), format!("check_stage({:?} {}) rejects: {short}", v.stage, v.entry), detail(e));
            outcome.push_str(&short);
        }
    }
    // wgpu's own derived layout: every resource used by some entry must be present in the generated layout and equal up to freedoms
    for (gi, d) in derived.iter().enumerate() {
        for de in d {
            let gen = layouts.get(gi).and_then(|l| l.iter().find(|e| e.binding == de.binding));
            match gen {
                None => rep.violation(p.key.clone(), format!("binding {gi}/{} used by the shader is not in the generated layout", de.binding), detail("missing")),
                Some(ge) => {
                    if !entry_eq_up_to_freedoms(ge, de) {
                        rep.violation(p.key.clone(), format!("entry {gi}/{} differs from wgpu's derived layout: generated {:?} derived {:?}", de.binding, ge.ty, de.ty), detail("derived-mismatch"));
                    }
                    if !ge.visibility.contains(de.visibility) {
                        rep.violation(p.key.clone(), format!("entry {gi}/{} visibility {} lacks stages wgpu derives {}", de.binding, stages_str(ge.visibility), stages_str(de.visibility)), detail("visibility"));
                    }
                }
            }
        }
    }
    outcome.push_str(&format!("{:?}", layouts.iter().map(|l| l.iter().map(|e| format!("{:?}", e.ty)).collect::<Vec<_>>()).collect::<Vec<_>>()));
    rep.outcomes.insert(format!("{:x}", hash64(&outcome)));
}

pub fn space(thorough: bool) -> Vec<Prog> {
    // the whole table is cheap: both tiers explore all of it; the tier only widens the placement space
    let table = resource_table(true);
    let mut out = vec![];
    // every table entry: all legal stages at once, and each single legal stage
    for r in &table {
        let mut user_sets: Vec<Vec<Stage>> = vec![r.stages.clone()];
        if r.stages.len() > 1 {
            for s in &r.stages {
                user_sets.push(vec![*s]);
            }
        }
        if false && r.id.starts_with("storage-texture") {
            user_sets.truncate(2);
        }
        for us in user_sets {
            out.push(build(&[(r, 0, 0)], &us, 0, format!("{}|users={us:?}", r.id)));
        }
    }
    // index placement: representatives x binding x group
    let rep_ids = ["buffer|uniform|struct", "buffer|storage-rw|rt-array", "texture|2d|f32", "texture|depth_2d", "storage-texture|rgba8unorm|write|2d", "pair|textureSampleLevel-f32"];
    let reps: Vec<&Res> = rep_ids.iter().map(|id| table.iter().find(|r| r.id == *id).unwrap_or_else(|| panic!("no {id}"))).collect();
    let bindings: [u32; 7] = [0, 1, 7, 999, 1000, 65535, 2147483646];
    for r in &reps {
        for b in bindings {
            for g in 0..4u32 {
                out.push(build(&[(r, g, b)], &r.stages, 0, format!("placement|{}|group={g}|binding={b}", r.id)));
            }
        }
    }
    // two resources: index pairs x declaration order x same/different group
    let pairs: [(u32, u32); 4] = [(0, 2), (2, 0), (5, 3), (3, 5)];
    for a in &reps {
        for b in &reps {
            for (ia, ib) in pairs {
                for (ga, gb) in [(0u32, 0u32), (0, 1), (1, 0)] {
                    let stages: Vec<Stage> = a.stages.iter().copied().filter(|s| b.stages.contains(s)).collect();
                    // leave room for the second variable of a pairing
                    let (ia, ib) = (ia * 2, ib * 2);
                    out.push(build(&[(a, ga, ia), (b, gb, ib)], &stages, 0, format!("two|{}@{ga}/{ia}|{}@{gb}/{ib}", a.id, b.id)));
                }
            }
        }
    }
    // module-scope variables without a binding (private / workgroup / push constant) before and between resources
    for a in &reps {
        for b in &reps {
            for (ui, unbound) in ["var<private> free_p: vec4<f32>;", "var<workgroup> free_w: array<u32, 4>;", "var<push_constant> free_pc: vec4<f32>;"].iter().enumerate() {
                for pos in 0..2 {
                    let stages: Vec<Stage> = a.stages.iter().copied().filter(|s| b.stages.contains(s)).collect();
                    let mut p = build(&[(a, 0, 0), (b, 1, 0)], &stages, 0, format!("unbound{ui}@{pos}|{}|{}", a.id, b.id));
                    // insert the declaration before the first / before the second resource variable
                    let needle = if pos == 0 { "@group(0) @binding(0)" } else { "@group(1) @binding(0)" };
                    if let Some(at) = p.src.find(needle) {
                        p.src.insert_str(at, &format!("{unbound}\n"));
                    }
                    out.push(p);
                }
            }
        }
    }
    // repeated (@group, @binding) pairs at every relative position (adjacent, separated by another binding of the
    // group, by a variable of another group, by an unbound variable). Each variable is used by its own entry point
    // so that naga's per-entry collision check passes. The generator must refuse these (C11); if a module comes
    // back it is judged like any other - create_bind_group_layout answers ConflictBinding.
    let kinds = ["var<uniform>", "var<storage>", "var<storage, read_write>", "var<uniform>"];
    for len in 2..=4usize {
        let vals: &[u32] = if len == 4 { &[1, 4, 7, 9] } else { &[1, 4, 7] };
        let mut seq = vec![0usize; len];
        loop {
            let bs: Vec<u32> = seq.iter().map(|i| vals[*i]).collect();
            let distinct: std::collections::BTreeSet<u32> = bs.iter().copied().collect();
            if distinct.len() < len {
                for sep in 0..3 {
                    let mut src = String::new();
                    for (i, b) in bs.iter().enumerate() {
                        if i == 1 && sep == 1 {
                            src.push_str("@group(1) @binding(0) var<uniform> other_group: vec4<f32>;\n");
                        }
                        if i == 1 && sep == 2 {
                            src.push_str("var<private> unbound_between: vec4<f32>;\n");
                        }
                        src.push_str(&format!("@group(0) @binding({b}) {} dup{i}: vec4<f32>;\n", kinds[i]));
                    }
                    src.push_str("@vertex fn vs_main() -> @builtin(position) vec4<f32> { return dup0; }\n");
                    src.push_str("@fragment fn fs_main() -> @location(0) vec4<f32> { return dup1; }\n");
                    if len > 2 {
                        src.push_str("@compute @workgroup_size(1) fn cs_main() { dup2 = dup2 + vec4<f32>(1.0); }\n");
                    }
                    out.push(Prog { key: format!("dup|bindings={bs:?}|sep={sep}"), src, groups: if sep == 1 { 2 } else { 1 } });
                }
            }
            let mut k = 0;
            while k < len {
                seq[k] += 1;
                if seq[k] < vals.len() {
                    break;
                }
                seq[k] = 0;
                k += 1;
            }
            if k == len {
                break;
            }
        }
    }
    // visibility is part of the interface check: resources reached through helpers, with the call and the
    // access at every placement context and in every call form (C03's placement space), judged by check_stage
    let (placed, _) = crate::c03::space_b(thorough);
    for p in placed {
        out.push(Prog { key: format!("placed|{}", p.key), src: p.src, groups: 1 });
    }
    for p in crate::c03::space_c(false) {
        out.push(Prog { key: format!("placed|{}", p.key), src: p.src, groups: 1 });
    }
    // call graphs (<= 2 helpers quick, <= 3 thorough): several entries of different stages sharing helpers
    for p in crate::c03::space_a_k(thorough, if thorough { 3 } else { 2 }) {
        out.push(Prog { key: format!("graph|{}", p.key), src: p.src, groups: 1 });
    }
    out
}

pub fn run(tier: &str) -> i32 {
    let mut rep = Report::new("C02", tier);
    // the whole table is cheap (<2 s): both tiers explore all of it
    let mut progs = space(rep.thorough());
    // identifier styles of the resource variables (camelCase, UPPER): every 6th program in quick
    {
        let n0 = progs.len();
        for i in 0..n0 {
            // thorough: every program except the call-graph ones (the bulk of the space), of which every 8th
            let graph = progs[i].key.starts_with("graph|");
            if (rep.thorough() && (!graph || hash64(&progs[i].key) % 8 == 2)) || (!rep.thorough() && hash64(&progs[i].key) % 6 == 2) {
                for style in ["camel", "upper"] {
                    if let Some((src, _)) = restyle_globals(&progs[i].src, style) {
                        progs.push(Prog { key: format!("{}|names={style}", progs[i].key), src, groups: progs[i].groups });
                    }
                }
                // every built-in type after a `: ` written through an `alias`
                if let Some(src) = alias_types(&progs[i].src) {
                    if naga_check(&src).is_ok() {
                        progs.push(Prog { key: format!("{}|aliased-types", progs[i].key), src, groups: progs[i].groups });
                    }
                }
            }
        }
    }
    // module-scope declaration order is not significant: reversed / functions-first variants (every 4th in quick)
    let n0 = progs.len();
    for i in 0..n0 {
        let graph = progs[i].key.starts_with("graph|");
        if (rep.thorough() && (!graph || hash64(&progs[i].key) % 8 == 1)) || (!rep.thorough() && hash64(&progs[i].key) % 4 == 1) {
            for how in ["reverse", "entries-first", "interleave"] {
                if let Some(src) = reorder_decls(&progs[i].src, how) {
                    progs.push(Prog { key: format!("{}|decl-order={how}", progs[i].key), src, groups: progs[i].groups });
                }
            }
        }
    }
    let results = par_map(&progs, |p| {
        let mut r = Report::new("C02", tier);
        check(p, &mut r);
        r
    });
    for (i, p) in progs.iter().enumerate() {
        if i % (progs.len() / 5 + 1) == 2 {
            rep.sample(json!({"key": p.key, "wgsl": p.src}));
        }
    }
    for r in results {
        rep.merge(r);
    }
    rep.traces_validated = rep.evaluations;
    rep.rule = format!("resource table (buffers: 3 address spaces x 7 types; sampled textures 6 dims x 3 kinds; multisampled x 3; 5 depth types; storage textures {} formats x 4 accesses x {} dims; 16 texture/sampler pairings) each used by all legal stages together and by each stage alone; index placement of 6 representatives x 7 binding values x 4 groups; all ordered pairs of representatives x 4 index pairs x 3 group placements. Programs naga rejects (e.g. atomic access on a non-atomic format) are outside the universe and counted in filtered_out. Oracles: real wgpu-core check_stage with Provided layouts; transcribed create_bind_group_layout rules (most permissive device); wgpu's own derived layout.", 41, 4);
    rep.assumptions.push("most permissive device (all features, maximal limits): only unconditional rejections count".into());
    rep.assumptions.push("documented assumption of the generator: float textures filterable, samplers filtering".into());
    let filtered: u64 = rep.filtered_out.values().sum();
    if filtered * 2 > rep.states {
        machinery("C02: more than half of the space was filtered out");
    }
    rep.finish()
}
