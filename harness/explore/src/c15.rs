//! C15 — module constants are exported with the WGSL type and exact value.
use crate::common::*;
use crate::probe::{self, ProbeCase, Verdict};
use omodel::Val;
use serde_json::json;
use std::collections::BTreeMap;

#[derive(Clone, Debug, PartialEq)]
pub enum Bits {
    Int(i128),
    F32(u32),
    F64(u64),
    Bool(bool),
}

#[derive(Clone, Debug)]
pub struct ConstCase {
    pub name: String,
    pub decl: String,
    /// None: non-scalar constant, must produce nothing. Some: acceptable Rust types and the exact value.
    pub expect: Option<(Vec<&'static str>, Bits)>,
    pub form: &'static str,
}

fn f32c(name: &str, form: &'static str, expr: &str, v: f32) -> ConstCase {
    ConstCase { name: name.into(), decl: format!("const {name}: f32 = {expr};"), expect: Some((vec!["f32"], Bits::F32(v.to_bits()))), form }
}
fn i32c(name: &str, form: &'static str, expr: &str, v: i32) -> ConstCase {
    ConstCase { name: name.into(), decl: format!("const {name}: i32 = {expr};"), expect: Some((vec!["i32"], Bits::Int(v as i128))), form }
}
fn u32c(name: &str, form: &'static str, expr: &str, v: u32) -> ConstCase {
    ConstCase { name: name.into(), decl: format!("const {name}: u32 = {expr};"), expect: Some((vec!["u32"], Bits::Int(v as i128))), form }
}

pub fn table() -> Vec<ConstCase> {
    let mut t = vec![];
    // ---- literals
    for (i, (e, v)) in [("0", 0i32), ("1", 1), ("-1", -1), ("2147483647", i32::MAX), ("-2147483648", i32::MIN), ("16777217", 16777217), ("-5i", -5), ("0x7fffffff", i32::MAX)].iter().enumerate() {
        t.push(i32c(&format!("I32_LIT_{i}"), "literal", e, *v));
    }
    for (i, (e, v)) in [("0u", 0u32), ("1u", 1), ("4294967295u", u32::MAX), ("16777217u", 16777217), ("0xffffffffu", u32::MAX), ("7", 7)].iter().enumerate() {
        t.push(u32c(&format!("U32_LIT_{i}"), "literal", e, *v));
    }
    let f32_vals: Vec<(&str, f32)> = vec![
        ("0.0", 0.0),
        ("-0.0", -0.0),
        ("1.0", 1.0),
        ("-1.0", -1.0),
        ("0.1", 0.1),
        ("3.40282347e+38", f32::MAX),
        ("-3.40282347e+38", f32::MIN),
        ("1.401298464324817e-45", f32::from_bits(1)),
        ("1e-40", 1e-40),
        ("16777217.0", 16777216.0),
        ("1.17549435e-38", f32::MIN_POSITIVE),
        ("0.5f", 0.5),
        ("3", 3.0),
        ("0x1p-3", 0.125),
        ("1e10", 1e10),
        ("123456.789", 123456.789),
    ];
    for (i, (e, v)) in f32_vals.iter().enumerate() {
        t.push(f32c(&format!("F32_LIT_{i}"), "literal", e, *v));
    }
    for (i, (e, v)) in [("0.0lf", 0.0f64), ("-0.0lf", -0.0), ("0.1lf", 0.1), ("1.7976931348623157e308lf", f64::MAX), ("5e-324lf", 5e-324), ("-2.5lf", -2.5), ("16777217.0lf", 16777217.0), ("1.0lf", 1.0), ("3.14159lf", 3.14159), ("2.71828lf", 2.71828), ("6.2831lf", 6.2831), ("1.41421lf", 1.41421)].iter().enumerate() {
        let name = format!("F64_LIT_{i}");
        t.push(ConstCase { name: name.clone(), decl: format!("const {name}: f64 = {e};"), expect: Some((vec!["f64"], Bits::F64(v.to_bits()))), form: "literal" });
    }
    for (i, (e, v)) in [("0li", 0i64), ("-1li", -1), ("9223372036854775807li", i64::MAX), ("4294967296li", 4294967296)].iter().enumerate() {
        let name = format!("I64_LIT_{i}");
        t.push(ConstCase { name: name.clone(), decl: format!("const {name}: i64 = {e};"), expect: Some((vec!["i64"], Bits::Int(*v as i128))), form: "literal" });
    }
    for (i, (e, v)) in [("0lu", 0u64), ("18446744073709551615lu", u64::MAX), ("4294967296lu", 4294967296)].iter().enumerate() {
        let name = format!("U64_LIT_{i}");
        t.push(ConstCase { name: name.clone(), decl: format!("const {name}: u64 = {e};"), expect: Some((vec!["u64"], Bits::Int(*v as i128))), form: "literal" });
    }
    for (i, v) in [true, false].iter().enumerate() {
        let name = format!("BOOL_LIT_{i}");
        t.push(ConstCase { name: name.clone(), decl: format!("const {name}: bool = {v};"), expect: Some((vec!["bool"], Bits::Bool(*v))), form: "literal" });
    }
    // ---- decimal lengths: every digit count of each integer type, both signs, values with zero digit groups
    {
        let mut k = 0usize;
        let mut p: i64 = 1;
        for _digits in 1..=10 {
            for v in [p, p * 10 - 1, -p, -(p * 10 - 1)] {
                if v >= i32::MIN as i64 && v <= i32::MAX as i64 {
                    t.push(i32c(&format!("DEC_I32_{k}"), "decimal-length", &format!("{v}"), v as i32));
                    k += 1;
                }
            }
            if p <= u32::MAX as i64 {
                t.push(u32c(&format!("DEC_U32_{k}"), "decimal-length", &format!("{p}u"), p as u32));
                k += 1;
            }
            p *= 10;
        }
        for v in [16000i64, 16016, 1048576, 1000001, -16000, -1000000007] {
            t.push(i32c(&format!("DEC_I32_{k}"), "decimal-length", &format!("{v}"), v as i32));
            k += 1;
        }
        for v in [-123456i64, -123456789012, 100000000000000, -999999999999999999, 1000000000000000000] {
            let name = format!("DEC_I64_{k}");
            t.push(ConstCase { name: name.clone(), decl: format!("const {name}: i64 = {v}li;"), expect: Some((vec!["i64"], Bits::Int(v as i128))), form: "decimal-length" });
            k += 1;
        }
        for (e, v) in [("16000.0", 16000.0f32), ("1000000.0", 1000000.0), ("-123456.0", -123456.0), ("0.001", 0.001), ("1e10", 1e10), ("-1e-10", -1e-10)] {
            t.push(f32c(&format!("DEC_F32_{k}"), "decimal-length", e, v));
            k += 1;
        }
    }
    // ---- inferred types (abstract literals): either the concretised or the abstract-wide Rust type
    t.push(ConstCase { name: "INF_INT".into(), decl: "const INF_INT = 4;".into(), expect: Some((vec!["i32", "i64"], Bits::Int(4))), form: "inferred" });
    t.push(ConstCase { name: "INF_NEG".into(), decl: "const INF_NEG = -123456;".into(), expect: Some((vec!["i32", "i64"], Bits::Int(-123456))), form: "inferred" });
    t.push(ConstCase { name: "INF_FLOAT".into(), decl: "const INF_FLOAT = 1.5;".into(), expect: Some((vec!["f32", "f64"], Bits::F32(1.5f32.to_bits()))), form: "inferred" });
    t.push(ConstCase { name: "INF_BOOL".into(), decl: "const INF_BOOL = true;".into(), expect: Some((vec!["bool"], Bits::Bool(true))), form: "inferred" });
    t.push(ConstCase { name: "INF_U".into(), decl: "const INF_U = 3u;".into(), expect: Some((vec!["u32"], Bits::Int(3))), form: "inferred" });
    t.push(ConstCase { name: "INF_F".into(), decl: "const INF_F = 2.5f;".into(), expect: Some((vec!["f32"], Bits::F32(2.5f32.to_bits()))), form: "inferred" });
    // ---- arithmetic
    t.push(i32c("ARITH_I", "arithmetic", "1 + 2 * 3", 7));
    t.push(i32c("ARITH_NEG", "arithmetic", "-(4 - 10) / 2", 3));
    t.push(i32c("ARITH_SHIFT", "arithmetic", "1 << 4u", 16));
    t.push(u32c("ARITH_U", "arithmetic", "(5u + 7u) % 5u", 2));
    t.push(f32c("ARITH_F", "arithmetic", "0.5 * 4.0 - 0.25", 1.75));
    t.push(f32c("ARITH_F_NEGZERO", "arithmetic", "-0.0 * 1.0", -0.0));
    t.push(f32c("ARITH_BUILTIN", "arithmetic", "max(1.5, 2.5)", 2.5));
    // ---- identifier styles ("of the same name"): lower case, camelCase, leading k, digits, non-ASCII
    t.push(u32c("maxLights", "name-style", "16u", 16));
    t.push(f32c("pi_over_2", "name-style", "1.5707964", 1.5707964));
    t.push(f32c("kEpsilon", "name-style", "0.00001", 0.00001));
    t.push(i32c("lod2Bias", "name-style", "-3", -3));
    t.push(f32c("\u{394}t", "name-style", "0.5", 0.5));
    t.push(ConstCase { name: "useFog".into(), decl: "const useFog = false;".into(), expect: Some((vec!["bool"], Bits::Bool(false))), form: "name-style" });
    // ---- values that are truncated / rounded spellings of well-known constants (a value is a value: no substitution)
    t.push(f32c("APPROX_PI5", "approx", "3.14159", 3.14159));
    t.push(f32c("APPROX_PI2", "approx", "3.14", 3.14));
    t.push(f32c("APPROX_PI4", "approx", "3.1416", 3.1416));
    t.push(f32c("APPROX_E", "approx", "2.718", 2.718));
    t.push(f32c("APPROX_TAU", "approx", "6.28", 6.28));
    t.push(f32c("APPROX_SQRT1_2", "approx", "0.7071", 0.7071));
    t.push(f32c("APPROX_SQRT2", "approx", "1.414", 1.414));
    t.push(f32c("APPROX_LN2", "approx", "0.693", 0.693));
    t.push(f32c("APPROX_LN10", "approx", "2.302585", 2.302585));
    t.push(f32c("APPROX_FRAC_PI_2", "approx", "1.5707", 1.5707));
    t.push(f32c("APPROX_FRAC_1_PI", "approx", "0.3183", 0.3183));
    t.push(f32c("NEG_APPROX_PI", "approx", "-3.14159", -3.14159));
    t.push(f32c("EXACT_PI_F32", "approx", "3.14159265358979", std::f32::consts::PI));
    // ---- scalar types written through `alias` declarations (explicit type, zero value, conversion)
    t.push(ConstCase { name: "AL_F32".into(), decl: "alias RealA = f32;\nconst AL_F32: RealA = 2.5;".into(), expect: Some((vec!["f32"], Bits::F32(2.5f32.to_bits()))), form: "alias" });
    t.push(ConstCase { name: "AL_I32".into(), decl: "alias IndexA = i32;\nconst AL_I32: IndexA = -4;".into(), expect: Some((vec!["i32"], Bits::Int(-4))), form: "alias" });
    t.push(ConstCase { name: "AL_U32".into(), decl: "alias CountA = u32;\nconst AL_U32: CountA = 7u;".into(), expect: Some((vec!["u32"], Bits::Int(7))), form: "alias" });
    t.push(ConstCase { name: "AL_BOOL".into(), decl: "alias FlagA = bool;\nconst AL_BOOL: FlagA = true;".into(), expect: Some((vec!["bool"], Bits::Bool(true))), form: "alias" });
    t.push(ConstCase { name: "AL_ZERO".into(), decl: "alias RealB = f32;\nconst AL_ZERO = RealB();".into(), expect: Some((vec!["f32"], Bits::F32(0))), form: "alias" });
    t.push(ConstCase { name: "AL_CONV".into(), decl: "alias RealC = f32;\nconst AL_CONV = RealC(0.5);".into(), expect: Some((vec!["f32"], Bits::F32(0.5f32.to_bits()))), form: "alias" });
    t.push(ConstCase { name: "AL_F64".into(), decl: "alias DoubleA = f64;\nconst AL_F64: DoubleA = 1.25lf;".into(), expect: Some((vec!["f64"], Bits::F64(1.25f64.to_bits()))), form: "alias" });
    // ---- names that extend (but are not) names the generator introduces itself
    t.push(u32c("SOURCE_COUNT", "name-style", "3u", 3));
    t.push(i32c("SOURCES", "name-style", "-2", -2));
    t.push(f32c("ENTRY_MAIN_TAPS", "name-style", "9.0", 9.0));
    t.push(u32c("ENTRY_VS_MAIN2", "name-style", "5u", 5));
    t.push(u32c("MAIN_WORKGROUP_SIZE_X", "name-style", "8u", 8));
    t.push(u32c("PUSH_CONSTANT_STAGES_USED", "name-style", "1u", 1));
    t.push(i32c("LAYOUT_DESCRIPTOR0_SLOTS", "name-style", "4", 4));
    t.push(f32c("BindGroup0Scale", "name-style", "0.25", 0.25));
    // ---- references
    t.push(i32c("REF_BASE", "literal", "-5", -5));
    t.push(ConstCase { name: "REF_COPY".into(), decl: "const REF_COPY = REF_BASE;".into(), expect: Some((vec!["i32"], Bits::Int(-5))), form: "reference" });
    t.push(i32c("REF_EXPR", "reference", "REF_BASE * 2 + 1", -9));
    t.push(f32c("REF_F_BASE", "literal", "0.1", 0.1));
    t.push(f32c("REF_F", "reference", "REF_F_BASE * 2.0", 0.1f32 * 2.0));
    // ---- zero values
    t.push(f32c("ZERO_F32", "zero-value", "f32()", 0.0));
    t.push(i32c("ZERO_I32", "zero-value", "i32()", 0));
    t.push(u32c("ZERO_U32", "zero-value", "u32()", 0));
    t.push(ConstCase { name: "ZERO_BOOL".into(), decl: "const ZERO_BOOL: bool = bool();".into(), expect: Some((vec!["bool"], Bits::Bool(false))), form: "zero-value" });
    t.push(ConstCase { name: "ZERO_F64".into(), decl: "const ZERO_F64: f64 = f64();".into(), expect: Some((vec!["f64"], Bits::F64(0))), form: "zero-value" });
    t.push(ConstCase { name: "ZERO_F64_INFERRED".into(), decl: "const ZERO_F64_INFERRED = f64();".into(), expect: Some((vec!["f64"], Bits::F64(0))), form: "zero-value" });
    t.push(ConstCase { name: "ZERO_I64".into(), decl: "const ZERO_I64: i64 = i64();".into(), expect: Some((vec!["i64"], Bits::Int(0))), form: "zero-value" });
    t.push(ConstCase { name: "ZERO_U64".into(), decl: "const ZERO_U64: u64 = u64();".into(), expect: Some((vec!["u64"], Bits::Int(0))), form: "zero-value" });
    t.push(ConstCase { name: "ZERO_INFERRED".into(), decl: "const ZERO_INFERRED = f32();".into(), expect: Some((vec!["f32"], Bits::F32(0))), form: "zero-value" });
    // ---- conversions
    t.push(f32c("CONV_F_FROM_I", "conversion", "f32(3)", 3.0));
    t.push(u32c("CONV_U_FROM_F", "conversion", "u32(3.7f)", 3));
    t.push(i32c("CONV_I_FROM_F", "conversion", "i32(-2.5f)", -2));
    t.push(i32c("CONV_I_FROM_U", "conversion", "i32(7u)", 7));
    t.push(f32c("CONV_F_FROM_BOOL", "conversion", "f32(true)", 1.0));
    t.push(ConstCase { name: "CONV_BOOL".into(), decl: "const CONV_BOOL: bool = bool(2);".into(), expect: Some((vec!["bool"], Bits::Bool(true))), form: "conversion" });
    // ---- comparisons
    t.push(ConstCase { name: "CMP_LT".into(), decl: "const CMP_LT: bool = 1 < 2;".into(), expect: Some((vec!["bool"], Bits::Bool(true))), form: "comparison" });
    t.push(ConstCase { name: "CMP_AND".into(), decl: "const CMP_AND = (1.5 > 2.0) || !(3u == 3u);".into(), expect: Some((vec!["bool"], Bits::Bool(false))), form: "comparison" });
    // ---- non-scalar constants: nothing must be emitted
    t.push(ConstCase { name: "NS_VEC".into(), decl: "const NS_VEC = vec3<f32>(1.0, 2.0, 3.0);".into(), expect: None, form: "non-scalar" });
    t.push(ConstCase { name: "NS_ARR".into(), decl: "const NS_ARR = array<i32, 2>(1, 2);".into(), expect: None, form: "non-scalar" });
    t.push(ConstCase { name: "NS_MAT".into(), decl: "const NS_MAT = mat2x2<f32>(1.0, 0.0, 0.0, 1.0);".into(), expect: None, form: "non-scalar" });
    t.push(ConstCase { name: "NS_STRUCT".into(), decl: "struct NsS { a: f32, b: i32 }\nconst NS_STRUCT = NsS(1.0, 2);".into(), expect: None, form: "non-scalar" });
    t.push(ConstCase { name: "NS_ZERO_VEC".into(), decl: "const NS_ZERO_VEC = vec2<u32>();".into(), expect: None, form: "non-scalar" });
    t.push(ConstCase { name: "NS_ZERO_VEC3F".into(), decl: "const NS_ZERO_VEC3F = vec3<f32>();".into(), expect: None, form: "non-scalar" });
    t.push(ConstCase { name: "NS_ZERO_VEC4B".into(), decl: "const NS_ZERO_VEC4B = vec4<bool>();".into(), expect: None, form: "non-scalar" });
    t.push(ConstCase { name: "NS_ZERO_MAT".into(), decl: "const NS_ZERO_MAT = mat2x2<f32>();".into(), expect: None, form: "non-scalar" });
    t.push(ConstCase { name: "NS_ZERO_ARR".into(), decl: "const NS_ZERO_ARR = array<f32, 3>();".into(), expect: None, form: "non-scalar" });
    t.push(ConstCase { name: "NS_ZERO_STRUCT".into(), decl: "struct NsZ { a: f32 }\nconst NS_ZERO_STRUCT = NsZ();".into(), expect: None, form: "non-scalar" });
    t.push(ConstCase { name: "NS_SPLAT".into(), decl: "const NS_SPLAT = vec4<f32>(0.5);".into(), expect: None, form: "non-scalar" });
    // every matrix shape (columns x rows), vectors of every scalar type, nested constructors, arrays of vectors / matrices
    for c in 2..=4usize {
        for r in 2..=4usize {
            let args: Vec<String> = (0..c * r).map(|i| format!("{}.5", i)).collect();
            t.push(ConstCase { name: format!("NS_MAT{c}X{r}"), decl: format!("const NS_MAT{c}X{r} = mat{c}x{r}<f32>({});", args.join(", ")), expect: None, form: "non-scalar" });
        }
    }
    t.push(ConstCase { name: "NS_MAT_COLS".into(), decl: "const NS_MAT_COLS = mat3x2<f32>(vec2<f32>(1.0, 2.0), vec2<f32>(3.0, 4.0), vec2<f32>(5.0, 6.0));".into(), expect: None, form: "non-scalar" });
    t.push(ConstCase { name: "NS_VEC_I".into(), decl: "const NS_VEC_I = vec2<i32>(-1, 2);".into(), expect: None, form: "non-scalar" });
    t.push(ConstCase { name: "NS_VEC_U".into(), decl: "const NS_VEC_U = vec4<u32>(1u, 2u, 3u, 4u);".into(), expect: None, form: "non-scalar" });
    t.push(ConstCase { name: "NS_VEC_B".into(), decl: "const NS_VEC_B = vec3<bool>(true, false, true);".into(), expect: None, form: "non-scalar" });
    t.push(ConstCase { name: "NS_VEC_NESTED".into(), decl: "const NS_VEC_NESTED = vec4<f32>(vec3<f32>(1.0, 2.0, 3.0), 4.0);".into(), expect: None, form: "non-scalar" });
    t.push(ConstCase { name: "NS_ARR_VEC".into(), decl: "const NS_ARR_VEC = array<vec2<f32>, 2>(vec2<f32>(1.0, 2.0), vec2<f32>(3.0, 4.0));".into(), expect: None, form: "non-scalar" });
    t.push(ConstCase { name: "NS_ARR_MAT".into(), decl: "const NS_ARR_MAT = array<mat2x3<f32>, 1>(mat2x3<f32>(1.0, 2.0, 3.0, 4.0, 5.0, 6.0));".into(), expect: None, form: "non-scalar" });
    t
}

/// naga's own evaluation of the constant (the third leg of the three-way rule).
fn naga_value(module: &naga::Module, name: &str) -> Option<Bits> {
    let (_, c) = module.constants.iter().find(|(_, c)| c.name.as_deref() == Some(name))?;
    match &module.global_expressions[c.init] {
        naga::Expression::Literal(l) => Some(match l {
            naga::Literal::F64(v) => Bits::F64(v.to_bits()),
            naga::Literal::F32(v) => Bits::F32(v.to_bits()),
            naga::Literal::U32(v) => Bits::Int(*v as i128),
            naga::Literal::I32(v) => Bits::Int(*v as i128),
            naga::Literal::U64(v) => Bits::Int(*v as i128),
            naga::Literal::I64(v) => Bits::Int(*v as i128),
            naga::Literal::Bool(v) => Bits::Bool(*v),
            naga::Literal::AbstractInt(v) => Bits::Int(*v as i128),
            naga::Literal::AbstractFloat(v) => Bits::F64(v.to_bits()),
        }),
        naga::Expression::ZeroValue(ty) => match &module.types[*ty].inner {
            naga::TypeInner::Scalar(s) => Some(match (s.kind, s.width) {
                (naga::ScalarKind::Float, 4) => Bits::F32(0),
                (naga::ScalarKind::Float, 8) => Bits::F64(0),
                (naga::ScalarKind::Bool, _) => Bits::Bool(false),
                _ => Bits::Int(0),
            }),
            _ => None,
        },
        _ => None,
    }
}

/// Reads `pub const NAME: TY = VALUE;` through omodel: (type, bits).
pub fn read_const(c: &omodel::ConstInfo) -> Result<(String, Bits), String> {
    fn num(v: &Val, neg: bool, ty: &str) -> Result<Bits, String> {
        match v {
            Val::Unary(op, inner) if op == "-" => num(inner, !neg, ty),
            Val::Bool(b) => Ok(Bits::Bool(*b)),
            Val::Int(i, suffix) => {
                let t = if suffix.is_empty() { ty } else { suffix.as_str() };
                match t {
                    "f32" => {
                        let x = *i as f32;
                        Ok(Bits::F32(if neg { -x } else { x }.to_bits()))
                    }
                    "f64" => {
                        let x = *i as f64;
                        Ok(Bits::F64(if neg { -x } else { x }.to_bits()))
                    }
                    _ => Ok(Bits::Int(if neg { -*i } else { *i })),
                }
            }
            Val::Float(_, suffix, digits) => {
                let t = if suffix.is_empty() { ty } else { suffix.as_str() };
                match t {
                    "f32" => {
                        let x: f32 = digits.parse().map_err(|_| format!("float digits {digits}"))?;
                        Ok(Bits::F32(if neg { -x } else { x }.to_bits()))
                    }
                    "f64" => {
                        let x: f64 = digits.parse().map_err(|_| format!("float digits {digits}"))?;
                        Ok(Bits::F64(if neg { -x } else { x }.to_bits()))
                    }
                    other => Err(format!("float literal with type {other}")),
                }
            }
            // paths to the standard library's float constants evaluate to their documented values
            Val::Path(p) if p.len() == 4 && p[0] == "std" && p[2] == "consts" && (p[1] == "f32" || p[1] == "f64") => {
                use std::f64::consts as c64;
                let table: [(&str, f64, f32); 12] = [
                    ("PI", c64::PI, std::f32::consts::PI), ("E", c64::E, std::f32::consts::E), ("TAU", c64::TAU, std::f32::consts::TAU),
                    ("SQRT_2", c64::SQRT_2, std::f32::consts::SQRT_2), ("FRAC_1_SQRT_2", c64::FRAC_1_SQRT_2, std::f32::consts::FRAC_1_SQRT_2),
                    ("FRAC_PI_2", c64::FRAC_PI_2, std::f32::consts::FRAC_PI_2), ("FRAC_PI_4", c64::FRAC_PI_4, std::f32::consts::FRAC_PI_4),
                    ("FRAC_1_PI", c64::FRAC_1_PI, std::f32::consts::FRAC_1_PI), ("LN_2", c64::LN_2, std::f32::consts::LN_2), ("LN_10", c64::LN_10, std::f32::consts::LN_10),
                    ("FRAC_PI_3", c64::FRAC_PI_3, std::f32::consts::FRAC_PI_3), ("FRAC_2_PI", c64::FRAC_2_PI, std::f32::consts::FRAC_2_PI),
                ];
                match table.iter().find(|(n, _, _)| *n == p[3]) {
                    Some((_, d, f)) if p[1] == "f64" => Ok(Bits::F64(if neg { -*d } else { *d }.to_bits())),
                    Some((_, _, f)) => Ok(Bits::F32(if neg { -*f } else { *f }.to_bits())),
                    None => Err(format!("unreadable constant value {v:?}")),
                }
            }
            other => Err(format!("unreadable constant value {other:?}")),
        }
    }
    Ok((c.ty.clone(), num(&c.val, false, &c.ty)?))
}

fn literal_suffix_ok(c: &omodel::ConstInfo) -> bool {
    fn suffix(v: &Val) -> Option<String> {
        match v {
            Val::Unary(_, i) => suffix(i),
            Val::Int(_, s) => Some(s.clone()),
            Val::Float(_, s, _) => Some(s.clone()),
            _ => None,
        }
    }
    match suffix(&c.val) {
        Some(s) => s.is_empty() || s == c.ty,
        None => true,
    }
}

pub fn module_for(cases: &[&ConstCase]) -> String {
    module_for_mix(cases, "C")
}

/// `mix`: which entry points follow the constants (C compute, V vertex, F fragment; empty = none at all;
/// R = resources, a struct and an override declared between the constants as well)
pub fn module_for_mix(cases: &[&ConstCase], mix: &str) -> String {
    let mut s = String::new();
    for (i, c) in cases.iter().enumerate() {
        if mix.contains('R') && i == cases.len() / 2 {
            s.push_str("struct MidS { a: vec4<f32>, b: f32 };\n@group(0) @binding(0) var<uniform> mid_u: MidS;\noverride mid_ov: f32 = 1.0;\nvar<private> mid_p: i32;\nvar<push_constant> mid_pc: vec4<f32>;\n");
        }
        s.push_str(&c.decl);
        s.push('\n');
    }
    if mix.contains('V') {
        s.push_str("@vertex fn vs_main() -> @builtin(position) vec4<f32> {\n    return vec4<f32>(0.0);\n}\n");
    }
    if mix.contains('F') {
        s.push_str("@fragment fn fs_main() -> @location(0) vec4<f32> {\n    return vec4<f32>(0.0);\n}\n");
    }
    if mix.contains('C') {
        s.push_str("@compute @workgroup_size(1) fn main() {\n}\n");
    }
    s
}

pub fn run(tier: &str) -> i32 {
    let mut rep = Report::new("C15", tier);
    let all = table();
    // universe: constants naga accepts (each tried alone together with the ones it refers to)
    let mut accepted: Vec<&ConstCase> = vec![];
    for c in &all {
        let deps: Vec<&ConstCase> = all.iter().filter(|d| d.name != c.name && c.decl.contains(&d.name) && d.name.starts_with("REF_")).collect();
        let mut v = deps.clone();
        v.push(c);
        match naga_check(&module_for(&v)) {
            Ok(_) => accepted.push(c),
            Err(e) => rep.filtered(&format!("naga rejects the declaration of {}: {}", c.name, e.lines().next().unwrap_or("").chars().take(60).collect::<String>())),
        }
    }
    // modules: all accepted constants together, each form alone, and every constant alone (order / interaction independence)
    let mut modules: Vec<(String, Vec<&ConstCase>)> = vec![("all".into(), accepted.clone())];
    let forms: Vec<&str> = { let mut f: Vec<&str> = accepted.iter().map(|c| c.form).collect(); f.sort(); f.dedup(); f };
    for f in forms {
        let mut v: Vec<&ConstCase> = accepted.iter().copied().filter(|c| c.form == f || (f == "reference" && c.name.starts_with("REF_"))).collect();
        v.reverse();
        modules.push((format!("form={f}"), v));
    }
    for c in &accepted {
        let mut v: Vec<&ConstCase> = accepted.iter().copied().filter(|d| d.name != c.name && c.decl.contains(&d.name) && d.name.starts_with("REF_")).collect();
        v.push(c);
        modules.push((format!("single={}", c.name), v));
    }
    // declaration order: all constants reversed (non-scalar ones first), and every permutation of a mixed set of
    // three scalar and two non-scalar constants (a skipped constant must not disturb its neighbours)
    {
        let mut v = accepted.clone();
        v.reverse();
        modules.push(("all-reversed".into(), v));
        let mut alt: Vec<&ConstCase> = vec![];
        let (ns, sc): (Vec<&ConstCase>, Vec<&ConstCase>) = accepted.iter().copied().partition(|c| c.expect.is_none());
        for (i, c) in sc.iter().enumerate() {
            if !ns.is_empty() && i % 3 == 0 {
                let n = ns[(i / 3) % ns.len()];
                if !alt.iter().any(|a| a.name == n.name) {
                    alt.push(n);
                }
            }
            alt.push(c);
        }
        // references must follow their base in WGSL? no: module-scope declarations may be used before they are declared
        modules.push(("all-interleaved".into(), alt));
        let pick = |name: &str| accepted.iter().copied().find(|c| c.name == name);
        let set: Vec<&ConstCase> = ["maxLights", "NS_VEC", "ARITH_F_NEGZERO", "NS_ZERO_ARR", "CMP_LT"].iter().filter_map(|n| pick(n)).collect();
        if set.len() != 5 {
            machinery("C15: the mixed permutation set is incomplete");
        }
        for perm in wgslgen::permutations(set.len()) {
            let v: Vec<&ConstCase> = perm.iter().map(|i| set[*i]).collect();
            modules.push((format!("perm={perm:?}"), v));
        }
    }
    // the constants must not depend on what else the module declares or on the write options: the whole-table modules
    // are repeated with other entry-point mixes / surrounding declarations and under other option sets
    let full = Config { bytemuck_vertex: true, bytemuck_host: true, encase: true, serde: true, repr: Repr::Glam, ..Config::default() };
    let variants: Vec<(&str, Config)> = vec![
        ("", Config::default()),
        ("VF", Config::default()),
        ("RVFC", Config { encase: true, ..Config::default() }),
        ("C", full),
        ("RC", Config { encase: true, serde: true, repr: Repr::Nalgebra, ..Config::default() }),
        ("VFC", Config { validate: Validate::All, ..Config::default() }),
    ];
    let mut modules: Vec<(String, Vec<&ConstCase>, &str, Config)> = modules.into_iter().map(|(k, v)| (k, v, "C", Config::default())).collect();
    for base in ["all", "all-reversed", "all-interleaved"] {
        let cases = modules.iter().find(|m| m.0 == base).map(|m| m.1.clone()).unwrap();
        for (mix, c) in &variants {
            modules.push((format!("{base}|mix={mix}|{}", c.key()), cases.clone(), mix, *c));
        }
    }
    let mut probe_cases = vec![];
    let mut probe_index: BTreeMap<String, usize> = BTreeMap::new();
    for (mi, (mkey, cases, mix, cfg)) in modules.iter().enumerate() {
        let src = module_for_mix(cases, mix);
        rep.states += 1;
        rep.transitions += cases.len() as u64;
        rep.evaluations += 1;
        let (module, _) = match naga_check(&src) {
            Ok(x) => x,
            Err(e) => machinery(&format!("C15 module {mkey} rejected by naga although each constant is accepted alone: {e}")),
        };
        let text = match generate(&src, &cfg) {
            Outcome::Ok(t) => t,
            other => {
                rep.generation_failed(format!("{mkey}|module"), &other.class(), &src, cfg);
                continue;
            }
        };
        let m = omodel::parse(&text).unwrap_or_else(|e| machinery(&format!("C15: {e}")));
        let detail = |obs: String| json!({"wgsl": src, "config": cfg.key(), "observed": obs});
        let mut probe_body = String::new();
        for c in cases {
            let case = format!("{mkey}|{}", c.name);
            let found: Vec<&omodel::ConstInfo> = m.top.consts.iter().filter(|k| k.name == c.name).collect();
            match &c.expect {
                None => {
                    if !found.is_empty() {
                        rep.violation(case, format!("non-scalar constant exported as `{}: {}`", found[0].name, found[0].ty), detail(format!("{:?}", found[0].val)));
                    }
                    rep.outcomes.insert("non-scalar skipped".into());
                }
                Some((types, bits)) => {
                    // three-way: expectation vs naga's evaluation
                    match naga_value(&module, &c.name) {
                        Some(nv) => {
                            let same = match (&nv, bits) {
                                (Bits::F64(a), Bits::F32(b)) => (f64::from_bits(*a) as f32).to_bits() == *b,
                                (a, b) => a == b,
                            };
                            if !same {
                                machinery(&format!("C15 oracle self-disagreement for {}: expected {bits:?}, naga evaluates {nv:?}", c.name));
                            }
                        }
                        None => machinery(&format!("C15: naga has no scalar value for {}", c.name)),
                    }
                    if found.len() != 1 {
                        rep.violation(case, format!("scalar constant exported {} times", found.len()), detail(String::new()));
                        continue;
                    }
                    let k = found[0];
                    rep.nontrivial.insert(hash64(&format!("{mkey}{}", c.name)));
                    if !k.is_pub {
                        rep.violation(case.clone(), "constant is not public".to_string(), detail(String::new()));
                    }
                    match read_const(k) {
                        Ok((ty, got)) => {
                            rep.outcomes.insert(format!("{ty}"));
                            if !types.contains(&ty.as_str()) {
                                rep.violation(case.clone(), format!("Rust type `{ty}` for a WGSL constant of type {types:?}"), detail(format!("{:?}", k.val)));
                            }
                            if !literal_suffix_ok(k) {
                                rep.violation(case.clone(), format!("literal suffix does not match the declared Rust type `{ty}` (does not compile)"), detail(format!("{:?}", k.val)));
                            }
                            let same = match (&got, bits) {
                                (Bits::F64(a), Bits::F32(b)) => f64::from_bits(*a) == f32::from_bits(*b) as f64 && (f64::from_bits(*a).is_sign_negative() == f32::from_bits(*b).is_sign_negative()),
                                (a, b) => a == b,
                            };
                            if !same {
                                rep.violation(case.clone(), format!("value {got:?} differs from the WGSL value {bits:?}"), detail(format!("{:?}", k.val)));
                            }
                        }
                        // the initialiser is neither a literal nor a path to a standard constant: whatever it is, it is not
                        // the WGSL value written out (rustc decides below whether it is anything at all)
                        Err(e) => rep.violation(case.clone(), format!("initialiser is not a literal of the WGSL value: {}", e.chars().take(90).collect::<String>()), detail(format!("{:?}", k.val))),
                    }
                    // rustc evaluation
                    let n = &c.name;
                    let expr = match bits {
                        Bits::Bool(_) => format!("(generated::{n}) as u64"),
                        Bits::Int(_) => format!("(generated::{n}) as i128 as u64"),
                        Bits::F32(_) | Bits::F64(_) => format!("(generated::{n}).to_bits() as u64"),
                    };
                    probe_body.push_str(&format!("    out.push(format!(\"{{{{\\\"op\\\":\\\"const\\\",\\\"name\\\":\\\"{n}\\\",\\\"ty\\\":{{}},\\\"bits\\\":\\\"{{}}\\\"}}}}\", jstr(std::any::type_name_of_val(&generated::{n})), {expr}));\n"));
                }
            }
        }
        if *cfg == Config::default() && (mi == 0 || !rep.thorough() && mkey.starts_with("form=") || rep.thorough()) {
            let name = format!("c_{mi:04}");
            probe_index.insert(name.clone(), mi);
            probe_cases.push(ProbeCase { name, generated: text.clone(), probe_body, probe_items: String::new(), files: vec![] });
        }
        if mi < 3 {
            rep.sample(json!({"module": mkey, "wgsl": src}));
        }
    }
    let results = probe::run_batch("C15", &probe_cases, true);
    for cr in &results {
        let mi = probe_index[&cr.name];
        let (mkey, cases, mix, cfg) = &modules[mi];
        let src = module_for_mix(cases, mix);
        match &cr.check {
            Verdict::Accepted => {}
            Verdict::Rejected(e) => {
                rep.violation(format!("{mkey}|compile"), format!("rustc rejects the exported constants: {} {}", e[0].0, e[0].1.chars().take(80).collect::<String>()), json!({"wgsl": src, "config": cfg.key(), "observed": format!("{e:?}")}));
                continue;
            }
            Verdict::ProbeMismatch(e) => {
                rep.violation(format!("{mkey}|compile"), format!("an exported constant cannot be used as its WGSL type: {} {}", e[0].0, e[0].1.chars().take(80).collect::<String>()), json!({"wgsl": src, "config": cfg.key(), "observed": format!("{e:?}")}));
                continue;
            }
        }
        for rec in cr.records.iter().filter(|r| r["op"] == "const") {
            let n = rec["name"].as_str().unwrap();
            let c = cases.iter().find(|c| c.name == n).unwrap();
            let (types, bits) = c.expect.as_ref().unwrap();
            let ty = rec["ty"].as_str().unwrap();
            let got: u64 = rec["bits"].as_str().unwrap().parse().unwrap();
            rep.traces_validated += 1;
            let want: Vec<u64> = match bits {
                Bits::Bool(b) => vec![*b as u64],
                Bits::Int(i) => vec![*i as u64],
                Bits::F32(b) => vec![*b as u64, (f32::from_bits(*b) as f64).to_bits()],
                Bits::F64(b) => vec![*b],
            };
            let ok_val = match bits {
                Bits::F32(_) => (ty == "f32" && got == want[0]) || (ty == "f64" && got == want[1]),
                _ => got == want[0],
            };
            if !types.contains(&ty) {
                rep.violation(format!("{mkey}|{n}"), format!("exec: rustc types the constant as `{ty}`, WGSL type needs {types:?}"), json!({"wgsl": src, "config": cfg.key()}));
            }
            if !ok_val {
                rep.violation(format!("{mkey}|{n}"), format!("exec: rustc evaluates the constant to bits {got:#x}, WGSL value is {bits:?}"), json!({"wgsl": src, "config": cfg.key()}));
            }
        }
    }
    rep.rule = format!("{} scalar constant declarations over declared type {{i32,u32,f32,f64,i64,u64,bool,inferred}} x values {{0, +-1, min, max, +-0.0, smallest subnormal, f32::MAX, 0.1, 16777217, hex forms}} x form {{literal, arithmetic, reference to another constant, zero-value constructor, conversion, comparison}}, and 6 non-scalar constants; explored as one module with everything, one module per form (reverse order) and one module per constant. Oracle: value by construction (cross-checked with naga's constant evaluator per constant), read through omodel on every module and evaluated by rustc (type_name_of_val, to_bits) on the compiled modules.", all.len());
    rep.finish()
}
