//! C17 — parse and validation failures come back as errors; validation only gates.
//! All single edits (truncation, deletion, adjacent swap, 10 injects at every position; token
//! deletion / duplication / swap) of a corpus of base shaders, a menu of parsable-but-invalid
//! modules, x validation {off, all, empty, single capabilities}. Differential against naga called
//! directly.
use crate::common::*;
use serde_json::json;
use wgsl_to_wgpu::{CreateModuleError, ValidationOptions, WgslCapabilities, WriteOptions};

pub const BASES: [(&str, &str); 8] = [
    ("tiny", "@group(0) @binding(0) var<uniform> u: vec4<f32>;\n@fragment fn fs() -> @location(0) vec4<f32> { return u; }\n"),
    (
        "vertex",
        "struct VIn { @location(0) pos: vec3<f32>, @location(1) uv: vec2<f32>, @builtin(vertex_index) vi: u32 };\nstruct VOut { @builtin(position) p: vec4<f32>, @location(0) uv: vec2<f32> };\n@vertex fn vs_main(in: VIn) -> VOut { var o: VOut; o.p = vec4<f32>(in.pos, 1.0); o.uv = in.uv; return o; }\n",
    ),
    (
        "compute",
        "struct Data { n: u32, items: array<vec4<f32>> };\n@group(0) @binding(0) var<storage, read_write> data: Data;\nconst WG: u32 = 8u;\n@compute @workgroup_size(WG, 2) fn cs_main(@builtin(global_invocation_id) id: vec3<u32>) { if id.x < data.n { data.items[id.x] = vec4<f32>(1.0); } }\n",
    ),
    (
        "textures",
        "@group(0) @binding(0) var t: texture_2d<f32>;\n@group(0) @binding(1) var s: sampler;\n@group(1) @binding(0) var st: texture_storage_2d<rgba8unorm, write>;\n@group(1) @binding(3) var d: texture_depth_2d;\n@group(1) @binding(2) var sc: sampler_comparison;\n@fragment fn fs_main(@location(0) uv: vec2<f32>) -> @location(0) vec4<f32> { textureStore(st, vec2<i32>(0), vec4<f32>(0.0)); return textureSample(t, s, uv) * textureSampleCompare(d, sc, uv, 0.5); }\n",
    ),
    (
        "overrides",
        "override scale: f32 = 2.0;\n@id(3) override flag: bool;\noverride count: u32;\nconst PI: f32 = 3.14159;\nconst N = 4;\nvar<push_constant> pc: vec4<f32>;\n@vertex fn vs() -> @builtin(position) vec4<f32> { if flag { return pc * scale; } return pc * f32(count) * PI; }\n",
    ),
    (
        "helpers",
        "struct U { a: vec3<f32>, b: f32, m: mat4x4<f32> };\n@group(0) @binding(0) var<uniform> u: U;\nfn h1() -> f32 { return u.b; }\nfn h0() -> f32 { var acc = 0.0; loop { acc += h1(); if acc > 1.0 { break; } continuing { acc += 0.5; } } return acc; }\n@fragment fn fs() -> @location(0) vec4<f32> { switch i32(h0()) { case 1 { return vec4<f32>(1.0); } default { return vec4<f32>(u.a, h0()); } } }\n",
    ),
    (
        "unicode",
        "// commentaire: \u{00e9}t\u{00e9} \u{1F600} \u{4e2d}\u{6587}\nstruct S\u{00e9} { v\u{00e4}l: f32 };\n@group(0) @binding(0) var<storage> donn\u{00e9}es: S\u{00e9};\n@compute @workgroup_size(1) fn principal() { let x = donn\u{00e9}es.v\u{00e4}l; }\n",
    ),
    (
        "multi-entry",
        "struct FOut { @location(0) a: vec4<f32>, @builtin(frag_depth) d: f32, @location(1) b: vec4<f32> };\n@group(0) @binding(0) var<storage, read> sr: array<f32, 4>;\nvar<workgroup> wg: array<u32, 8>;\nvar<private> pv: f32;\n@fragment fn fa() -> FOut { var o: FOut; o.a = vec4<f32>(sr[0]); return o; }\n@fragment fn fb() { pv = 1.0; }\n@compute @workgroup_size(2, 2, 2) fn ca() { wg[0] = 1u; }\n@vertex fn va(@location(0) x: f32) -> @builtin(position) vec4<f32> { return vec4<f32>(x); }\n",
    ),
];

/// Parsable modules the validator rejects (at least for some capability set).
pub const INVALID_MENU: [(&str, &str); 30] = [
    ("type-mismatch-return", "fn f() -> f32 { return 1u; }\n@compute @workgroup_size(1) fn m() { _ = f(); }\n"),
    ("assign-wrong-type", "@compute @workgroup_size(1) fn m() { var a: f32 = 1.0; a = 2u; }\n"),
    ("binding-collision-used", "@group(0) @binding(0) var<uniform> a: vec4<f32>;\n@group(0) @binding(0) var<uniform> b: vec4<f32>;\n@compute @workgroup_size(1) fn m() { _ = a.x + b.x; }\n"),
    ("uniform-array-stride", "@group(0) @binding(0) var<uniform> a: array<f32, 4>;\n@compute @workgroup_size(1) fn m() { _ = a[0]; }\n"),
    ("storage-no-binding", "var<storage> a: vec4<f32>;\n@compute @workgroup_size(1) fn m() { _ = a.x; }\n"),
    ("uniform-bool", "struct B { b: bool };\n@group(0) @binding(0) var<uniform> a: B;\n@compute @workgroup_size(1) fn m() { _ = a.b; }\n"),
    ("workgroup-in-fragment", "var<workgroup> w: u32;\n@fragment fn m() { w = 1u; }\n"),
    ("vertex-no-position", "@vertex fn m() -> @location(0) vec4<f32> { return vec4<f32>(0.0); }\n"),
    ("fragment-int-no-flat", "@fragment fn m(@location(0) x: i32) { }\n"),
    ("compute-zero-size", "@compute @workgroup_size(0) fn m() { }\n"),
    ("duplicate-location", "struct I { @location(0) a: f32, @location(0) b: f32 };\n@fragment fn m(i: I) { }\n"),
    ("f64-needs-capability", "@compute @workgroup_size(1) fn m() { var a: f64 = 1.0lf; }\n"),
    ("push-constant-capability", "var<push_constant> pc: vec4<f32>;\n@compute @workgroup_size(1) fn m() { _ = pc.x; }\n"),
    ("two-push-constants-used", "var<push_constant> a: f32;\nvar<push_constant> b: f32;\n@compute @workgroup_size(1) fn m() { _ = a + b; }\n"),
    ("texture-sample-in-compute", "@group(0) @binding(0) var t: texture_2d<f32>;\n@group(0) @binding(1) var s: sampler;\n@compute @workgroup_size(1) fn m() { _ = textureSample(t, s, vec2<f32>(0.0)); }\n"),
    ("store-to-readonly", "@group(0) @binding(0) var<storage, read> a: vec4<f32>;\n@compute @workgroup_size(1) fn m() { a.x = 1.0; }\n"),
    ("rt-array-not-last", "struct S { a: array<f32>, b: f32 };\n@group(0) @binding(0) var<storage> s: S;\n@compute @workgroup_size(1) fn m() { _ = s.b; }\n"),
    ("rt-array-in-uniform", "struct S { a: array<vec4<f32>> };\n@group(0) @binding(0) var<uniform> s: S;\n@compute @workgroup_size(1) fn m() { }\n"),
    ("atomic-in-uniform", "struct S { a: atomic<u32> };\n@group(0) @binding(0) var<uniform> s: S;\n@compute @workgroup_size(1) fn m() { }\n"),
    ("recursive-call", "fn a() { b(); }\nfn b() { }\n@compute @workgroup_size(1) fn m() { a(); }\n"),
    ("break-outside-loop", "@compute @workgroup_size(1) fn m() { if true { break; } }\n"),
    ("missing-return", "fn f() -> f32 { }\n@compute @workgroup_size(1) fn m() { _ = f(); }\n"),
    ("index-out-of-bounds-const", "@compute @workgroup_size(1) fn m() { var a = array<f32, 2>(1.0, 2.0); _ = a[5]; }\n"),
    ("storage-texture-read-cap", "@group(0) @binding(0) var t: texture_storage_2d<r32float, read_write>;\n@compute @workgroup_size(1) fn m() { _ = textureLoad(t, vec2<i32>(0)); }\n"),
    ("multisampled-shading", "@fragment fn m(@builtin(sample_index) i: u32) -> @location(0) vec4<f32> { return vec4<f32>(f32(i)); }\n"),
    ("primitive-index", "@fragment fn m(@builtin(primitive_index) i: u32) -> @location(0) vec4<f32> { return vec4<f32>(f32(i)); }\n"),
    ("clip-distances-like", "@vertex fn m(@builtin(instance_index) i: u32, @builtin(vertex_index) v: u32) -> @builtin(position) vec4<f32> { return vec4<f32>(f32(i + v)); }\n"),
    ("cube-array", "@group(0) @binding(0) var t: texture_cube_array<f32>;\n@compute @workgroup_size(1) fn m() { _ = textureDimensions(t); }\n"),
    ("subgroup", "@compute @workgroup_size(1) fn m(@builtin(subgroup_invocation_id) i: u32) { _ = subgroupAdd(i); }\n"),
    ("struct-member-wrong-io", "struct O { @location(0) a: mat2x2<f32> };\n@fragment fn m() -> O { var o: O; return o; }\n"),
];

/// Sources naga accepts (parse + validate) for which the generator itself answers with one of its own
/// errors or panics: the answer must not depend on whether validation is enabled.
pub const GENERATOR_MENU: [(&str, &str); 7] = [
    ("duplicate-slot-unused", "@group(0) @binding(0) var<uniform> a: vec4<f32>;\n@group(0) @binding(0) var<uniform> b: vec4<f32>;\n@compute @workgroup_size(1) fn m() { }\n"),
    ("duplicate-slot-different-entries", "@group(0) @binding(0) var<uniform> a: vec4<f32>;\n@group(0) @binding(0) var<uniform> b: vec4<f32>;\n@vertex fn v() -> @builtin(position) vec4<f32> { return a; }\n@fragment fn f() -> @location(0) vec4<f32> { return b; }\n"),
    ("duplicate-slot-one-used", "@group(0) @binding(1) var t: texture_2d<f32>;\n@group(0) @binding(1) var s: sampler;\n@compute @workgroup_size(1) fn m() { _ = textureDimensions(t); }\n"),
    ("non-consecutive-groups", "@group(1) @binding(0) var<uniform> a: vec4<f32>;\n@compute @workgroup_size(1) fn m() { _ = a.x; }\n"),
    ("gap-in-groups", "@group(0) @binding(0) var<uniform> a: vec4<f32>;\n@group(2) @binding(0) var<uniform> b: vec4<f32>;\n@compute @workgroup_size(1) fn m() { _ = a.x + b.x; }\n"),
    ("binding-array-unsupported", "@group(0) @binding(0) var ts: binding_array<texture_2d<f32>, 4>;\n@compute @workgroup_size(1) fn m() { _ = textureDimensions(ts[0]); }\n"),
    ("atomic-global-unsupported", "@group(0) @binding(0) var<storage, read_write> c: atomic<u32>;\n@compute @workgroup_size(1) fn m() { atomicAdd(&c, 1u); }\n"),
];

const INJECTS: [&str; 10] = ["\0", "\u{feff}", "\u{202e}", "\"", "/*", "@", "}", "\u{1F600}", "\r", "7"];

fn cap_sets() -> Vec<(String, Option<WgslCapabilities>)> {
    vec![
        ("off".into(), None),
        ("all".into(), Some(WgslCapabilities::all())),
        ("empty".into(), Some(WgslCapabilities::empty())),
        ("push_constant".into(), Some(WgslCapabilities::PUSH_CONSTANT)),
        ("float64".into(), Some(WgslCapabilities::FLOAT64)),
        ("storage_rw".into(), Some(WgslCapabilities::STORAGE_TEXTURE_16BIT_NORM_FORMATS | WgslCapabilities::CUBE_ARRAY_TEXTURES)),
    ]
}

#[derive(Clone)]
pub struct Input {
    pub key: String,
    pub src: String,
}

fn char_edits(name: &str, base: &str, out: &mut Vec<Input>) {
    let idx: Vec<usize> = base.char_indices().map(|(i, _)| i).chain(std::iter::once(base.len())).collect();
    for w in 0..idx.len() {
        let i = idx[w];
        if w > 0 {
            out.push(Input { key: format!("{name}|trunc@{i}"), src: base[..i].to_string() });
        }
        if w + 1 < idx.len() {
            let j = idx[w + 1];
            out.push(Input { key: format!("{name}|del@{i}"), src: format!("{}{}", &base[..i], &base[j..]) });
            if w + 2 < idx.len() {
                let k = idx[w + 2];
                out.push(Input { key: format!("{name}|swap@{i}"), src: format!("{}{}{}{}", &base[..i], &base[j..k], &base[i..j], &base[k..]) });
            }
        }
        for (n, inj) in INJECTS.iter().enumerate() {
            out.push(Input { key: format!("{name}|inject{n}@{i}"), src: format!("{}{}{}", &base[..i], inj, &base[i..]) });
        }
    }
}

fn tokens(base: &str) -> Vec<(usize, usize)> {
    let mut v = vec![];
    let cs: Vec<(usize, char)> = base.char_indices().collect();
    let mut i = 0;
    while i < cs.len() {
        let (s, c) = cs[i];
        if c.is_alphanumeric() || c == '_' {
            let mut j = i;
            while j < cs.len() && (cs[j].1.is_alphanumeric() || cs[j].1 == '_' || cs[j].1 == '.') {
                j += 1;
            }
            let e = if j < cs.len() { cs[j].0 } else { base.len() };
            v.push((s, e));
            i = j;
        } else if c.is_whitespace() {
            i += 1;
        } else {
            let e = if i + 1 < cs.len() { cs[i + 1].0 } else { base.len() };
            v.push((s, e));
            i += 1;
        }
    }
    v
}

fn token_edits(name: &str, base: &str, out: &mut Vec<Input>) {
    let t = tokens(base);
    for (n, (s, e)) in t.iter().enumerate() {
        out.push(Input { key: format!("{name}|tokdel#{n}"), src: format!("{}{}", &base[..*s], &base[*e..]) });
        out.push(Input { key: format!("{name}|tokdup#{n}"), src: format!("{}{} {}", &base[..*e], &base[*s..*e], &base[*e..]) });
        if n + 1 < t.len() {
            let (s2, e2) = t[n + 1];
            out.push(Input { key: format!("{name}|tokswap#{n}"), src: format!("{}{}{}{}{}", &base[..*s], &base[s2..e2], &base[*e..s2], &base[*s..*e], &base[e2..]) });
        }
    }
}

fn double_edits(name: &str, base: &str, out: &mut Vec<Input>) {
    // pairs of {deletion, 3 injects} at all pairs of positions i < j
    let idx: Vec<usize> = base.char_indices().map(|(i, _)| i).collect();
    let ops: [Option<&str>; 4] = [None, Some("}"), Some("@"), Some("\u{feff}")];
    let apply = |s: &str, at: usize, op: Option<&str>| -> String {
        match op {
            None => {
                let next = s[at..].chars().next().map(|c| at + c.len_utf8()).unwrap_or(s.len());
                format!("{}{}", &s[..at], &s[next..])
            }
            Some(x) => format!("{}{}{}", &s[..at], x, &s[at..]),
        }
    };
    for (a, &i) in idx.iter().enumerate() {
        for &j in idx.iter().skip(a + 1) {
            for (oa, opa) in ops.iter().enumerate() {
                for (ob, opb) in ops.iter().enumerate() {
                    // apply the later position first so the earlier index stays valid
                    let s1 = apply(base, j, *opb);
                    let s2 = apply(&s1, i, *opa);
                    out.push(Input { key: format!("{name}|double:{oa}@{i},{ob}@{j}"), src: s2 });
                }
            }
        }
    }
}

fn class_of(r: &Result<String, CreateModuleError>) -> String {
    match r {
        Ok(_) => "Ok".into(),
        Err(e) => format!("Err({})", error_variant(e)),
    }
}

pub fn check(inp: &Input, caps: &[(String, Option<WgslCapabilities>)], rep: &mut Report) {
    rep.states += 1;
    // naga directly
    let parsed = match std::panic::catch_unwind(|| naga::front::wgsl::parse_str(&inp.src)) {
        Ok(p) => p,
        Err(_) => {
            let _ = take_panic_message();
            rep.filtered("naga's own parser panics on direct call (outside the statement)");
            return;
        }
    };
    let mut off_result: Option<Result<String, String>> = None;
    for (cname, cap) in caps {
        rep.transitions += 1;
        rep.evaluations += 1;
        let options = WriteOptions { derive_encase_host_shareable: true, validate: cap.map(|c| ValidationOptions { capabilities: c }), ..Default::default() };
        let case = format!("{}|caps={cname}", inp.key);
        let detail = |obs: &str| json!({"wgsl": inp.src, "config": format!("encase, validate={cname}"), "observed": obs});
        let call = std::panic::catch_unwind(std::panic::AssertUnwindSafe(|| wgsl_to_wgpu::create_shader_module_embedded(&inp.src, options)));
        let naga_valid: Option<Result<(), String>> = match (&parsed, cap) {
            (Ok(m), Some(c)) => Some(
                std::panic::catch_unwind(std::panic::AssertUnwindSafe(|| {
                    naga::valid::Validator::new(naga::valid::ValidationFlags::all(), *c).validate(m).map(|_| ()).map_err(|e| e.to_string())
                }))
                .unwrap_or_else(|_| {
                    let _ = take_panic_message();
                    Err("<validator panicked>".into())
                }),
            ),
            _ => None,
        };
        if matches!(&naga_valid, Some(Err(m)) if m == "<validator panicked>") {
            rep.filtered("naga's own validator panics on direct call (outside the statement)");
            continue;
        }
        match (&parsed, &call) {
            (Err(pe), Ok(Err(CreateModuleError::ParseError { error }))) => {
                rep.outcomes.insert("parse-error".into());
                rep.count("parse errors compared with naga");
                if error.to_string() != pe.to_string() {
                    rep.violation(case.clone(), "ParseError does not carry the front end's diagnostic", detail(&error.to_string()));
                }
                // rendering must not panic and must equal naga's own rendering
                let e = call.as_ref().unwrap().as_ref().err().unwrap();
                let rendered = std::panic::catch_unwind(std::panic::AssertUnwindSafe(|| (e.emit_to_string(&inp.src), e.emit_to_string_with_path(&inp.src, "dir/shader.wgsl"))));
                match rendered {
                    Ok((a, b)) => {
                        let na = std::panic::catch_unwind(std::panic::AssertUnwindSafe(|| pe.emit_to_string(&inp.src)));
                        if let Ok(na) = na {
                            if na != a {
                                rep.violation(case.clone(), "emit_to_string differs from the front end's rendering", detail(&a));
                            }
                        }
                        if a.is_empty() || b.is_empty() {
                            rep.violation(case.clone(), "empty diagnostic", detail(""));
                        }
                    }
                    Err(_) => {
                        let m = take_panic_message();
                        // does naga's own renderer panic on this input too? then it is naga's, but the statement says "without panicking"
                        rep.violation(case.clone(), format!("rendering the parse error panics: {}", m.chars().take(60).collect::<String>()), detail(&m));
                    }
                }
            }
            (Err(_), other) => {
                let obs = match other {
                    Ok(r) => class_of(r),
                    Err(_) => format!("Panic({})", take_panic_message().chars().take(60).collect::<String>()),
                };
                rep.violation(case.clone(), format!("front end rejects the source but the call gives {obs}"), detail(&obs));
            }
            (Ok(_), Ok(Err(CreateModuleError::ParseError { .. }))) => {
                rep.violation(case.clone(), "ParseError for a source the front end accepts", detail("ParseError"));
            }
            (Ok(_), _) => {
                let rejected = matches!(naga_valid, Some(Err(_)));
                match &call {
                    Ok(Err(CreateModuleError::ValidationError { error })) => {
                        rep.outcomes.insert("validation-error".into());
                        rep.count(&format!("validation errors ({})", if inp.key.starts_with("menu|") { "menu" } else { "edits" }));
                        if !rejected {
                            rep.violation(case.clone(), "ValidationError although the validator accepts (or validation is off)", detail(&error.to_string()));
                        }
                        let e = call.as_ref().unwrap().as_ref().err().unwrap();
                        let rendered = std::panic::catch_unwind(std::panic::AssertUnwindSafe(|| (e.emit_to_string(&inp.src), e.emit_to_string_with_path(&inp.src, "dir/shader.wgsl"))));
                        if rendered.is_err() {
                            let m = take_panic_message();
                            rep.violation(case.clone(), format!("rendering the validation error panics: {}", m.chars().take(60).collect::<String>()), detail(&m));
                        }
                    }
                    other => {
                        if rejected {
                            let obs = match other {
                                Ok(r) => class_of(r),
                                Err(_) => format!("Panic({})", take_panic_message().chars().take(60).collect::<String>()),
                            };
                            rep.violation(case.clone(), format!("validator rejects but the call gives {obs}"), detail(&obs));
                            continue;
                        }
                        // passes (or validation off): the outcome must not depend on validation
                        let this: Result<String, String> = match other {
                            Ok(Ok(t)) => Ok(t.clone()),
                            Ok(Err(e)) => Err(format!("Err({})", error_variant(e))),
                            Err(_) => Err(format!("Panic({})", take_panic_message())),
                        };
                        rep.outcomes.insert(match &this { Ok(_) => "ok".to_string(), Err(e) => e.chars().take(40).collect() });
                        match (&off_result, cap) {
                            (None, None) => off_result = Some(this),
                            (Some(off), Some(_)) => {
                                if *off != this {
                                    rep.violation(case.clone(), "enabling validation changed the outcome of a passing source", detail(&format!("{:?}", this.as_ref().map(|t| t.len()))));
                                }
                            }
                            _ => {}
                        }
                        rep.nontrivial.insert(hash64(&inp.src));
                        rep.count("passing evaluations (validation-independence compared)");
                    }
                }
            }
        }
    }
}

pub fn inputs(thorough: bool) -> Vec<Input> {
    let mut out = vec![];
    for (name, base) in BASES {
        out.push(Input { key: format!("{name}|base"), src: base.to_string() });
    }
    let n_char = 8;
    for (name, base) in BASES.iter().take(n_char) {
        char_edits(name, base, &mut out);
    }
    for (name, base) in BASES {
        token_edits(name, base, &mut out);
    }
    for (name, src) in INVALID_MENU {
        out.push(Input { key: format!("menu|{name}"), src: src.to_string() });
    }
    for (name, src) in GENERATOR_MENU {
        out.push(Input { key: format!("generator-menu|{name}"), src: src.to_string() });
    }
    if thorough {
        double_edits(BASES[0].0, BASES[0].1, &mut out);
    }
    out
}

/// Small valid programs, each leaning on one capability or per-stage rule of the validator.
pub fn capability_programs() -> Vec<(String, String)> {
    let mut v: Vec<(String, String)> = vec![];
    let vs = |body: &str| format!("@vertex fn vs_main(@builtin(vertex_index) vi: u32) -> @builtin(position) vec4<f32> {{\n{body}}}\n");
    let fs = |body: &str| format!("@fragment fn fs_main(@builtin(position) p: vec4<f32>) -> @location(0) vec4<f32> {{\n{body}}}\n");
    let cs = |body: &str| format!("@compute @workgroup_size(8) fn cs_main(@builtin(local_invocation_index) li: u32) {{\n{body}}}\n");
    for (op, expr) in [("add", "subgroupAdd(x)"), ("ballot", "f32(subgroupBallot(x > 0.5).x)"), ("broadcast-first", "subgroupBroadcastFirst(x)"), ("max", "subgroupMax(x)"), ("shuffle", "subgroupShuffle(x, 1u)")] {
        v.push((format!("subgroup-{op}|vertex"), vs(&format!("    let x = f32(vi);\n    return vec4<f32>({expr});\n"))));
        v.push((format!("subgroup-{op}|fragment"), fs(&format!("    let x = p.x;\n    return vec4<f32>({expr});\n"))));
        v.push((format!("subgroup-{op}|compute"), format!("@group(0) @binding(0) var<storage, read_write> out_buf: array<f32, 8>;\n{}", cs(&format!("    let x = f32(li);\n    out_buf[li] = {expr};\n")))));
        v.push((format!("subgroup-{op}|vertex-via-helper"), format!("fn sg(x: f32) -> f32 {{\n    return {expr};\n}}\n{}", vs("    return vec4<f32>(sg(f32(vi)));\n"))));
    }
    v.push(("subgroup-builtins|compute".into(), "@group(0) @binding(0) var<storage, read_write> out_buf: array<u32, 8>;\n@compute @workgroup_size(8) fn cs_main(@builtin(subgroup_invocation_id) sid: u32, @builtin(subgroup_size) ssz: u32, @builtin(local_invocation_index) li: u32) {\n    out_buf[li] = sid + ssz;\n}\n".into()));
    v.push(("subgroup-builtins|fragment".into(), "@fragment fn fs_main(@builtin(subgroup_invocation_id) sid: u32, @builtin(subgroup_size) ssz: u32) -> @location(0) vec4<f32> {\n    return vec4<f32>(f32(sid + ssz));\n}\n".into()));
    v.push(("f64|compute".into(), format!("@group(0) @binding(0) var<storage, read_write> out_buf: array<f32, 8>;\n{}", cs("    let d: f64 = f64(li) * 0.5lf;\n    out_buf[li] = f32(d);\n"))));
    v.push(("i64|compute".into(), format!("@group(0) @binding(0) var<storage, read_write> out_buf: array<u32, 8>;\n{}", cs("    let w: i64 = i64(li) * 4294967296li;\n    out_buf[li] = u32(w >> 32u);\n"))));
    v.push(("u64|fragment".into(), fs("    let w: u64 = u64(p.x) + 18446744073709551615lu;\n    return vec4<f32>(f32(w & 255lu));\n")));
    v.push(("atomic-f32|compute".into(), format!("@group(0) @binding(0) var<storage, read_write> acc_buf: array<atomic<f32>, 4>;\n{}", cs("    atomicAdd(&acc_buf[li % 4u], 1.5);\n"))));
    v.push(("atomic-ops|compute".into(), format!("@group(0) @binding(0) var<storage, read_write> acc_buf: array<atomic<u32>, 4>;\nvar<workgroup> wg_acc: atomic<i32>;\n{}", cs("    let old = atomicMax(&acc_buf[0], li);\n    let r = atomicCompareExchangeWeak(&acc_buf[1], old, li);\n    atomicSub(&wg_acc, 1);\n    workgroupBarrier();\n"))));
    v.push(("primitive-index|fragment".into(), "@fragment fn fs_main(@builtin(primitive_index) pi: u32) -> @location(0) vec4<f32> {\n    return vec4<f32>(f32(pi));\n}\n".into()));
    v.push(("sample-index-mask|fragment".into(), "struct FsOut { @location(0) c: vec4<f32>, @builtin(sample_mask) m: u32 };\n@fragment fn fs_main(@builtin(sample_index) si: u32, @builtin(sample_mask) mask: u32) -> FsOut {\n    var o: FsOut;\n    o.c = vec4<f32>(f32(si));\n    o.m = mask;\n    return o;\n}\n".into()));
    v.push(("multisampled|fragment".into(), format!("@group(0) @binding(0) var ms_tex: texture_multisampled_2d<f32>;\n@group(0) @binding(1) var ms_depth: texture_depth_multisampled_2d;\n{}", fs("    let c = textureLoad(ms_tex, vec2<i32>(p.xy), 1);\n    let d = textureLoad(ms_depth, vec2<i32>(p.xy), 0);\n    return c * d;\n"))));
    v.push(("cube-array|fragment".into(), format!("@group(0) @binding(0) var cube_tex: texture_cube_array<f32>;\n@group(0) @binding(1) var cube_samp: sampler;\n{}", fs("    return textureSample(cube_tex, cube_samp, p.xyz, 1);\n"))));
    v.push(("push-constant|vertex-fragment".into(), format!("var<push_constant> pc: vec4<f32>;\n{}{}", vs("    return pc * f32(vi);\n"), fs("    return pc + p;\n"))));
    v.push(("early-depth-test|fragment".into(), "@fragment @early_depth_test fn fs_main() -> @location(0) vec4<f32> {\n    return vec4<f32>(1.0);\n}\n".into()));
    v.push(("interpolate-sample|vertex-fragment".into(), "struct VsOut { @builtin(position) p: vec4<f32>, @location(0) @interpolate(perspective, sample) a: vec4<f32>, @location(1) @interpolate(flat) b: u32, @location(2) @interpolate(linear, centroid) c: f32 };\n@vertex fn vs_main() -> VsOut {\n    var o: VsOut;\n    return o;\n}\n@fragment fn fs_main(i: VsOut) -> @location(0) vec4<f32> {\n    return i.a * f32(i.b) * i.c;\n}\n".into()));
    v.push(("storage-formats|compute".into(), format!("@group(0) @binding(0) var st_a: texture_storage_2d<rg11b10ufloat, write>;\n@group(0) @binding(1) var st_b: texture_storage_2d<r64uint, atomic>;\n@group(0) @binding(2) var st_c: texture_storage_2d<rgba16unorm, write>;\n{}", cs("    textureStore(st_a, vec2<i32>(0, 0), vec4<f32>(1.0));\n    textureStore(st_c, vec2<i32>(0, 0), vec4<f32>(1.0));\n"))));
    v.push(("workgroup-uniform-load|compute".into(), format!("var<workgroup> flag: u32;\n@group(0) @binding(0) var<storage, read_write> out_buf: array<u32, 8>;\n{}", cs("    if li == 0u {\n        flag = 3u;\n    }\n    let f = workgroupUniformLoad(&flag);\n    out_buf[li] = f;\n"))));
    v.push(("clip-distances|vertex".into(), "enable clip_distances;\nstruct VsOut { @builtin(position) p: vec4<f32>, @builtin(clip_distances) cd: array<f32, 2> };\n@vertex fn vs_main() -> VsOut {\n    var o: VsOut;\n    return o;\n}\n".into()));
    v.push(("dual-source|fragment".into(), "enable dual_source_blending;\nstruct FsOut { @location(0) @blend_src(0) a: vec4<f32>, @location(0) @blend_src(1) b: vec4<f32> };\n@fragment fn fs_main() -> FsOut {\n    var o: FsOut;\n    return o;\n}\n".into()));
    v.push(("ray-query|compute".into(), format!("@group(0) @binding(0) var acc_struct: acceleration_structure;\n{}", cs("    var rq: ray_query;\n    rayQueryInitialize(&rq, acc_struct, RayDesc(0u, 0xFFu, 0.1, 100.0, vec3<f32>(0.0), vec3<f32>(0.0, 0.0, 1.0)));\n    rayQueryProceed(&rq);\n"))));
    v
}

pub fn run(tier: &str) -> i32 {
    let mut rep = Report::new("C17", tier);
    let thorough = rep.thorough();
    let ins = inputs(thorough);
    let caps = cap_sets();
    let results = par_map(&ins, |i| {
        let mut r = Report::new("C17", tier);
        check(i, &caps, &mut r);
        r
    });
    for (n, i) in ins.iter().enumerate() {
        if n % (ins.len() / 5 + 1) == 17 {
            rep.sample(json!({"key": i.key, "wgsl": i.src}));
        }
    }
    for r in results {
        rep.merge(r);
    }
    // "validation only gates" over a large program corpus (every declaration atom of C01, role programs, the
    // several-of-everything shader): text with validation {all, empty caps where naga accepts} must equal text without
    let mut corpus = crate::c18::corpus();
    // every access form (incl. variables that are only named: `_ = res;`, `let p = &res;`) at every placement and
    // through every call form: an analysis that the validator could answer differently from the generator's own walk
    let (placed, _) = crate::c03::space_b(thorough);
    for p in placed.into_iter().chain(crate::c03::space_c(false)).chain(crate::c03::space_a_k(false, 2)) {
        corpus.push((format!("c03|{}", p.key), p.src, Config { encase: true, ..Config::default() }));
    }
    // valid programs that need one particular validator capability / stage rule each (subgroup operations per stage,
    // 64-bit types, float atomics, primitive index, multisampling, cube arrays, push constants, early depth test ...)
    {
        let caps = capability_programs();
        let mut accepted = 0;
        for (k, src) in caps {
            if naga_check(&src).is_ok() {
                accepted += 1;
                corpus.push((format!("capability|{k}"), src, Config::default()));
            } else {
                rep.filtered("capability program: naga itself rejects it");
            }
        }
        if accepted < 12 {
            machinery(&format!("C17: only {accepted} capability programs are valid for naga"));
        }
        rep.set("capability_programs_accepted_by_naga", json!(accepted));
    }
    let cres = par_map(&corpus, |(key, src, cfg)| {
        let off = generate(src, cfg);
        let mut diffs = vec![];
        for (vname, v) in [("all", Validate::All), ("empty", Validate::Empty)] {
            let on = generate(src, &Config { validate: v, ..*cfg });
            let rejected = matches!(&on, Outcome::Err(x, _) if x == "ValidationError");
            if rejected {
                // the validator's verdict with that capability set, called directly
                let caps = if v == Validate::All { naga::valid::Capabilities::all() } else { naga::valid::Capabilities::empty() };
                let direct = naga::front::wgsl::parse_str(src).ok().map(|m| naga::valid::Validator::new(naga::valid::ValidationFlags::all(), caps).validate(&m).is_err());
                if direct != Some(true) {
                    diffs.push(format!("{vname}: ValidationError although naga's validator accepts"));
                }
                continue;
            }
            if on != off {
                diffs.push(format!("{vname}: {} with validation vs {} without", on.class(), off.class()));
            }
        }
        (key.clone(), src.clone(), cfg.key(), diffs)
    });
    for (key, src, cfgk, diffs) in cres {
        rep.states += 1;
        rep.evaluations += 3;
        rep.count("corpus programs compared with validation on/off");
        for d in diffs {
            rep.violation(format!("corpus|{key}"), format!("enabling validation changed the outcome of a passing source ({d})"), json!({"wgsl": src, "config": cfgk}));
        }
    }
    rep.traces_validated = rep.evaluations;
    rep.rule = format!("{} base shaders: every truncation, single-character deletion, adjacent swap and 10 injects (NUL, BOM, RLO, quote, comment opener, @, }}, emoji, CR, digit) at every position for {} of them; every token deletion / duplication / adjacent swap for all; 30 parsable-but-invalid modules and 7 valid modules the generator itself rejects (duplicate slots not used together, non-dense groups, unsupported globals){}; each x 6 validation settings (off, all, empty, 3 capability subsets). Oracle: naga called directly (parse error <=> ParseError with naga's message and rendering; validator error <=> ValidationError; no panic; passing sources give the same outcome with validation on and off). Plus ~1100 corpus programs (C01's atoms etc.) generated with validation off / all / empty capabilities and compared. Non-trivial = a source that passed and was generated.", BASES.len(), "all 8", if thorough { "; all double edits {delete, 3 injects}^2 of the smallest base" } else { "" });
    if rep.outcomes.len() < 3 {
        machinery("C17: fewer than 3 outcome classes");
    }
    rep.finish()
}
