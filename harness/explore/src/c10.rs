//! C10 — encase + glam structs serialise every field at its WGSL offset.
//! L2-exec only: every emitted host-shareable struct of the glam-representable space is filled with
//! distinct sentinels, written through the real `encase::StorageBuffer` / `UniformBuffer`, and the
//! byte image is compared with the WGSL layout reference.
use crate::common::*;
use crate::probe::{self, ProbeCase, Verdict};
use crate::structspace::*;
use serde_json::json;
use std::collections::BTreeMap;
use wgslgen::Ty;

fn cfg() -> Config {
    Config { encase: true, repr: Repr::Glam, ..Config::default() }
}

/// "With encase derives and the glam representation" also holds when the other derive switches are on as well:
/// the same universe is run with the bytemuck switches added (modules the bytemuck derives reject at compile
/// time - padding, layout assertions - leave the universe; C01/C05 judge those).
fn cfgs() -> [Config; 2] {
    [cfg(), Config { bytemuck_host: true, bytemuck_vertex: true, ..cfg() }]
}

fn has_rt(p: &StructProg) -> bool {
    Ty::Struct(p.root.clone()).has_rt_array(&p.env)
}

/// Is `var<uniform> data: Root` accepted by naga's validator?
fn uniform_legal(p: &StructProg) -> bool {
    if has_rt(p) {
        return false;
    }
    let src = p.src.replace("var<storage, read_write> data", "var<uniform> data").replace("var<storage, read> data", "var<uniform> data");
    naga_check(&src).is_ok()
}

pub fn probe_for(p: &StructProg, uniform: bool) -> Option<String> {
    let lens: Vec<usize> = if has_rt(p) { vec![0, 1, 2, 3] } else { vec![0] };
    let mut s = String::new();
    for n in lens {
        let mut next = 0u32;
        let v = glam_value(&Ty::Struct(p.root.clone()), &p.env, &mut next, n)?;
        s.push_str(&format!(
            "    {{\n        let v = {v};\n        let mut sb = encase::StorageBuffer::new(Vec::<u8>::new());\n        sb.write(&v).unwrap();\n        out.push(format!(\"{{{{\\\"op\\\":\\\"encase\\\",\\\"buffer\\\":\\\"storage\\\",\\\"rt\\\":{n},\\\"bytes\\\":{{}}}}}}\", probe_support::bytes_json(&sb.into_inner())));\n"
        ));
        if uniform {
            s.push_str(&format!(
                "        let mut ub = encase::UniformBuffer::new(Vec::<u8>::new());\n        ub.write(&v).unwrap();\n        out.push(format!(\"{{{{\\\"op\\\":\\\"encase\\\",\\\"buffer\\\":\\\"uniform\\\",\\\"rt\\\":{n},\\\"bytes\\\":{{}}}}}}\", probe_support::bytes_json(&ub.into_inner())));\n"
            ));
        }
        s.push_str("    }\n");
    }
    Some(s)
}

fn sentinel_bytes(v: u32, width: u32, kind: char) -> Vec<u8> {
    match (kind, width) {
        ('f', 4) => (v as f32).to_le_bytes().to_vec(),
        ('f', 8) => (v as f64).to_le_bytes().to_vec(),
        ('i', 4) => (v as i32).to_le_bytes().to_vec(),
        ('u', 4) => v.to_le_bytes().to_vec(),
        _ => vec![],
    }
}

pub fn run(tier: &str) -> i32 {
    let mut rep = Report::new("C10", tier);
    let thorough = rep.thorough();
    let mut all = struct_space(true, thorough, true, true);
    // structs that are shader IO and host-shareable at once (vertex pulling / instance data written by compute)
    // (members with @builtin are left out: the Rust struct has no field for them, so "every field at its WGSL
    // offset" is not well defined for what follows; C05 covers their assertion literals)
    all.extend(crate::c05::io_host_space().into_iter().filter(|p| !p.key.contains("variant=2")));
    all.extend(lookalike_space());
    all.extend(named_members_space());
    // declarations-only modules (no entry point)
    {
        let n0 = all.len();
        for i in 0..n0 {
            if (thorough || i % 11 == 0) && !all[i].src.contains("@vertex") && !all[i].src.contains("@fragment") {
                if let Some(src) = without_entry_points(&all[i].src) {
                    let mut q = all[i].clone();
                    q.key = format!("no-entry|{}", q.key);
                    q.src = src;
                    all.push(q);
                }
            }
        }
    }
    // member / element types written through `alias` declarations
    {
        let n0 = all.len();
        for i in 0..n0 {
            if thorough || i % 13 == 0 || all[i].key.starts_with("rt1") {
                let v = alias_variants(&all[i]);
                all.extend(v);
            }
        }
    }
    // the bound struct (or a struct nested in it) shared with a var<private> / var<workgroup>, declared before or
    // after the bound variable
    {
        let n0 = all.len();
        for i in 0..n0 {
            let k = &all[i].key;
            let nested = k.contains("Inner") || k.contains("Deep");
            if (thorough && i % 7 == 0) || k == "s1|vec4<f32>" || k == "s1|Inner" || k == "s1|array<Inner, 2>" || k == "s1|Deep" || (nested && i % 41 == 0) {
                let v = sibling_variants(&all[i]);
                all.extend(v);
            }
        }
    }
    // the same struct bound as `var<uniform>` where the uniform layout rules allow it (every program with a nested
    // struct member; a spread of the others)
    {
        let n0 = all.len();
        for i in 0..n0 {
            let k = &all[i].key;
            if !(k.starts_with("s1|") || k.starts_with("s2|") || k.starts_with("s3|")) {
                continue;
            }
            let nested = k.contains("Inner") || k.contains("Deep") || k.contains("Pair");
            if !(nested || (thorough && i % 3 == 0) || i % 23 == 0) || !uniform_legal(&all[i]) {
                continue;
            }
            let mut q = all[i].clone();
            q.src = q.src.replace("var<storage, read_write> data", "var<uniform> data").replace("var<storage, read> data", "var<uniform> data");
            q.key = format!("uniform|{}", q.key);
            all.push(q);
        }
    }
    // universe: every member type representable by glam
    let progs: Vec<StructProg> = all
        .into_iter()
        .filter(|p| {
            let mut n = 0;
            glam_value(&Ty::Struct(p.root.clone()), &p.env, &mut n, 1).is_some()
        })
        .collect();
    let stride = if thorough { 1 } else { (progs.len() / 150).max(1) };
    let mut cases = vec![];
    let mut index: BTreeMap<String, (usize, usize)> = BTreeMap::new();
    let cfgs = cfgs();
    let items: Vec<(usize, usize)> = (0..progs.len()).flat_map(|i| (0..cfgs.len()).map(move |c| (i, c))).collect();
    let texts = par_map(&items, |(i, c)| generate(&progs[*i].src, &cfgs[*c]));
    for ((i, ci), t) in items.iter().zip(texts.iter()) {
        let (i, ci) = (*i, *ci);
        let p = &progs[i];
        rep.states += 1;
        rep.transitions += p.env.get(&p.root).members.len() as u64;
        let forced = p.key.starts_with("attr|") || p.key.starts_with("sibling-") || (p.key.starts_with("uniform|") && (p.key.contains("Pair") || i % 7 == 0)) || p.key.starts_with("named|") || (p.key.starts_with("alias-") && i % 5 == 0) || p.key.starts_with("rt") || (p.key.starts_with("io-host|") && i % 4 == 0) || p.key.contains("vec3<f32>|f32") || p.key.contains("mat3x3<f32>") && p.key.starts_with("s1");
        if !(i % stride == 0 || forced) {
            continue;
        }
        rep.evaluations += 1;
        match t {
            Outcome::Ok(text) => {
                let name = format!("c_{i:05}_{ci}");
                index.insert(name.clone(), (i, ci));
                cases.push(ProbeCase { name, generated: text.clone(), probe_body: probe_for(p, uniform_legal(p)).unwrap(), probe_items: String::new(), files: vec![] });
            }
            Outcome::Panic(m) if ci == 1 && m.contains("Runtime-sized array") => rep.filtered("documented panic: runtime-sized array with bytemuck"),
            other => rep.generation_failed(format!("{}|{}", p.key, cfgs[ci].key()), &other.class(), &p.src, &cfgs[ci]),
        }
    }
    let results = probe::run_batch("C10", &cases, true);
    for cr in &results {
        let (i, ci) = index[&cr.name];
        let p = &progs[i];
        let case = if ci == 0 { p.key.clone() } else { format!("{}|+bytemuck", p.key) };
        let detail = |obs: String| json!({"wgsl": p.src, "config": cfgs[ci].key(), "observed": obs});
        match &cr.check {
            Verdict::Accepted => {}
            Verdict::Rejected(_) if ci == 1 => {
                rep.filtered("with the bytemuck switches added the module is rejected by rustc (C01/C05's domain)");
                continue;
            }
            Verdict::Rejected(e) => {
                rep.violation(case, format!("module does not compile with encase+glam: {} {}", e[0].0, e[0].1.chars().take(100).collect::<String>()), detail(format!("{e:?}")));
                continue;
            }
            Verdict::ProbeMismatch(e) => {
                rep.violation(case, format!("the struct cannot be constructed / written as documented: {} {}", e[0].0, e[0].1.chars().take(100).collect::<String>()), detail(format!("{e:?}")));
                continue;
            }
        }
        if let Some(pm) = &cr.panic {
            rep.violation(case, format!("encase write panicked: {}", pm.chars().take(100).collect::<String>()), detail(pm.clone()));
            continue;
        }
        rep.traces_validated += 1;
        rep.nontrivial.insert(hash64(&p.src));
        for rec in cr.records.iter().filter(|r| r["op"] == "encase") {
            let n = rec["rt"].as_u64().unwrap() as usize;
            let buffer = rec["buffer"].as_str().unwrap();
            let bytes: Vec<u8> = rec["bytes"].as_array().unwrap().iter().map(|b| b.as_u64().unwrap() as u8).collect();
            let want_len = reference_size(&p.root, &p.env, n) as usize;
            let mut comps = vec![];
            let mut next = 0;
            reference_image(&Ty::Struct(p.root.clone()), &p.env, 0, &mut next, n, &mut comps);
            let sub = format!("{case}|{buffer}|rt={n}");
            let mut bad = None;
            for (off, width, v, kind) in &comps {
                let want = sentinel_bytes(*v, *width, *kind);
                let o = *off as usize;
                if bytes.len() < o + want.len() || bytes[o..o + want.len()] != want[..] {
                    bad = Some(format!("component #{v} expected at WGSL offset {off}"));
                    break;
                }
            }
            rep.outcomes.insert(format!("len{}:{}", bytes.len(), bad.is_none()));
            if let Some(b) = bad {
                rep.violation(sub.clone(), format!("byte image: {b} is not there"), detail(format!("{bytes:?}")));
            }
            if bytes.len() != want_len {
                // a runtime array with zero elements has no WGSL size (NRuntime >= 1): length is not compared there
                if !(has_rt(p) && n == 0) {
                    rep.violation(sub, format!("byte image length {} differs from the WGSL size {want_len}", bytes.len()), detail(format!("{bytes:?}")));
                }
            }
        }
    }
    rep.set("compiled_modules", json!(index.len()));
    for i in [1usize, progs.len() / 2, progs.len() - 1] {
        let mut n = 0;
        rep.sample(json!({"key": progs[i].key, "wgsl": progs[i].src, "value": glam_value(&Ty::Struct(progs[i].root.clone()), &progs[i].env, &mut n, 2)}));
    }
    rep.rule = format!("host-shareable structs whose every member glam can represent (scalars, atomics, vec2-4 of f32/i32/u32/f64, square matrices f32/f64, fixed arrays and nested structs of those): all 1-field and 2-field structs{}, members with @size/@align, trailing runtime arrays of 10 element types with 0..3 elements; encase + Glam. Each compiled module builds a value with a distinct sentinel per component and writes it with the real encase StorageBuffer (and UniformBuffer where naga accepts the type as uniform); oracle: length = WGSL size and every component's little-endian bytes at its reference WGSL offset. {} of {} programs compiled in this tier.", if thorough { ", 3-field over 8 representatives" } else { "" }, index.len(), progs.len());
    rep.exhaustive = thorough;
    rep.finish()
}
