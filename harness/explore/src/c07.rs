//! C07 — vertex buffer layouts mirror the vertex input structs.
use crate::common::*;
use crate::probe::{self, ProbeCase, Verdict};
use crate::wgpucheck;
use serde_json::json;
use std::collections::BTreeMap;
use wgslgen::{Member, Scalar, StructDef, Ty};

#[derive(Clone, Debug)]
pub struct VStruct {
    pub def: StructDef,
}
#[derive(Clone, Debug)]
pub struct Prog {
    pub key: String,
    pub src: String,
    pub structs: Vec<StructDef>,
    /// entry name -> parameter list (Some(struct index) / None = builtin parameter)
    pub entries: Vec<(String, Vec<Option<usize>>)>,
}

pub fn attr_types() -> Vec<Ty> {
    let mut v = vec![];
    for s in [Scalar::F32, Scalar::I32, Scalar::U32, Scalar::F64] {
        v.push(Ty::Scalar(s));
        for n in 2..=4 {
            v.push(Ty::Vec(n, s));
        }
    }
    v
}

fn build(structs: Vec<StructDef>, entries: Vec<(String, Vec<Option<usize>>)>, key: String) -> Prog {
    let mut src = String::new();
    for s in &structs {
        src.push_str(&s.wgsl(false));
    }
    for (name, params) in &entries {
        let ps: Vec<String> = params.iter().enumerate().map(|(i, p)| match p {
            Some(si) => format!("p{i}: {}", structs[*si].name),
            None => format!("@builtin(instance_index) p{i}: u32"),
        }).collect();
        src.push_str(&format!("@vertex fn {name}({}) -> @builtin(position) vec4<f32> {{\n    return vec4<f32>(0.0);\n}}\n", ps.join(", ")));
    }
    Prog { key, src, structs, entries }
}

pub fn space(thorough: bool) -> Vec<Prog> {
    let types = attr_types();
    let mut out = vec![];
    // one struct, one member, builtin before/after/absent, three location values
    for t in &types {
        for (bi, bpos) in [None, Some(0usize), Some(1)].iter().enumerate() {
            for loc in [0u32, 3, 7, 15, 30] {
                if !thorough && bi == 2 && loc >= 7 {
                    continue;
                }
                // identifier styles: snake_case, camelCase, upper case with digits (member and struct names)
                let (mname, sname) = match loc { 0 => ("attr_b", "VertIn"), 3 => ("texCoord", "vertexInput"), _ => ("UV0", "VERTEX_IN2") };
                let mut members = vec![Member::located(mname, t.clone(), loc)];
                if let Some(p) = bpos {
                    members.insert(*p, Member::builtin("vidx", Ty::Scalar(Scalar::U32), "vertex_index"));
                }
                out.push(build(vec![StructDef { name: sname.into(), members }], vec![("vs_main".into(), vec![Some(0)])], format!("s1|{}|builtin={bpos:?}|loc={loc}", t.wgsl())));
            }
        }
    }
    // one struct, two members: full product of types, location patterns, builtin position rotating
    let patterns: [(u32, u32); 3] = [(0, 1), (3, 7), (5, 1)];
    let mut n = 0usize;
    for a in &types {
        for b in &types {
            for (la, lb) in patterns {
                n += 1;
                if !thorough && n % 3 != 0 {
                    continue;
                }
                let (na, nb) = match la { 0 => ("zz_first", "aa_second"), 3 => ("zzFirst", "aaSecond"), _ => ("ZZ_1st", "aa") };
                let mut members = vec![Member::located(na, a.clone(), la), Member::located(nb, b.clone(), lb)];
                match n % 4 {
                    0 => members.insert(0, Member::builtin("vidx", Ty::Scalar(Scalar::U32), "vertex_index")),
                    1 => members.insert(1, Member::builtin("iidx", Ty::Scalar(Scalar::U32), "instance_index")),
                    2 => members.push(Member::builtin("vidx", Ty::Scalar(Scalar::U32), "vertex_index")),
                    _ => {}
                }
                out.push(build(vec![StructDef { name: "VertIn".into(), members }], vec![("vs_main".into(), vec![Some(0)])], format!("s2|{}|{}|loc={la},{lb}|b={}", a.wgsl(), b.wgsl(), n % 4)));
            }
        }
    }
    // entry shapes over a few struct pairs
    let f = Scalar::F32;
    let pairs: Vec<(Ty, Ty)> = vec![(Ty::Vec(3, f), Ty::Vec(4, f)), (Ty::Vec(4, f), Ty::Scalar(f)), (Ty::Vec(2, Scalar::U32), Ty::Vec(3, Scalar::F64)), (Ty::Scalar(Scalar::I32), Ty::Vec(3, f))];
    for (i, (a, b)) in pairs.iter().enumerate() {
        let s0 = StructDef { name: "Zeta".into(), members: vec![Member::located("pos", a.clone(), 0), Member::builtin("vidx", Ty::Scalar(Scalar::U32), "vertex_index"), Member::located("extra", Ty::Vec(2, f), 4)] };
        let s1 = StructDef { name: "AlphaInst".into(), members: vec![Member::located(if i % 2 == 1 { "instOffs" } else { "offs" }, b.clone(), 2), Member::located("tint", Ty::Vec(4, f), 9)] };
        out.push(build(vec![s0.clone(), s1.clone()], vec![("vs_main".into(), vec![Some(0), Some(1)])], format!("entry|two-structs|{i}")));
        out.push(build(vec![s0.clone(), s1.clone()], vec![("vs_main".into(), vec![Some(1), Some(0)])], format!("entry|two-structs-swapped|{i}")));
        out.push(build(vec![s0.clone(), s1.clone()], vec![("vs_main".into(), vec![Some(0), None])], format!("entry|struct+builtin|{i}")));
        out.push(build(vec![s0.clone(), s1.clone()], vec![("vs_main".into(), vec![None, Some(1), Some(0)])], format!("entry|builtin+two-structs|{i}")));
        out.push(build(vec![s0.clone(), s1.clone()], vec![("vs_a".into(), vec![Some(0)]), ("vs_b".into(), vec![Some(0)])], format!("entry|shared-struct|{i}")));
        out.push(build(vec![s0.clone(), s1.clone()], vec![("vs_a".into(), vec![Some(0)]), ("vs_b".into(), vec![Some(1)])], format!("entry|two-entries|{i}")));
        out.push(build(vec![s0.clone(), s1.clone()], vec![("vs_a".into(), vec![Some(1), Some(0)]), ("vs_b".into(), vec![Some(0)]), ("vs_c".into(), vec![])], format!("entry|three-entries|{i}")));
        // a struct parameter made only of builtins still counts: empty attribute table, its own buffer slot
        let bo = StructDef { name: "OnlyBuiltins".into(), members: vec![Member::builtin("vi", Ty::Scalar(Scalar::U32), "vertex_index"), Member::builtin("ii", Ty::Scalar(Scalar::U32), "instance_index")] };
        let s0nb = StructDef { name: "Zeta".into(), members: vec![Member::located("pos", a.clone(), 0), Member::located("extra", Ty::Vec(2, f), 4)] };
        out.push(build(vec![s0nb.clone(), bo.clone(), s1.clone()], vec![("vs_main".into(), vec![Some(0), Some(1), Some(2)])], format!("entry|builtin-only-struct-middle|{i}")));
        out.push(build(vec![s0nb.clone(), bo.clone(), s1.clone()], vec![("vs_main".into(), vec![Some(1), Some(0)])], format!("entry|builtin-only-struct-first|{i}")));
        out.push(build(vec![s0nb.clone(), bo.clone(), s1.clone()], vec![("vs_main".into(), vec![Some(1)])], format!("entry|builtin-only-struct-alone|{i}")));
        // two entries whose structs reuse the same locations with different types
        let o0 = StructDef { name: "MeshVertex".into(), members: vec![Member::located("position", a.clone(), 0), Member::located("uv", Ty::Vec(2, f), 1)] };
        let o1 = StructDef { name: "SpriteVertex".into(), members: vec![Member::located("cell", b.clone(), 0), Member::located("layer", Ty::Vec(4, Scalar::U32), 1)] };
        out.push(build(vec![o0.clone(), o1.clone()], vec![("vs_mesh".into(), vec![Some(0)]), ("vs_sprite".into(), vec![Some(1)])], format!("entry|overlapping-locations|{i}")));
        out.push(build(vec![o1.clone(), o0.clone()], vec![("vs_sprite".into(), vec![Some(0)]), ("vs_mesh".into(), vec![Some(1)])], format!("entry|overlapping-locations-swapped|{i}")));
        // a shared struct with another struct collected between its uses
        out.push(build(vec![s0.clone(), s1.clone()], vec![("vs_a".into(), vec![Some(0), Some(1)]), ("vs_b".into(), vec![Some(0)])], format!("entry|shared-interleaved-aba|{i}")));
        out.push(build(vec![s0.clone(), s1.clone()], vec![("vs_a".into(), vec![Some(0)]), ("vs_b".into(), vec![Some(1)]), ("vs_c".into(), vec![Some(0)])], format!("entry|shared-interleaved-a-b-a|{i}")));
        out.push(build(vec![s0.clone(), s1.clone()], vec![("vs_a".into(), vec![Some(1), Some(0)]), ("vs_b".into(), vec![Some(1), Some(0)])], format!("entry|shared-both-twice|{i}")));
        out.push(build(vec![s0.clone(), s1.clone()], vec![("vs_a".into(), vec![Some(0), Some(1)]), ("vs_b".into(), vec![Some(1), Some(0)])], format!("entry|shared-both-swapped|{i}")));
    }
    out
}

fn configs(thorough: bool) -> Vec<Config> {
    let mut v = vec![];
    for repr in [Repr::Rust, Repr::Glam, Repr::Nalgebra] {
        for bv in [false, true] {
            for enc in [false, true] {
                if !thorough && enc && bv {
                    continue;
                }
                v.push(Config { bytemuck_vertex: bv, encase: enc, repr, ..Config::default() });
            }
        }
    }
    v
}

fn m_top_struct<'a>(m: &'a omodel::Module, name: &str) -> Option<&'a omodel::StructInfo> {
    m.top.structs.iter().find(|s| s.name == name)
}

pub fn check_model(p: &Prog, text: &str) -> (Vec<String>, BTreeMap<String, Vec<(u32, wgpu_types::VertexFormat)>>) {
    let mut out = vec![];
    let mut formats: BTreeMap<String, Vec<(u32, wgpu_types::VertexFormat)>> = BTreeMap::new();
    let m = omodel::parse(text).unwrap_or_else(|e| machinery(&format!("C07: {e}")));
    let impls = match m.vertex_impls() {
        Ok(i) => i,
        Err(omodel::interp::UnknownName::NoSuchVariant(v)) => return (vec![format!("attribute table {v}")], formats),
        Err(e) => machinery(&format!("C07: {e}")),
    };
    let used: Vec<usize> = {
        let mut u: Vec<usize> = p.entries.iter().flat_map(|(_, ps)| ps.iter().flatten().copied()).collect();
        u.sort();
        u.dedup();
        u
    };
    let mut names: Vec<String> = impls.iter().map(|i| i.struct_name.clone()).collect();
    names.sort();
    let mut want_names: Vec<String> = used.iter().map(|i| p.structs[*i].name.clone()).collect();
    want_names.sort();
    if names != want_names {
        out.push(format!("attribute tables for {names:?}, vertex input structs are {want_names:?}"));
    }
    for si in &used {
        let s = &p.structs[*si];
        let imp = match impls.iter().find(|i| i.struct_name == s.name) {
            Some(i) => i,
            None => continue,
        };
        let emitted = m_top_struct(&m, &s.name);
        let located: Vec<&Member> = s.members.iter().filter(|m| m.attrs.location.is_some()).collect();
        if imp.attrs.len() != located.len() || imp.declared_count != format!("[wgpu::VertexAttribute;{}]", located.len()) {
            out.push(format!("{}: {} attributes ({}) for {} @location members", s.name, imp.attrs.len(), imp.declared_count, located.len()));
        }
        let mut f = vec![];
        for m in &located {
            let loc = m.attrs.location.unwrap();
            let hits: Vec<&omodel::VertexAttr> = imp.attrs.iter().filter(|a| a.location == loc as u64).collect();
            if hits.len() != 1 {
                out.push(format!("{}: {} attributes carry location {loc} of member {}", s.name, hits.len(), m.name));
                continue;
            }
            let a = hits[0];
            let want = wgslgen::vertex_format_name(&m.ty).unwrap();
            if format!("{:?}", a.format) != want {
                out.push(format!("{}.{}: format {:?}, WGSL type {} needs {want}", s.name, m.name, a.format, m.ty.wgsl()));
            }
            if a.offset_field.starts_with("<literal") {
                // judged by the executed probe (numeric offset against the real offset_of!)
            } else if a.offset_struct != s.name || a.offset_field != m.name {
                out.push(format!("{}.{}: offset taken from {}::{}", s.name, m.name, a.offset_struct, a.offset_field));
            }
            // "the byte offset of the corresponding Rust field": the emitted struct must have that field
            match emitted {
                _ if a.offset_field.starts_with("<literal") => {}
                Some(st) if st.fields.iter().any(|f| f.name == a.offset_field) => {}
                Some(st) => out.push(format!("{}.{}: offset_of names field `{}` but the emitted struct has fields {:?}", s.name, m.name, a.offset_field, st.fields.iter().map(|f| f.name.clone()).collect::<Vec<_>>())),
                None => out.push(format!("{}: attribute table for a struct that is not emitted", s.name)),
            }
            f.push((loc, a.format));
        }
        if imp.stride_struct != s.name {
            out.push(format!("{}: stride is the size of {}", s.name, imp.stride_struct));
        }
        if !imp.step_mode_forwarded {
            out.push(format!("{}: vertex_buffer_layout does not use the caller's step mode", s.name));
        }
        if imp.attributes_ref != format!("{}::VERTEX_ATTRIBUTES", s.name) && imp.attributes_ref != "Self::VERTEX_ATTRIBUTES" {
            out.push(format!("{}: layout refers to attributes `{}`", s.name, imp.attributes_ref));
        }
        formats.insert(s.name.clone(), f);
    }
    (out, formats)
}

pub fn probe_code(p: &Prog) -> String {
    let mut s = String::from("    use generated::*;\n");
    let mut used: Vec<usize> = p.entries.iter().flat_map(|(_, ps)| ps.iter().flatten().copied()).collect();
    used.sort();
    used.dedup();
    for si in used {
        let st = &p.structs[si];
        let n = &st.name;
        let located: Vec<&Member> = st.members.iter().filter(|m| m.attrs.location.is_some()).collect();
        let offs: Vec<String> = located.iter().map(|m| format!("(\"{}\", std::mem::offset_of!({n}, {}))", m.name, m.name)).collect();
        s.push_str(&format!(
            "    {{\n        let l = {n}::vertex_buffer_layout(wgpu::VertexStepMode::Instance);\n        let attrs: Vec<String> = l.attributes.iter().map(|a| format!(\"[{{}},{{}},\\\"{{:?}}\\\"]\", a.shader_location, a.offset, a.format)).collect();\n        let real: Vec<(&str, usize)> = vec![{}];\n        let real_s: Vec<String> = real.iter().map(|(f, o)| format!(\"[\\\"{{f}}\\\",{{o}}]\")).collect();\n        out.push(format!(\"{{{{\\\"op\\\":\\\"vlayout\\\",\\\"struct\\\":\\\"{n}\\\",\\\"stride\\\":{{}},\\\"size_of\\\":{{}},\\\"step\\\":\\\"{{:?}}\\\",\\\"attrs\\\":[{{}}],\\\"real_offsets\\\":[{{}}]}}}}\", l.array_stride, std::mem::size_of::<{n}>(), l.step_mode, attrs.join(\",\"), real_s.join(\",\")));\n    }}\n",
            offs.join(", ")
        ));
    }
    for (name, params) in &p.entries {
        let k = params.iter().flatten().count();
        let modes: Vec<&str> = (0..k).map(|i| if i % 2 == 0 { "wgpu::VertexStepMode::Instance" } else { "wgpu::VertexStepMode::Vertex" }).collect();
        s.push_str(&format!(
            "    {{\n        let e = {name}_entry({});\n        let b: Vec<String> = e.buffers.iter().map(|l| format!(\"[{{}},\\\"{{:?}}\\\",{{}}]\", l.array_stride, l.step_mode, l.attributes.len())).collect();\n        let locs: Vec<String> = e.buffers.iter().map(|l| format!(\"[{{}}]\", l.attributes.iter().map(|a| a.shader_location.to_string()).collect::<Vec<_>>().join(\",\"))).collect();\n        out.push(format!(\"{{{{\\\"op\\\":\\\"ventry\\\",\\\"entry\\\":\\\"{name}\\\",\\\"buffers\\\":[{{}}],\\\"locations\\\":[{{}}]}}}}\", b.join(\",\"), locs.join(\",\")));\n    }}\n",
            modes.join(", ")
        ));
    }
    s
}

pub fn run(tier: &str) -> i32 {
    let mut rep = Report::new("C07", tier);
    let thorough = rep.thorough();
    let mut progs = space(thorough);
    // vertex input structs that are also the type (or element type) of a storage variable: the attribute table still
    // describes the Rust struct
    for sp in crate::c05::io_host_space() {
        if sp.key.contains("role=fs-return") && !sp.key.contains("vs-param") {
            continue;
        }
        let root = sp.env.get(&sp.root).clone();
        progs.push(Prog { key: format!("also-global|{}", sp.key), src: sp.src.clone(), structs: vec![root], entries: vec![("vs_main".to_string(), vec![Some(0)])] });
    }
    // the vertex structs also pass through ordinary functions (parameter, result, local variable)
    {
        let n0 = progs.len();
        for i in 0..n0 {
            if !(progs[i].key.starts_with("entry|") || i % 9 == 0) {
                continue;
            }
            let mut q = progs[i].clone();
            for (k, sd) in progs[i].structs.iter().enumerate() {
                q.src.push_str(&format!("fn displace_{k}(v: {n}) -> {n} {{\n    var local_copy: {n} = v;\n    return local_copy;\n}}\n", n = sd.name));
            }
            q.key = format!("{}|through-helpers", q.key);
            progs.push(q);
        }
    }
    // member types written through `alias` declarations (every 4th program)
    {
        let n0 = progs.len();
        for i in 0..n0 {
            if thorough || i % 4 == 1 {
                if let Some(src) = alias_types(&progs[i].src) {
                    if naga_check(&src).is_ok() {
                        let mut q = progs[i].clone();
                        q.key = format!("{}|aliased-types", q.key);
                        q.src = src;
                        progs.push(q);
                    }
                }
            }
        }
    }
    // entry points of other stages declared before / between the vertex entries
    {
        let n0 = progs.len();
        for i in 0..n0 {
            if !progs[i].key.starts_with("entry|") {
                continue;
            }
            let first = progs[i].src.find("@vertex");
            let last = progs[i].src.rfind("@vertex");
            if let (Some(a), Some(b)) = (first, last) {
                let mut q = progs[i].clone();
                q.src.insert_str(b, "@compute @workgroup_size(1) fn cs_between() {\n}\n");
                q.src.insert_str(a, "@fragment fn fs_first() -> @location(0) vec4<f32> {\n    return vec4<f32>(0.0);\n}\n");
                q.key = format!("{}|other-stages-first", q.key);
                progs.push(q);
            }
        }
    }
    // module-scope declaration order is not significant: reversed / functions-first variants (every 4th in quick)
    let n0 = progs.len();
    for i in 0..n0 {
        if thorough || hash64(&progs[i].key) % 4 == 1 {
            for how in ["reverse", "entries-first", "interleave"] {
                if let Some(src) = reorder_decls(&progs[i].src, how) {
                    let mut q = progs[i].clone();
                    q.key = format!("{}|decl-order={how}", q.key);
                    q.src = src;
                    progs.push(q);
                }
            }
        }
    }
    let cfgs = configs(thorough);
    let items: Vec<(usize, usize)> = (0..progs.len()).flat_map(|p| (0..cfgs.len()).map(move |c| (p, c))).collect();
    let res = par_map(&items, |(pi, ci)| {
        let p = &progs[*pi];
        match generate(&p.src, &cfgs[*ci]) {
            Outcome::Ok(t) => {
                let (v, f) = check_model(p, &t);
                (Some(t), v, f)
            }
            other => (None, vec![other.class()], BTreeMap::new()),
        }
    });
    // naga + wgpu validation per program (independent of configuration except for the formats read)
    let naga: Vec<Option<(naga::Module, naga::valid::ModuleInfo)>> = par_map(&progs, |p| naga_check(&p.src).ok());
    let mut cases = vec![];
    let mut index: BTreeMap<String, (usize, usize)> = BTreeMap::new();
    let stride = if thorough { 4 } else { (items.len() / 110).max(1) };
    for (k, ((pi, ci), (t, v, formats))) in items.iter().zip(res.iter()).enumerate() {
        let (p, c) = (&progs[*pi], &cfgs[*ci]);
        rep.states += 1;
        rep.transitions += p.structs.iter().map(|s| s.members.len() as u64).sum::<u64>();
        rep.evaluations += 1;
        let case = format!("{}|{}", p.key, c.key());
        let (module, info) = match &naga[*pi] {
            Some(x) => x,
            None => {
                rep.filtered("naga rejects the shader");
                continue;
            }
        };
        let t = match t {
            Some(t) => t,
            None => {
                rep.generation_failed(case.clone(), &v[0], &p.src, c);
                continue;
            }
        };
        rep.nontrivial.insert(hash64(&case));
        for x in v {
            rep.violation(case.clone(), format!("model: {x}"), json!({"wgsl": p.src, "config": c.key(), "observed": x}));
        }
        // wgpu's vertex-input validation for every entry with the attributes the module declares
        let inputs = |entry: &str| -> Vec<(u32, wgpu_types::VertexFormat)> {
            p.entries.iter().find(|(n, _)| n == entry).map(|(_, ps)| ps.iter().flatten().flat_map(|si| formats.get(&p.structs[*si].name).cloned().unwrap_or_default()).collect()).unwrap_or_default()
        };
        // (programs that also declare a storage variable are left to the executed probe: their bind group layouts are
        // C02's subject, and the interface check would need them)
        let verdicts = if p.key.starts_with("also-global|") { vec![] } else { wgpucheck::check_all_stages(module, info, &[], &inputs).0 };
        for vd in verdicts {
            if let Err(e) = vd.provided {
                rep.violation(case.clone(), format!("wgpu check_stage({}) rejects the vertex inputs: {}", vd.entry, e.chars().take(120).collect::<String>()), json!({"wgsl": p.src, "config": c.key(), "observed": e}));
            }
        }
        if k % stride == 0 || p.key.starts_with("entry|") && (thorough || ci % 3 == 0) || p.key.starts_with("also-global|") && (thorough || (pi + ci) % 6 == 0) {
            let name = format!("c_{pi:04}_{ci:02}");
            index.insert(name.clone(), (*pi, *ci));
            cases.push(ProbeCase { name, generated: t.clone(), probe_body: probe_code(p), probe_items: String::new(), files: vec![] });
        }
    }
    let results = probe::run_batch("C07", &cases, true);
    let limits = wgpucheck::permissive_limits();
    for cr in &results {
        let (pi, ci) = index[&cr.name];
        let (p, c) = (&progs[pi], &cfgs[ci]);
        let case = format!("{}|{}", p.key, c.key());
        let detail = |obs: String| json!({"wgsl": p.src, "config": c.key(), "observed": obs});
        match &cr.check {
            Verdict::Accepted => {}
            Verdict::Rejected(e) => {
                // the deliberate rejection: Pod on a vertex struct with padding (bytemuck vertex switch). Anything else that
                // keeps these modules (vertex structs + trivial entries) from compiling is the attribute table / helpers
                if e.iter().all(|x| x.0 == "E0277" && (x.1.contains("SMatrix") || x.1.contains("SVector"))) {
                    rep.filtered("compiled subset: nalgebra stand-in types have no encase implementation");
                } else if e.iter().all(|x| x.0 == "E0080" && (x.1.contains("Pod") || x.1.contains("does not match WGSL"))) {
                    rep.filtered("compiled subset: Pod's no-padding rule rejects the vertex struct (bytemuck vertex switch)");
                } else {
                    rep.violation(case, format!("exec: vertex structs / attribute tables / entry helpers do not compile: {} {}", e[0].0, e[0].1.chars().take(90).collect::<String>()), detail(format!("{e:?}")));
                }
                continue;
            }
            Verdict::ProbeMismatch(e) => {
                rep.violation(case, format!("exec: vertex helpers cannot be used as the entry's parameters require: {} {}", e[0].0, e[0].1.chars().take(90).collect::<String>()), detail(format!("{e:?}")));
                continue;
            }
        }
        rep.traces_validated += 1;
        let mut layouts: BTreeMap<String, (u64, Vec<wgpu_types::VertexAttribute>)> = BTreeMap::new();
        for r in cr.records.iter().filter(|r| r["op"] == "vlayout") {
            let sname = r["struct"].as_str().unwrap();
            let st = p.structs.iter().find(|s| s.name == sname).unwrap();
            if r["stride"] != r["size_of"] {
                rep.violation(case.clone(), format!("exec: stride of {sname} is {} but size_of is {}", r["stride"], r["size_of"]), detail(r.to_string()));
            }
            if r["step"] != "Instance" {
                rep.violation(case.clone(), format!("exec: vertex_buffer_layout of {sname} ignores the step mode"), detail(r.to_string()));
            }
            let real: BTreeMap<String, u64> = r["real_offsets"].as_array().unwrap().iter().map(|x| (x[0].as_str().unwrap().to_string(), x[1].as_u64().unwrap())).collect();
            let mut attrs = vec![];
            for a in r["attrs"].as_array().unwrap() {
                let loc = a[0].as_u64().unwrap() as u32;
                let off = a[1].as_u64().unwrap();
                let fmt = omodel::interp::vertex_format_by_name(a[2].as_str().unwrap()).unwrap();
                match st.members.iter().find(|m| m.attrs.location == Some(loc)) {
                    Some(m) => {
                        if real.get(&m.name) != Some(&off) {
                            rep.violation(case.clone(), format!("exec: attribute at location {loc} has offset {off}, field {sname}.{} is at {:?}", m.name, real.get(&m.name)), detail(r.to_string()));
                        }
                        if format!("{fmt:?}") != wgslgen::vertex_format_name(&m.ty).unwrap() {
                            rep.violation(case.clone(), format!("exec: attribute at location {loc} has format {fmt:?}, member type {}", m.ty.wgsl()), detail(r.to_string()));
                        }
                    }
                    None => rep.violation(case.clone(), format!("exec: attribute with location {loc} which no member of {sname} has"), detail(r.to_string())),
                }
                attrs.push(wgpu_types::VertexAttribute { format: fmt, offset: off, shader_location: loc });
            }
            let n_loc = st.members.iter().filter(|m| m.attrs.location.is_some()).count();
            if attrs.len() != n_loc {
                rep.violation(case.clone(), format!("exec: {sname} has {} attributes for {n_loc} @location members", attrs.len()), detail(r.to_string()));
            }
            layouts.insert(sname.to_string(), (r["stride"].as_u64().unwrap(), attrs));
        }
        for (ename, params) in &p.entries {
            let r = match cr.records.iter().find(|r| r["op"] == "ventry" && r["entry"] == ename.as_str()) {
                Some(r) => r,
                None => {
                    rep.violation(case.clone(), format!("exec: no record for {ename}"), detail(String::new()));
                    continue;
                }
            };
            let structs: Vec<&wgslgen::StructDef> = params.iter().flatten().map(|i| &p.structs[*i]).collect();
            let got = r["buffers"].as_array().unwrap();
            if got.len() != structs.len() {
                rep.violation(case.clone(), format!("exec: {ename}_entry yields {} layouts for {} struct parameters", got.len(), structs.len()), detail(r.to_string()));
                continue;
            }
            let mut buffers = vec![];
            for (i, (g, s)) in got.iter().zip(structs.iter()).enumerate() {
                let want_mode = if i % 2 == 0 { "Instance" } else { "Vertex" };
                let want_locs: Vec<u64> = s.members.iter().filter_map(|m| m.attrs.location.map(|l| l as u64)).collect();
                let mut got_locs: Vec<u64> = r["locations"][i].as_array().unwrap().iter().map(|x| x.as_u64().unwrap()).collect();
                got_locs.sort();
                let mut wl = want_locs.clone();
                wl.sort();
                if g[1] != want_mode || got_locs != wl {
                    rep.violation(case.clone(), format!("exec: buffer {i} of {ename}_entry is not the layout of parameter struct {} with the caller's step mode ({} / locations {got_locs:?})", s.name, g[1]), detail(r.to_string()));
                }
                if let Some(l) = layouts.get(&s.name) {
                    buffers.push(l.clone());
                }
            }
            if let Err(e) = wgpucheck::vertex_buffer_rules(&buffers, &limits) {
                rep.violation(case.clone(), format!("exec: wgpu's vertex buffer validation rejects {ename}: {e}"), detail(r.to_string()));
            }
            rep.outcomes.insert(format!("{:?}", buffers.iter().map(|b| (b.0, b.1.iter().map(|a| a.offset).collect::<Vec<_>>())).collect::<Vec<_>>()));
        }
    }
    rep.set("compiled_modules", json!(cases.len()));
    rep.sample(json!({"key": progs[3].key, "wgsl": progs[3].src}));
    rep.sample(json!({"key": progs[progs.len() - 1].key, "wgsl": progs[progs.len() - 1].src}));
    rep.rule = format!("vertex input structs: every 1-member struct over the 16 attribute types ({{f32,i32,u32,f64}} x {{scalar,vec2,vec3,vec4}}) x builtin absent/before/after x locations {{0,3,7}}; {} 2-member structs x location patterns {{(0,1),(3,7),(5,1)}} with a builtin at rotating positions; entry shapes (two structs both orders, struct+builtin, builtin+two structs, one struct shared by two entries, two/three entries) over 4 struct pairs; x {} configurations (3 representations x bytemuck-vertex x encase). omodel + real wgpu check_stage(VERTEX, attributes) on every state; a spread subset compiled and executed: attribute offsets vs rustc's offset_of!, stride vs size_of, per-entry buffer order and step modes, transcribed vertex-buffer rules.", if thorough { "all" } else { "every third of the" }, cfgs.len());
    rep.finish()
}
