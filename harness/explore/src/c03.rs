//! C03 — binding visibility equals exactly the statically using stages.
//! (A) call graphs × entry sets × call forms, (B) placements of calls and accesses, (C) several
//! entries per stage / shared helpers. Oracle: stages by construction, cross-checked against naga's
//! validator (`ModuleInfo`), observed through `omodel`.
use crate::common::*;
use crate::progs::*;
use serde_json::json;
use std::collections::BTreeMap;
use wgpu_types::ShaderStages;

pub struct Prog {
    pub key: String,
    pub src: String,
    /// variable name -> (group, binding, expected stages); binding u32::MAX = push constant
    pub expect: Vec<(String, u32, u32, ShaderStages)>,
    pub steps: u64,
}

/// naga's reading of which stages use which global (independent of the generator).
pub fn naga_stage_map(module: &naga::Module, info: &naga::valid::ModuleInfo) -> BTreeMap<String, ShaderStages> {
    let mut m = BTreeMap::new();
    for (h, g) in module.global_variables.iter() {
        let mut s = ShaderStages::NONE;
        for (i, ep) in module.entry_points.iter().enumerate() {
            if !info.get_entry_point(i)[h].is_empty() {
                s |= match ep.stage {
                    naga::ShaderStage::Vertex => ShaderStages::VERTEX,
                    naga::ShaderStage::Fragment => ShaderStages::FRAGMENT,
                    naga::ShaderStage::Compute => ShaderStages::COMPUTE,
                };
            }
        }
        if let Some(n) = &g.name {
            m.insert(n.clone(), s);
        }
    }
    m
}

/// Visibility per (group, binding) and PUSH_CONSTANT_STAGES as read from the generated module.
pub fn observed_visibility(text: &str) -> Result<(BTreeMap<(u32, u32), ShaderStages>, Option<ShaderStages>), String> {
    let m = omodel::parse(text)?;
    let bg = m.bind_groups().map_err(|e| e.to_string())?;
    let mut out = BTreeMap::new();
    for g in &bg.groups {
        for e in &g.layout_entries {
            if out.insert((g.index, e.binding), e.visibility).is_some() {
                return Err(format!("two layout entries for group {} binding {}", g.index, e.binding));
            }
        }
    }
    Ok((out, m.push_constant_stages()?))
}

pub fn check_prog(p: &Prog, rep: &mut Report) {
    rep.states += 1;
    rep.transitions += p.steps;
    let (module, info) = match naga_check(&p.src) {
        Ok(x) => x,
        Err(e) => machinery(&format!("C03 generator produced a shader naga rejects ({}): {e}\n{}", p.key, p.src)),
    };
    let naga_map = naga_stage_map(&module, &info);
    for (name, _, _, exp) in &p.expect {
        let n = naga_map.get(name).copied().unwrap_or(ShaderStages::NONE);
        // naga's GlobalUse is empty for a variable that is only named (`_ = res;`, `let p = &res;`), although the function
        // statically accesses it in WGSL's sense; for programs with such forms naga's answer may only be a subset
        let names_only = p.src.contains("_ = ") || p.src.contains("let up");
        if (names_only && !exp.contains(n)) || (!names_only && n != *exp) {
            machinery(&format!(
                "C03 oracle self-disagreement on `{name}` in {}: by construction {} vs naga {}\n{}",
                p.key,
                stages_str(*exp),
                stages_str(n),
                p.src
            ));
        }
    }
    // encase on: the runtime-array resource kind is only supported with it
    let cfg = Config { encase: true, ..Config::default() };
    rep.evaluations += 1;
    let text = match generate(&p.src, &cfg) {
        Outcome::Ok(t) => t,
        other => {
            rep.generation_failed(p.key.clone(), &other.class(), &p.src, &cfg);
            return;
        }
    };
    let (vis, pc) = match observed_visibility(&text) {
        Ok(x) => x,
        Err(e) => machinery(&format!("C03 cannot read generated module for {}: {e}", p.key)),
    };
    let mut outcome = String::new();
    for (name, group, binding, exp) in &p.expect {
        let obs = if *binding == u32::MAX {
            match pc {
                Some(s) => s,
                None => {
                    rep.violation(
                        format!("{}|var={name}", p.key),
                        "no PUSH_CONSTANT_STAGES emitted",
                        json!({"wgsl": p.src, "config": cfg.key(), "var": name}),
                    );
                    continue;
                }
            }
        } else {
            match vis.get(&(*group, *binding)) {
                Some(s) => *s,
                None => {
                    rep.violation(
                        format!("{}|var={name}", p.key),
                        "no layout entry for the binding",
                        json!({"wgsl": p.src, "config": cfg.key(), "var": name, "group": group, "binding": binding}),
                    );
                    continue;
                }
            }
        };
        outcome.push_str(&stages_str(obs));
        outcome.push(',');
        // push constants: an unused variable falls back to all entry stages (C13); C03 speaks of the used case
        if *binding == u32::MAX && exp.is_empty() {
            continue;
        }
        if obs != *exp {
            let kind = if obs.contains(*exp) { "extra-stage" } else if exp.contains(obs) { "missing-stage" } else { "wrong-stages" };
            rep.violation(
                format!("{}|var={name}", p.key),
                format!("{kind}: expected {} observed {}", stages_str(*exp), stages_str(obs)),
                json!({"wgsl": p.src, "config": cfg.key(), "var": name, "expected": stages_str(*exp), "observed": stages_str(obs)}),
            );
        }
    }
    rep.nontrivial.insert(hash64(&p.src));
    rep.outcomes.insert(outcome);
    // visibility does not depend on the write options: the same program under a second option set (validation on,
    // other derives, another representation) must give the same table. Quick tier: every 4th program.
    let space_a = p.key.starts_with("A|");
    if (rep.thorough() && (!space_a || hash64(&p.key) % 4 == 0)) || (!rep.thorough() && hash64(&p.key) % 6 == 0) {
        let alt = Config { validate: Validate::All, bytemuck_vertex: true, serde: true, repr: Repr::Nalgebra, encase: true, ..Config::default() };
        rep.evaluations += 1;
        match generate(&p.src, &alt) {
            Outcome::Ok(t2) => match observed_visibility(&t2) {
                Ok((vis2, pc2)) => {
                    if vis2 != vis || pc2 != pc {
                        rep.violation(format!("{}|options", p.key), "visibility table differs between two option sets".to_string(), json!({"wgsl": p.src, "config": alt.key(), "base": cfg.key()}));
                    }
                }
                Err(e) => machinery(&format!("C03 cannot read generated module for {} ({}): {e}", p.key, alt.key())),
            },
            other => rep.violation(format!("{}|options", p.key), format!("generation fails under a second option set: {}", other.class().chars().take(80).collect::<String>()), json!({"wgsl": p.src, "config": alt.key()})),
        }
    }
}

// ---------------------------------------------------------------------------------------------
// (A) call graphs

struct FnSpec {
    name: String,
    stage: Option<Stage>,
    calls: Vec<usize>,
}

/// One resource per function (touched only there): covers every choice of "the function that touches it".
/// Which functions touch which resource.
#[derive(Clone, Copy, Debug, PartialEq, Eq)]
pub enum Touch {
    /// every function touches its own resource (covers every choice of "the" toucher)
    Own,
    /// every helper touches one shared resource (walks that add nothing new to the table)
    SharedAll,
    /// only helpers without callees touch the shared resource; the others touch nothing
    SharedLeaves,
}

fn build_graph_program(entries: &[Stage], k: usize, dag_mask: usize, entry_calls: &[usize], form: CallForm, kinds_offset: usize, touch_mode: Touch, descending: bool, key: String) -> Prog {
    build_graph_program_b(entries, k, dag_mask, entry_calls, form, kinds_offset, touch_mode, descending, false, key)
}

/// `reverse_bindings`: declaration order has descending @binding indices.
#[allow(clippy::too_many_arguments)]
fn build_graph_program_b(entries: &[Stage], k: usize, dag_mask: usize, entry_calls: &[usize], form: CallForm, kinds_offset: usize, touch_mode: Touch, descending: bool, reverse_bindings: bool, key: String) -> Prog {
    // helpers h0..h{k-1}; forward edges (i<j) numbered lexicographically
    let mut fns: Vec<FnSpec> = vec![];
    let mut edge = 0;
    for i in 0..k {
        let mut calls = vec![];
        for j in (i + 1)..k {
            if dag_mask & (1 << edge) != 0 {
                calls.push(j);
            }
            edge += 1;
        }
        fns.push(FnSpec { name: format!("h{i}"), stage: None, calls });
    }
    let mut stage_count: BTreeMap<Stage, usize> = BTreeMap::new();
    for (ei, st) in entries.iter().enumerate() {
        let n = stage_count.entry(*st).or_insert(0);
        let name = format!("{}{}", match st { Stage::V => "vs", Stage::F => "fs", Stage::C => "cs" }, n);
        *n += 1;
        let calls = (0..k).filter(|h| entry_calls[ei] & (1 << h) != 0).collect();
        fns.push(FnSpec { name, stage: Some(*st), calls });
    }
    // reachability: stages per function
    let nf = fns.len();
    let mut stages = vec![ShaderStages::NONE; nf];
    for (i, f) in fns.iter().enumerate() {
        if let Some(st) = f.stage {
            let mut stack = vec![i];
            let mut seen = vec![false; nf];
            while let Some(x) = stack.pop() {
                if seen[x] {
                    continue;
                }
                seen[x] = true;
                stages[x] |= st.bit();
                for c in &fns[x].calls {
                    stack.push(*c);
                }
            }
        }
    }
    // resources: function i touches resource r{i}; kinds rotate. Avoid kinds that are stage-restricted in naga (none are).
    let mut decls = String::from(ResKind::TYPES);
    let mut expect = vec![];
    let mut binding = 0u32;
    let mut touch = vec![];
    if touch_mode == Touch::Own {
        // with reversed bindings the first declared resource gets the highest index
        let total_slots: u32 = (0..nf).map(|i| ResKind::BINDABLE[(i + kinds_offset) % ResKind::BINDABLE.len()].slots()).sum();
        for i in 0..nf {
            let kind = ResKind::BINDABLE[(i + kinds_offset) % ResKind::BINDABLE.len()];
            let name = format!("r{i}");
            let this_binding = if reverse_bindings { total_slots + 1 - binding - kind.slots() } else { binding };
            let (d, vars) = kind.decl(&name, 0, this_binding);
            decls.push_str(&d);
            for (vn, b) in vars {
                expect.push((vn, 0, b, stages[i]));
            }
            binding += kind.slots();
            let acc = kind.accesses(&name, i);
            touch.push(acc[(i + kinds_offset) % acc.len()].1.full.clone());
        }
    } else {
        let kind = ResKind::BINDABLE[kinds_offset % ResKind::BINDABLE.len()];
        let (d, vars) = kind.decl("shared_res", 0, binding);
        decls.push_str(&d);
        binding += kind.slots();
        let acc = kind.accesses("shared_res", 0);
        let mut st = ShaderStages::NONE;
        for i in 0..nf {
            let toucher = fns[i].stage.is_none() && (touch_mode == Touch::SharedAll || fns[i].calls.is_empty());
            if toucher {
                st |= stages[i];
                // uid-dependent local names: one access form without locals is enough here
                touch.push(acc[0].1.full.replace("0 =", &format!("{i} =")));
            } else {
                touch.push(String::new());
            }
        }
        for (vn, b) in vars {
            expect.push((vn, 0, b, st));
        }
    }
    // one more resource nobody touches
    let ub = if reverse_bindings { 0 } else { binding };
    let (d, vars) = ResKind::Uniform.decl("untouched", 0, ub);
    decls.push_str(&d);
    expect.push((vars[0].0.clone(), 0, ub, ShaderStages::NONE));

    let value = form.is_value();
    let mut src = decls;
    // helpers must be declared in any order in WGSL; print callee-last for readability
    for i in (0..nf).rev() {
        let f = &fns[i];
        let mut body = if touch[i].is_empty() { String::new() } else { indent(&touch[i]) };
        let mut order: Vec<usize> = f.calls.clone();
        if descending {
            order.reverse();
        }
        for (ci, c) in order.iter().enumerate() {
            body.push_str(&indent(&form.stmt(&fns[*c].name, i * 10 + ci).full));
        }
        match f.stage {
            None => src.push_str(&helper(&f.name, value, &body)),
            Some(st) => src.push_str(&st.entry(&f.name, &body)),
        }
    }
    let steps = (nf + fns.iter().map(|f| f.calls.len()).sum::<usize>()) as u64;
    Prog { key, src, expect, steps }
}

fn entry_sets(thorough: bool) -> Vec<Vec<Stage>> {
    use Stage::*;
    let mut v = vec![vec![V], vec![F], vec![C], vec![V, F], vec![V, C], vec![F, C], vec![V, F, C]];
    // two entries of one stage
    v.push(vec![V, V]);
    v.push(vec![F, F]);
    v.push(vec![C, C]);
    // same-stage entries followed by another stage (state carried from one entry's walk to the next)
    v.push(vec![C, C, F]);
    v.push(vec![V, V, F]);
    if thorough {
        v.push(vec![C, F, C]);
        v.push(vec![F, V, F, C]);
        v.push(vec![F, F, V]);
    }
    v
}

pub fn space_a(thorough: bool) -> Vec<Prog> {
    space_a_k(thorough, 3)
}

pub fn space_a_k(thorough: bool, max_k: usize) -> Vec<Prog> {
    let mut out = vec![];
    let forms: &[CallForm] = if thorough { &CallForm::ALL } else { &CallForm::BASIC };
    let _ = thorough;
    for entries in entry_sets(thorough) {
        for k in 0..=max_k {
            let n_edges = k * (k.saturating_sub(1)) / 2;
            for dag in 0..(1usize << n_edges) {
                let per_entry = 1usize << k;
                for calls in wgslgen::sequences(per_entry, entries.len()) {
                    // the large entry sets are only combined with the basic forms to bound the product
                    let fs: &[CallForm] = if entries.len() > 3 || (k == 3 && entries.len() == 3) { &CallForm::BASIC } else { forms };
                    for form in fs {
                        if k == 0 && *form != CallForm::Stmt {
                            continue;
                        }
                        let key = format!(
                            "A|entries={}|k={k}|dag={dag}|calls={}|form={form:?}",
                            entries.iter().map(|s| format!("{s:?}")).collect::<String>(),
                            calls.iter().map(|c| c.to_string()).collect::<Vec<_>>().join(".")
                        );
                        let off = (dag + calls.iter().sum::<usize>()) % 8;
                        out.push(build_graph_program(&entries, k, dag, &calls, *form, off, Touch::Own, false, key.clone()));
                        // the order in which a function calls its callees (callee-of-callee reached first or last)
                        let multi_call = calls.iter().any(|c| c.count_ones() >= 2) || (0..n_edges).filter(|e| dag & (1 << e) != 0).count() >= 2;
                        let variants = thorough || k <= 2 || entries.len() <= 2;
                        // declaration order vs binding index order (layout entries are emitted per declaration)
                        if *form == CallForm::Stmt && entries.len() >= 2 {
                            out.push(build_graph_program_b(&entries, k, dag, &calls, *form, off, Touch::Own, false, true, format!("{key}|bindings=desc")));
                        }
                        if variants && multi_call && matches!(form, CallForm::Stmt | CallForm::Let) {
                            out.push(build_graph_program(&entries, k, dag, &calls, *form, off, Touch::Own, true, format!("{key}|order=desc")));
                        }
                        // shared-resource variants: statement and let forms only (the forms do not interact with sharing)
                        if variants && k >= 1 && matches!(form, CallForm::Stmt | CallForm::Let) {
                            for tm in [Touch::SharedAll, Touch::SharedLeaves] {
                                out.push(build_graph_program(&entries, k, dag, &calls, *form, off, tm, false, format!("{key}|touch={tm:?}")));
                            }
                        }
                    }
                }
            }
        }
    }
    out
}

// ---------------------------------------------------------------------------------------------
// (B) placements

/// entry (one of three, the other two empty) -> helper `hh` -> access; one resource untouched,
/// one touched by a helper nobody calls.
pub fn build_placement_program(stage: Stage, call_ctx: &[Ctx], form: CallForm, acc_ctx: &[Ctx], kind: ResKind, acc_index: usize, key: String) -> Option<Prog> {
    let mut decls = String::from(ResKind::TYPES);
    let (d, vars) = kind.decl("res", 0, 0);
    decls.push_str(&d);
    let mut expect: Vec<(String, u32, u32, ShaderStages)> = vars.iter().map(|(n, b)| (n.clone(), 0, *b, stage.bit())).collect();
    let nb = if kind == ResKind::PushConstant { 0 } else { kind.slots() };
    let (d, v2) = ResKind::Uniform.decl("untouched", 0, nb);
    decls.push_str(&d);
    expect.push((v2[0].0.clone(), 0, nb, ShaderStages::NONE));
    let (d, v3) = ResKind::StorageRead.decl("orphan", 0, nb + 1);
    decls.push_str(&d);
    expect.push((v3[0].0.clone(), 0, nb + 1, ShaderStages::NONE));

    let accs = kind.accesses("res", 0);
    let mut s = accs[acc_index % accs.len()].1.clone();
    for c in acc_ctx {
        s = c.wrap(&s)?;
    }
    let helper_body = indent(&s.full);
    let mut cs = form.stmt("hh", 1);
    for c in call_ctx {
        cs = c.wrap(&cs)?;
    }
    let mut src = decls;
    src.push_str(&helper("hh", form.is_value(), &helper_body));
    src.push_str(&helper("orphan_user", false, &indent("acc = orphan.x;")));
    for st in Stage::ALL {
        let name = match st { Stage::V => "vs_main", Stage::F => "fs_main", Stage::C => "cs_main" };
        if st == stage {
            src.push_str(&st.entry(name, &indent(&cs.full)));
        } else {
            src.push_str(&st.entry(name, ""));
        }
    }
    Some(Prog { key, src, expect, steps: (call_ctx.len() + acc_ctx.len() + 2) as u64 })
}

fn ctx_paths(double: bool) -> Vec<Vec<Ctx>> {
    let mut v: Vec<Vec<Ctx>> = Ctx::ALL.iter().map(|c| vec![*c]).collect();
    if double {
        for a in Ctx::ALL {
            for b in Ctx::ALL {
                if a != Ctx::Top && b != Ctx::Top {
                    v.push(vec![a, b]); // a is innermost
                }
            }
        }
    }
    v
}

pub fn space_b(thorough: bool) -> (Vec<Prog>, u64) {
    let mut out = vec![];
    let mut skipped = 0u64;
    let mut i = 0usize;
    let mut kinds: Vec<ResKind> = ResKind::BINDABLE.to_vec();
    kinds.push(ResKind::PushConstant);
    // calls: every context path × every call form; access fixed (rotating kind)
    for path in ctx_paths(thorough) {
        for form in CallForm::ALL {
            i += 1;
            let stage = Stage::ALL[i % 3];
            let kind = kinds[i % kinds.len()];
            let key = format!("B-call|stage={stage:?}|ctx={path:?}|form={form:?}|kind={kind:?}");
            match build_placement_program(stage, &path, form, &[Ctx::Top], kind, i, key) {
                Some(p) => out.push(p),
                None => skipped += 1,
            }
        }
    }
    // accesses: every context path × every kind × every access form; call fixed (rotating basic form)
    for path in ctx_paths(thorough) {
        for kind in &kinds {
            let n_acc = kind.accesses("res", 0).len();
            for a in 0..n_acc {
                i += 1;
                let stage = Stage::ALL[i % 3];
                let form = CallForm::BASIC[i % 4];
                let key = format!("B-access|stage={stage:?}|ctx={path:?}|kind={kind:?}|access={a}|form={form:?}");
                match build_placement_program(stage, &[Ctx::Top], form, &path, *kind, a, key) {
                    Some(p) => out.push(p),
                    None => skipped += 1,
                }
            }
        }
    }
    if thorough {
        // full product of single contexts: call ctx × form × access ctx × kind (first access form)
        for cc in Ctx::ALL {
            for form in CallForm::ALL {
                for ac in Ctx::ALL {
                    for kind in &kinds {
                        i += 1;
                        let stage = Stage::ALL[i % 3];
                        let key = format!("B-product|stage={stage:?}|callctx={cc:?}|form={form:?}|accctx={ac:?}|kind={kind:?}");
                        match build_placement_program(stage, &[cc], form, &[ac], *kind, i, key) {
                            Some(p) => out.push(p),
                            None => skipped += 1,
                        }
                    }
                }
            }
        }
    }
    (out, skipped)
}

// ---------------------------------------------------------------------------------------------
// (C) chains of depth d through alternating call forms; diamonds shared by stages

pub fn space_c(thorough: bool) -> Vec<Prog> {
    let mut out = vec![];
    let depths: &[usize] = if thorough { &[1, 2, 3, 5, 8] } else { &[1, 3, 5] };
    for &d in depths {
        for pattern in 0..(1usize << d.min(5)) {
            for (si, stage) in Stage::ALL.iter().enumerate() {
                // chain h0 -> h1 -> ... -> h{d-1} -> access; form of edge i = bit i of pattern (stmt/value)
                let mut src = String::from(ResKind::TYPES);
                let kind = ResKind::BINDABLE[(d + pattern + si) % 8];
                let (decl, vars) = kind.decl("res", 0, 0);
                src.push_str(&decl);
                let expect: Vec<_> = vars.iter().map(|(n, b)| (n.clone(), 0, *b, stage.bit())).collect();
                let acc = kind.accesses("res", 0)[0].1.full.clone();
                for i in (0..d).rev() {
                    let value = pattern & (1 << (i % 5)) != 0;
                    let body = if i == d - 1 {
                        indent(&acc)
                    } else {
                        let next_value = pattern & (1 << ((i + 1) % 5)) != 0;
                        let form = if next_value { CallForm::BASIC[1 + (i % 3)] } else { CallForm::Stmt };
                        indent(&form.stmt(&format!("h{}", i + 1), i).full)
                    };
                    src.push_str(&helper(&format!("h{i}"), value, &body));
                }
                let first_value = pattern & 1 != 0;
                let form = if first_value { CallForm::Let } else { CallForm::Stmt };
                let ename = match stage { Stage::V => "vs_main", Stage::F => "fs_main", Stage::C => "cs_main" };
                src.push_str(&stage.entry(ename, &indent(&form.stmt("h0", 99).full)));
                // another entry of a different stage that does not call anything
                let other = Stage::ALL[(si + 1) % 3];
                let oname = match other { Stage::V => "vs_other", Stage::F => "fs_other", Stage::C => "cs_other" };
                src.push_str(&other.entry(oname, ""));
                out.push(Prog { key: format!("C-chain|d={d}|pattern={pattern}|stage={stage:?}"), src, expect, steps: d as u64 + 2 });
            }
        }
    }
    // pure forwarding helpers: bodies made of nothing but argument-less void calls (no expression at all in naga's
    // arena), bare / in a block / in a loop / twice / with an unused parameter, 1..4 levels above the accessing helper
    for d in 1..=4usize {
        for (wi, wrap) in ["bare", "block", "loop", "twice", "unused-param", "if-true"].into_iter().enumerate() {
            for (si, stage) in Stage::ALL.iter().enumerate() {
                let mut src = String::from(ResKind::TYPES);
                let kind = ResKind::BINDABLE[(d + wi + si) % 8];
                let (decl, vars) = kind.decl("res", 0, 0);
                src.push_str(&decl);
                let expect: Vec<_> = vars.iter().map(|(n, b)| (n.clone(), 0, *b, stage.bit())).collect();
                let acc = kind.accesses("res", 0)[0].1.full.clone();
                src.push_str(&helper("reader", false, &indent(&acc)));
                for i in (0..d).rev() {
                    let callee = if i == d - 1 { "reader".to_string() } else { format!("fwd{}", i + 1) };
                    let call = if wrap == "unused-param" && i != d - 1 { format!("{callee}(0u);") } else { format!("{callee}();") };
                    let body = match wrap {
                        "block" => format!("    {{\n        {call}\n    }}\n"),
                        "loop" => format!("    loop {{\n        {call}\n        break;\n    }}\n"),
                        "twice" => format!("    {call}\n    {call}\n"),
                        "if-true" => format!("    if true {{\n        {call}\n    }}\n"),
                        _ => format!("    {call}\n"),
                    };
                    let params = if wrap == "unused-param" { "unused: u32" } else { "" };
                    src.push_str(&format!("fn fwd{i}({params}) {{\n{body}}}\n"));
                }
                let ename = match stage { Stage::V => "vs_main", Stage::F => "fs_main", Stage::C => "cs_main" };
                let first = if wrap == "unused-param" { "fwd0(1u);" } else { "fwd0();" };
                src.push_str(&stage.entry(ename, &indent(first)));
                let other = Stage::ALL[(si + 2) % 3];
                let oname = match other { Stage::V => "vs_other", Stage::F => "fs_other", Stage::C => "cs_other" };
                src.push_str(&other.entry(oname, ""));
                out.push(Prog { key: format!("C-forward|d={d}|wrap={wrap}|stage={stage:?}"), src, expect, steps: d as u64 + 2 });
            }
        }
    }
    out
}

pub fn run(tier: &str) -> i32 {
    let mut rep = Report::new("C03", tier);
    let thorough = rep.thorough();
    let mut progs = space_a(thorough);
    let n_a = progs.len();
    let (b, skipped) = space_b(thorough);
    let n_b = b.len();
    progs.extend(b);
    let c = space_c(thorough);
    let n_c = c.len();
    progs.extend(c);
    // large modules: the accessing helper is one of N functions the entry calls (63 / 64 / 65 / 128 / 256 / 300)
    for n in [63usize, 64, 65, 128, 129, 256, 300] {
        for reader_pos in ["first", "last"] {
            let mut src = String::from("@group(0) @binding(0) var<uniform> wide_res: vec4<f32>;\n@group(0) @binding(1) var<uniform> wide_other: vec4<f32>;\n");
            let reader = "fn reader() -> f32 { return wide_res.x; }\n";
            if reader_pos == "first" {
                src.push_str(reader);
            }
            for i in 0..n {
                src.push_str(&format!("fn filler_{i}() -> f32 {{ return {i}.0; }}\n"));
            }
            if reader_pos == "last" {
                src.push_str(reader);
            }
            let calls: String = (0..n).map(|i| format!("    acc += filler_{i}();\n")).collect();
            src.push_str(&Stage::V.entry("vs_main", &indent("acc = wide_other.x;")));
            src.push_str(&Stage::F.entry("fs_main", &format!("{calls}    acc += reader();\n")));
            src.push_str(&Stage::C.entry("cs_main", &format!("    acc += reader();\n{calls}")));
            progs.push(Prog { key: format!("wide|n={n}|reader={reader_pos}"), src, expect: vec![("wide_res".into(), 0, 0, ShaderStages::FRAGMENT | ShaderStages::COMPUTE), ("wide_other".into(), 0, 1, ShaderStages::VERTEX)], steps: n as u64 });
        }
    }
    // an unbound `var<private>` that every function (entries and helpers) reads and writes: it never appears in a
    // layout and must not disturb the visibility of the bound variables (chains, forwarders and a spread of the rest)
    {
        let n0 = progs.len();
        for i in 0..n0 {
            let k = &progs[i].key;
            if !(k.starts_with("C-") || (thorough && hash64(k) % 6 == 3) || (!thorough && hash64(k) % 32 == 3)) {
                continue;
            }
            // (1, 2 or 3 such variables: an analysis that counts what it has seen can be thrown off by exactly as many
            // unbound variables as there are bound ones still to find)
            for n_priv in 1..=3usize {
                let mut src = String::new();
                let mut touch = String::new();
                for j in 0..n_priv {
                    src.push_str(&format!("var<private> vis_priv{j}: f32;\n"));
                    touch.push_str(&format!("    vis_priv{j} = vis_priv{j} + 1.0;\n"));
                }
                for line in progs[i].src.lines() {
                    src.push_str(line);
                    src.push('\n');
                    let t = line.trim_start();
                    if (t.starts_with("fn ") || t.starts_with("@vertex fn ") || t.starts_with("@fragment fn ") || t.starts_with("@compute ")) && t.ends_with('{') {
                        src.push_str(&touch);
                    }
                }
                if naga_check(&src).is_ok() {
                    progs.push(Prog { key: format!("{}|private-neighbours={n_priv}", progs[i].key), src, expect: progs[i].expect.clone(), steps: progs[i].steps });
                }
            }
        }
    }
    // identifier styles of the resource variables (camelCase, UPPER): every 16th program in quick
    {
        let n0 = progs.len();
        for i in 0..n0 {
            let space_a = progs[i].key.starts_with("A|");
            if !((thorough && (!space_a || hash64(&progs[i].key) % 8 == 2)) || (!thorough && hash64(&progs[i].key) % 16 == 2)) {
                continue;
            }
            for style in ["camel", "upper"] {
                if let Some((src, map)) = restyle_globals(&progs[i].src, style) {
                    let expect = progs[i].expect.iter().map(|(n, g, b, s)| (map.iter().find(|(a, _)| a == n).map(|(_, b)| b.clone()).unwrap_or(n.clone()), *g, *b, *s)).collect();
                    progs.push(Prog { key: format!("{}|names={style}", progs[i].key), src, expect, steps: progs[i].steps });
                }
            }
        }
    }
    // module-scope declaration order is not significant in WGSL: the same programs with their declarations reversed
    // and with the functions first (every 8th program in quick)
    let n0 = progs.len();
    for i in 0..n0 {
        let space_a = progs[i].key.starts_with("A|");
        if !((thorough && (!space_a || hash64(&progs[i].key) % 8 == 1)) || (!thorough && hash64(&progs[i].key) % 10 == 1)) {
            continue;
        }
        for how in ["reverse", "entries-first", "interleave"] {
            if let Some(src) = reorder_decls(&progs[i].src, how) {
                progs.push(Prog { key: format!("{}|decl-order={how}", progs[i].key), src, expect: progs[i].expect.clone(), steps: progs[i].steps });
            }
        }
    }
    // regression corpus for listed findings first: none for C03
    let results = par_map(&progs, |p| {
        let mut r = Report::new("C03", tier);
        check_prog(p, &mut r);
        r
    });
    for (i, p) in progs.iter().enumerate() {
        if i % (progs.len() / 5 + 1) == 0 {
            rep.sample(json!({"key": p.key, "wgsl": p.src, "expected": p.expect.iter().map(|(n,g,b,s)| format!("{n}@{g}/{b}:{}", stages_str(*s))).collect::<Vec<_>>()}));
        }
    }
    for r in results {
        rep.merge(r);
    }
    rep.traces_validated = rep.evaluations; // every state is run through the real generator
    rep.rule = format!(
        "(A) every entry set x helper DAG (<= {} helpers, all forward-edge subsets) x entry-call subsets x call form, one resource per function: {} programs; \
         (B) chain entry->helper->access with the call at every placement context{} in every call form and the access at every context for every resource kind and access form: {} programs ({} context/form combinations WGSL cannot express skipped); \
         (C) chains of mixed statement/value calls: {} programs. A case is non-trivial when the generator accepted it; distinct = distinct WGSL text. Oracle: stages by construction, cross-checked per state against naga ModuleInfo.",
        if thorough { 3 } else { 2 },
        n_a,
        if thorough { " and every ordered pair of contexts" } else { "" },
        n_b,
        skipped,
        n_c
    );
    rep.assumptions.push("omodel reads visibility expressions as rustc would (bound to rustc by the L2-exec conformance batch of C02/C04)".into());
    rep.assumptions.push("a variable that is only named (`_ = res;`, `let p = &res;`) counts as statically accessed (WGSL's definition); naga's GlobalUse is empty there, so for such programs the naga cross-check only requires naga's answer to be a subset".into());
    let total = rep.states;
    let filtered: u64 = rep.filtered_out.values().sum();
    if filtered * 2 > total {
        machinery("C03: more than half of the space was filtered out (generator not Ok)");
    }
    if rep.outcomes.len() < 4 {
        machinery("C03: fewer than 4 distinct visibility maps observed - the space is vacuous");
    }
    rep.finish()
}
