//! The struct-definition space shared by C05, C06, C09 and C10: leaf type table, 1-/2-/3-field
//! structs, nestings, runtime arrays; printing as a host-shareable WGSL program.
use wgslgen::{Member, Scalar, StructDef, Ty, TypeEnv};

pub const INNER: &str = "Inner";
pub const INNER2: &str = "Inner2";
pub const DEEP: &str = "Deep";

/// Type environment with the helper structs leaf types may refer to.
pub fn base_env() -> TypeEnv {
    let mut env = TypeEnv::default();
    let f = Scalar::F32;
    env.add(StructDef { name: INNER.into(), members: vec![Member::plain("x", Ty::Vec(3, f)), Member::plain("y", Ty::Scalar(f))] });
    env.add(StructDef { name: INNER2.into(), members: vec![Member::plain("p", Ty::Vec(2, f)), Member::plain("q", Ty::Scalar(Scalar::U32)), Member::plain("r", Ty::Scalar(f))] });
    // a second struct with exactly the members of INNER (look-alike types must keep their own names)
    env.add(StructDef { name: "InnerTwin".into(), members: vec![Member::plain("x", Ty::Vec(3, f)), Member::plain("y", Ty::Scalar(f))] });
    // a small struct with 4-byte alignment (size 8): containers of it can have a size that is not a multiple of 16
    env.add(StructDef { name: "Pair".into(), members: vec![Member::plain("lo", Ty::Scalar(f)), Member::plain("hi", Ty::Scalar(f))] });
    env.add(StructDef { name: DEEP.into(), members: vec![Member::plain("head", Ty::Scalar(Scalar::I32)), Member::plain("inner", Ty::Struct(INNER.into())), Member::plain("tail", Ty::Vec(2, f))] });
    env
}

/// The leaf table (fixed-size host-shareable member types).
pub fn leaf_table(with_f64: bool) -> Vec<Ty> {
    let mut v = vec![];
    let scalars: Vec<Scalar> = if with_f64 { vec![Scalar::I32, Scalar::U32, Scalar::F32, Scalar::F64] } else { vec![Scalar::I32, Scalar::U32, Scalar::F32] };
    for s in &scalars {
        v.push(Ty::Scalar(*s));
    }
    v.push(Ty::Atomic(Scalar::I32));
    v.push(Ty::Atomic(Scalar::U32));
    // float atomics (naga: SHADER_FLOAT32_ATOMIC; storage address space only - other placements leave the universe)
    v.push(Ty::Atomic(Scalar::F32));
    for n in 2..=4u8 {
        for s in &scalars {
            v.push(Ty::Vec(n, *s));
        }
    }
    for s in if with_f64 { vec![Scalar::F32, Scalar::F64] } else { vec![Scalar::F32] } {
        for c in 2..=4u8 {
            for r in 2..=4u8 {
                v.push(Ty::Mat(c, r, s));
            }
        }
    }
    let f = Scalar::F32;
    for n in [1u32, 2, 5] {
        for e in [Ty::Scalar(f), Ty::Vec(3, f), Ty::Vec(4, f), Ty::Mat(3, 3, f), Ty::Mat(4, 4, f), Ty::Struct(INNER.into()), Ty::Array(Box::new(Ty::Vec(2, f)), 3)] {
            if n == 5 && matches!(e, Ty::Mat(..) | Ty::Array(..)) {
                continue;
            }
            v.push(Ty::Array(Box::new(e), n));
        }
    }
    // arrays whose element struct itself nests a struct (reachable only through the array element)
    v.push(Ty::Array(Box::new(Ty::Struct(DEEP.into())), 2));
    // a struct under two array levels (reachable only through both)
    v.push(Ty::Array(Box::new(Ty::Array(Box::new(Ty::Struct(INNER2.into())), 2)), 3));
    v.push(Ty::Struct(INNER.into()));
    v.push(Ty::Struct("Pair".into()));
    v.push(Ty::Struct(INNER2.into()));
    v.push(Ty::Struct(DEEP.into()));
    v
}

/// Representative leaves for the 3-field product.
pub fn representatives() -> Vec<Ty> {
    let f = Scalar::F32;
    vec![
        Ty::Scalar(f),
        Ty::Vec(2, f),
        Ty::Vec(3, f),
        Ty::Vec(4, f),
        Ty::Mat(3, 3, f),
        Ty::Array(Box::new(Ty::Vec(3, f)), 2),
        Ty::Struct(INNER.into()),
        Ty::Scalar(Scalar::U32),
    ]
}

#[derive(Clone, Debug)]
pub struct StructProg {
    pub key: String,
    pub env: TypeEnv,
    /// name of the struct bound to the module-scope variable
    pub root: String,
    pub space: &'static str,
    pub src: String,
}

impl StructProg {
    /// structs expected to be emitted, in WGSL declaration order (dependencies first)
    pub fn emitted(&self) -> Vec<String> {
        let mut refs = vec![];
        Ty::Struct(self.root.clone()).struct_refs(&self.env, &mut refs);
        self.env.order.iter().filter(|n| refs.contains(n)).cloned().collect()
    }
}

/// The same program with member types (variant "member") or array element types (variant "element") of the root
/// struct written through WGSL `alias` declarations. naga gives such a type the alias name; the Rust struct must not
/// change.
pub fn alias_variants(p: &StructProg) -> Vec<StructProg> {
    let mut out = vec![];
    let root = p.env.get(&p.root);
    let at = match p.src.find(&format!("struct {} {{", p.root)) {
        Some(a) => a,
        None => return out,
    };
    for variant in ["member", "element"] {
        let mut aliases = String::new();
        let (head, tail) = p.src.split_at(at);
        let mut body = tail.to_string();
        let mut n = 0;
        for (i, m) in root.members.iter().enumerate() {
            let line = format!("{}: {},", m.name, m.ty.wgsl());
            let replaced = match (variant, &m.ty) {
                ("member", Ty::Struct(_)) => None,
                ("member", t) => {
                    aliases.push_str(&format!("alias Al{i}T = {};\n", t.wgsl()));
                    Some(format!("{}: Al{i}T,", m.name))
                }
                ("element", Ty::Array(e, k)) if !matches!(**e, Ty::Struct(_)) => {
                    aliases.push_str(&format!("alias El{i}T = {};\n", e.wgsl()));
                    Some(format!("{}: array<El{i}T, {k}>,", m.name))
                }
                ("element", Ty::RtArray(e)) if !matches!(**e, Ty::Struct(_)) => {
                    aliases.push_str(&format!("alias El{i}T = {};\n", e.wgsl()));
                    Some(format!("{}: array<El{i}T>,", m.name))
                }
                _ => None,
            };
            if let Some(r) = replaced {
                if body.contains(&line) {
                    body = body.replacen(&line, &r, 1);
                    n += 1;
                }
            }
        }
        if n > 0 {
            let mut q = p.clone();
            q.src = format!("{aliases}{head}{body}");
            q.key = format!("alias-{variant}|{}", p.key);
            out.push(q);
        }
    }
    out
}

/// Structs with identical member lists used side by side: as sibling members, through arrays, one of them nested
/// deeper - every arrangement of {Inner, InnerTwin} over three member positions plus a scalar.
pub fn lookalike_space() -> Vec<StructProg> {
    let mut out = vec![];
    // wide: one struct with 70 members of rotating leaf types (every member is a field, whatever its index)
    {
        let leafs = [Ty::Scalar(Scalar::F32), Ty::Vec(3, Scalar::F32), Ty::Scalar(Scalar::U32), Ty::Vec(4, Scalar::F32), Ty::Vec(2, Scalar::I32), Ty::Mat(4, 4, Scalar::F32), Ty::Array(Box::new(Ty::Vec(4, Scalar::F32)), 2)];
        let names: Vec<String> = (0..70).map(|i| format!("wide_m{i}")).collect();
        let members: Vec<Member> = (0..70).map(|i| Member::plain(&names[i], leafs[i % leafs.len()].clone())).collect();
        out.push(make_prog(members, "storage", "lookalike|wide-70-members".to_string()));
    }
    let tys = [Ty::Struct(INNER.into()), Ty::Struct("InnerTwin".into()), Ty::Array(Box::new(Ty::Struct("InnerTwin".into())), 2), Ty::Array(Box::new(Ty::Struct(INNER.into())), 2)];
    for a in 0..tys.len() {
        for b in 0..tys.len() {
            for c in 0..tys.len() {
                let names = [a, b, c].iter().map(|i| ["I", "T", "TA", "IA"][*i]).collect::<Vec<_>>().join("-");
                let members = vec![Member::plain("first", tys[a].clone()), Member::plain("second", tys[b].clone()), Member::plain("count", Ty::Scalar(Scalar::U32)), Member::plain("third", tys[c].clone())];
                out.push(make_prog(members, "storage", format!("lookalike|{names}")));
            }
        }
    }
    out
}

/// Member names that look like padding / reserved / private fields: every member is a field, whatever it is called.
pub fn named_members_space() -> Vec<StructProg> {
    let f = Scalar::F32;
    let u = Scalar::U32;
    let mut out = vec![];
    let names = ["_pad0", "_pad", "_padding", "padding", "_reserved", "_unused0", "__x", "x_", "_0", "pad1"];
    for (i, n) in names.iter().enumerate() {
        // a pad that is NOT redundant under the WGSL rules (dropping it moves the following members)
        out.push(make_prog(vec![Member::plain("position", Ty::Vec(3, f)), Member::plain(n, Ty::Scalar(f)), Member::plain("intensity", Ty::Scalar(f)), Member::plain("flags", Ty::Scalar(u))], "storage", format!("named|{n}|after-vec3")));
        out.push(make_prog(vec![Member::plain("count", Ty::Scalar(u)), Member::plain(n, Ty::Scalar(u)), Member::plain("scale", Ty::Scalar(f)), Member::plain("items", Ty::RtArray(Box::new(Ty::Vec(4, f))))], "storage-read", format!("named|{n}|before-rt")));
        out.push(make_prog(vec![Member::plain(n, Ty::Vec(2, f)), Member::plain("k", Ty::Scalar(f)), Member::plain(names[(i + 1) % names.len()], Ty::Vec(4, f))], "uniform", format!("named|{n}|first-and-last")));
    }
    out
}

pub fn make_prog(members: Vec<Member>, space: &'static str, key: String) -> StructProg {
    let mut env = base_env();
    env.add(StructDef { name: "Root".into(), members });
    let root = "Root".to_string();
    let mut refs = vec![];
    Ty::Struct(root.clone()).struct_refs(&env, &mut refs);
    // print only what is referenced, dependencies first
    let mut src = String::new();
    for n in env.order.clone() {
        if refs.contains(&n) {
            src.push_str(&env.get(&n).wgsl(true));
        }
    }
    let var = match space {
        "uniform" => "@group(0) @binding(0) var<uniform> data: Root;".to_string(),
        "storage" => "@group(0) @binding(0) var<storage, read_write> data: Root;".to_string(),
        "storage-read" => "@group(0) @binding(0) var<storage, read> data: Root;".to_string(),
        "private" => "var<private> data: Root;".to_string(),
        "workgroup" => "var<workgroup> data: Root;".to_string(),
        other => panic!("space {other}"),
    };
    src.push_str(&var);
    src.push_str("\n@compute @workgroup_size(1) fn main() {\n}\n");
    StructProg { key, env, root, space, src }
}

/// Members at large offsets / large struct sizes (decimal boundaries 10^4..10^7, binary 2^16 / 2^20, values with zero
/// digit groups such as 16 000 and 1 048 576): the expected numbers are numbers, however long.
pub fn big_offset_space() -> Vec<StructProg> {
    let f = Scalar::F32;
    let mut out = vec![];
    for n in [624u32, 625, 1000, 1001, 4000, 4096, 6250, 62_500, 65_536, 625_000, 1_000_000] {
        out.push(make_prog(vec![Member::plain("big", Ty::Array(Box::new(Ty::Vec(4, f)), n)), Member::plain("tail", Ty::Scalar(f)), Member::plain("after", Ty::Vec(2, f))], "storage", format!("big-offset|vec4x{n}")));
    }
    for n in [2500u32, 10_001, 25_000, 100_000, 262_144] {
        out.push(make_prog(vec![Member::plain("head", Ty::Scalar(Scalar::U32)), Member::plain("big", Ty::Array(Box::new(Ty::Scalar(f)), n)), Member::plain("tail", Ty::Struct(INNER.into()))], "storage", format!("big-offset|f32x{n}")));
    }
    out
}

/// The same program with a second module-scope variable of another address space sharing the root struct (or a
/// struct nested in it), declared before or after the bound variable. What the host has to fill does not change.
pub fn sibling_variants(p: &StructProg) -> Vec<StructProg> {
    let mut out = vec![];
    let line_start = match p.src.find("@group(0) @binding(0) var<") {
        Some(i) => i,
        None => return out,
    };
    let line_end = line_start + p.src[line_start..].find('\n').map(|i| i + 1).unwrap_or(p.src.len() - line_start);
    let mut targets = vec![p.root.clone()];
    for inner in [INNER, INNER2, DEEP] {
        if p.src.contains(&format!("struct {inner} ")) {
            targets.push(inner.to_string());
            break;
        }
    }
    for target in &targets {
        for space in ["private", "workgroup"] {
            for place in ["before", "after"] {
                let decl = format!("var<{space}> sibling_{space}: {target};\n");
                let mut src = p.src.clone();
                src.insert_str(if place == "before" { line_start } else { line_end }, &decl);
                if crate::common::naga_check(&src).is_err() {
                    continue;
                }
                let mut q = p.clone();
                q.src = src;
                q.key = format!("sibling-{space}-{place}-{}|{}", if *target == p.root { "root" } else { "nested" }, p.key);
                out.push(q);
            }
        }
    }
    out
}

fn member_names() -> [&'static str; 3] {
    // deliberately not in alphabetical order, and in three identifier styles (snake, camel, upper)
    ["m_b", "viewProj", "MVP"]
}

/// 1-field, 2-field (full product) and 3-field (representatives) structs, plus `@size/@align` members
/// and trailing runtime arrays when requested.
pub fn struct_space(with_f64: bool, three: bool, attrs: bool, rt_arrays: bool) -> Vec<StructProg> {
    let leaves = leaf_table(with_f64);
    let names = member_names();
    let mut out = vec![];
    for a in &leaves {
        out.push(make_prog(vec![Member::plain(names[0], a.clone())], "storage", format!("s1|{}", a.wgsl())));
    }
    for a in &leaves {
        for b in &leaves {
            out.push(make_prog(vec![Member::plain(names[0], a.clone()), Member::plain(names[1], b.clone())], "storage", format!("s2|{}|{}", a.wgsl(), b.wgsl())));
        }
    }
    if three {
        let reps = representatives();
        for a in &reps {
            for b in &reps {
                for c in &reps {
                    out.push(make_prog(
                        vec![Member::plain(names[0], a.clone()), Member::plain(names[1], b.clone()), Member::plain(names[2], c.clone())],
                        "storage",
                        format!("s3|{}|{}|{}", a.wgsl(), b.wgsl(), c.wgsl()),
                    ));
                }
            }
        }
    }
    if attrs {
        let f = Scalar::F32;
        for (ty, align, size) in [(Ty::Scalar(f), Some(16), None), (Ty::Scalar(f), None, Some(16)), (Ty::Vec(3, f), None, Some(16)), (Ty::Vec(2, f), Some(16), Some(32)), (Ty::Struct(INNER.into()), Some(32), None)] {
            for second in [Ty::Scalar(f), Ty::Vec(4, f)] {
                let mut m = Member::plain(names[0], ty.clone());
                m.attrs.align = align;
                m.attrs.size = size;
                out.push(make_prog(vec![m.clone(), Member::plain(names[1], second.clone())], "storage", format!("attr|{}|align={align:?}|size={size:?}|then={}", ty.wgsl(), second.wgsl())));
                out.push(make_prog(vec![Member::plain(names[1], second.clone()), m], "storage", format!("attr|{}|then={}|align={align:?}|size={size:?}", second.wgsl(), ty.wgsl())));
            }
        }
    }
    if rt_arrays {
        let f = Scalar::F32;
        for e in [Ty::Scalar(f), Ty::Vec(2, f), Ty::Vec(3, f), Ty::Vec(4, f), Ty::Mat(4, 4, f), Ty::Mat(3, 3, f), Ty::Struct(INNER.into()), Ty::Scalar(Scalar::U32), Ty::Vec(3, Scalar::I32), Ty::Array(Box::new(Ty::Vec(2, f)), 3), Ty::Struct(DEEP.into()), Ty::Array(Box::new(Ty::Struct(INNER2.into())), 2)] {
            out.push(make_prog(vec![Member::plain(names[0], Ty::RtArray(Box::new(e.clone())))], "storage-read", format!("rt1|{}", e.wgsl())));
            for first in [Ty::Scalar(Scalar::U32), Ty::Vec(3, f), Ty::Struct(INNER.into())] {
                out.push(make_prog(
                    vec![Member::plain(names[1], first.clone()), Member::plain(names[0], Ty::RtArray(Box::new(e.clone())))],
                    "storage-read",
                    format!("rt2|{}|{}", first.wgsl(), e.wgsl()),
                ));
            }
        }
    }
    out
}

/// Rust constructor expression of a WGSL type under the *Glam* representation, numbering components
/// with consecutive sentinels. Returns None for types glam cannot represent (C10's universe).
pub fn glam_value(t: &Ty, env: &TypeEnv, next: &mut u32, rt_len: usize) -> Option<String> {
    fn lit(s: Scalar, v: u32) -> String {
        match s {
            Scalar::F32 => format!("{v}.0f32"),
            Scalar::F64 => format!("{v}.0f64"),
            Scalar::I32 => format!("{v}i32"),
            Scalar::U32 => format!("{v}u32"),
            Scalar::Bool => "true".into(),
            Scalar::I64 | Scalar::U64 => format!("{v}"),
        }
    }
    let mut take = |n: &mut u32| {
        *n += 1;
        *n
    };
    Some(match t {
        Ty::Scalar(s) | Ty::Atomic(s) => lit(*s, take(next)),
        Ty::Vec(n, s) => {
            let name = match s {
                Scalar::F32 => "Vec",
                Scalar::F64 => "DVec",
                Scalar::U32 => "UVec",
                Scalar::I32 => "IVec",
                Scalar::Bool | Scalar::I64 | Scalar::U64 => return None,
            };
            let comps: Vec<String> = (0..*n).map(|_| lit(*s, take(next))).collect();
            format!("glam::{name}{n}::new({})", comps.join(", "))
        }
        Ty::Mat(c, r, s) => {
            if c != r {
                return None;
            }
            let (mname, vname) = match s {
                Scalar::F32 => ("Mat", "Vec"),
                Scalar::F64 => ("DMat", "DVec"),
                _ => return None,
            };
            let cols: Vec<String> = (0..*c).map(|_| {
                let comps: Vec<String> = (0..*r).map(|_| lit(*s, take(next))).collect();
                format!("glam::{vname}{r}::new({})", comps.join(", "))
            }).collect();
            format!("glam::{mname}{c}::from_cols({})", cols.join(", "))
        }
        Ty::Array(e, n) => {
            let mut elems = vec![];
            for _ in 0..*n {
                elems.push(glam_value(e, env, next, rt_len)?);
            }
            format!("[{}]", elems.join(", "))
        }
        Ty::RtArray(e) => {
            let mut elems = vec![];
            for _ in 0..rt_len {
                elems.push(glam_value(e, env, next, rt_len)?);
            }
            format!("vec![{}]", elems.join(", "))
        }
        Ty::Struct(name) => {
            let mut fields = vec![];
            for m in &env.get(name).members {
                fields.push(format!("{}: {}", m.name, glam_value(&m.ty, env, next, rt_len)?));
            }
            format!("generated::{name} {{ {} }}", fields.join(", "))
        }
    })
}

/// Reference byte image under the WGSL layout rules: list of (offset, width, sentinel) per component,
/// in the same numbering order as `glam_value`, and the total size.
pub fn reference_image(t: &Ty, env: &TypeEnv, base: u32, next: &mut u32, rt_len: usize, out: &mut Vec<(u32, u32, u32, char)>) {
    let kind = |s: Scalar| match s {
        Scalar::F32 | Scalar::F64 => 'f',
        Scalar::I32 => 'i',
        Scalar::U32 => 'u',
        Scalar::Bool => 'b',
        Scalar::I64 => 'i',
        Scalar::U64 => 'u',
    };
    match t {
        Ty::Scalar(s) | Ty::Atomic(s) => {
            *next += 1;
            out.push((base, s.width(), *next, kind(*s)));
        }
        Ty::Vec(n, s) => {
            for i in 0..*n as u32 {
                *next += 1;
                out.push((base + i * s.width(), s.width(), *next, kind(*s)));
            }
        }
        Ty::Mat(c, r, s) => {
            let col = Ty::Vec(*r, *s);
            let stride = wgslgen::stride_of(&col, env);
            for ci in 0..*c as u32 {
                reference_image(&col, env, base + ci * stride, next, rt_len, out);
            }
        }
        Ty::Array(e, n) => {
            let stride = wgslgen::stride_of(e, env);
            for i in 0..*n {
                reference_image(e, env, base + i * stride, next, rt_len, out);
            }
        }
        Ty::RtArray(e) => {
            let stride = wgslgen::stride_of(e, env);
            for i in 0..rt_len as u32 {
                reference_image(e, env, base + i * stride, next, rt_len, out);
            }
        }
        Ty::Struct(name) => {
            let def = env.get(name);
            let lay = wgslgen::struct_layout(def, env);
            for (m, off) in def.members.iter().zip(lay.offsets.iter()) {
                reference_image(&m.ty, env, base + off, next, rt_len, out);
            }
        }
    }
}

/// WGSL byte size of a value of struct `name` whose trailing runtime array (if any) has `rt_len` elements.
pub fn reference_size(name: &str, env: &TypeEnv, rt_len: usize) -> u32 {
    let def = env.get(name);
    let lay = wgslgen::struct_layout(def, env);
    match def.members.last().map(|m| &m.ty) {
        Some(Ty::RtArray(e)) => {
            let off = *lay.offsets.last().unwrap();
            wgslgen::round_up(lay.align, off + rt_len as u32 * wgslgen::stride_of(e, env))
        }
        _ => lay.size,
    }
}
