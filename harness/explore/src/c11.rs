//! C11 — group numbering contract: dense groups, unique slots, or a typed error; never a panic.
//! BFS over declaration sequences (order is part of the state) of resource variables at
//! (group, binding) ∈ G×B, to a depth bound; boundary layer with extreme indices.
use crate::common::*;
use serde_json::json;
use std::collections::{BTreeMap, BTreeSet};

const KINDS: [&str; 5] = ["uniform", "storage", "texture", "sampler", "storage_texture"];

fn decl(kind: &str, name: &str, g: u64, b: u64) -> String {
    // values above i32::MAX need the `u` suffix, otherwise naga reads the literal as i32 and rejects it
    let lit = |v: u64| if v > i32::MAX as u64 { format!("{v}u") } else { v.to_string() };
    let at = format!("@group({}) @binding({})", lit(g), lit(b));
    match kind {
        "uniform" => format!("{at} var<uniform> {name}: vec4<f32>;\n"),
        "storage" => format!("{at} var<storage, read_write> {name}: array<f32>;\n"),
        "texture" => format!("{at} var {name}: texture_2d<f32>;\n"),
        "sampler" => format!("{at} var {name}: sampler;\n"),
        _ => format!("{at} var {name}: texture_storage_2d<rgba8unorm, write>;\n"),
    }
}

fn touch(kind: &str, name: &str) -> String {
    match kind {
        "uniform" => format!("    acc += {name}.x;\n"),
        "storage" => format!("    {name}[0] = acc;\n"),
        "texture" => format!("    acc += textureLoad({name}, vec2<i32>(0, 0), 0).x;\n"),
        "sampler" => String::new(), // a sampler alone cannot be used without a texture; left unused
        _ => format!("    textureStore({name}, vec2<i32>(0, 0), vec4<f32>(acc));\n"),
    }
}

pub struct Case {
    pub key: String,
    pub slots: Vec<(u64, u64)>,
    pub used: bool,
    pub src: String,
}

pub fn build(slots: &[(u64, u64)], used: bool, kind_offset: usize) -> Case {
    build_u(slots, used, kind_offset, false)
}

/// `unbound`: module-scope variables without @group/@binding declared between the resources.
pub fn build_u(slots: &[(u64, u64)], used: bool, kind_offset: usize, unbound: bool) -> Case {
    let mut src = String::new();
    let mut body = String::from("    var acc: f32 = 0.0;\n");
    for (i, (g, b)) in slots.iter().enumerate() {
        let kind = KINDS[(i + kind_offset) % KINDS.len()];
        // names chosen so that declaration order, alphabetical order and index order differ
        let name = format!("{}{}", ["zz", "mm", "aa", "qq", "bb"][i % 5], i);
        if unbound {
            src.push_str(&format!("var<{}> free{i}: f32;\n", if i % 2 == 0 { "private" } else { "workgroup" }));
        }
        src.push_str(&decl(kind, &name, *g, *b));
        if used {
            body.push_str(&touch(kind, &name));
        }
    }
    src.push_str(&format!("@compute @workgroup_size(1) fn main() {{\n{body}}}\n"));
    let key = format!("slots={}|used={}{}", slots.iter().map(|(g, b)| format!("{g}.{b}")).collect::<Vec<_>>().join(","), used as u8, if unbound { "|unbound" } else { "" });
    Case { key, slots: slots.to_vec(), used, src }
}

/// Variable i is used only by the entry point of stage (V, F, C)[i % 3].
pub fn build_spread(slots: &[(u64, u64)], kind_offset: usize) -> Case {
    let mut src = String::new();
    let mut bodies = [String::new(), String::new(), String::new()];
    for (i, (g, b)) in slots.iter().enumerate() {
        // uniform / read-only texture kinds only: storage writes are not allowed in vertex stages
        let kind = ["uniform", "texture"][(i + kind_offset) % 2];
        let name = var_name(i);
        src.push_str(&decl(kind, &name, *g, *b));
        bodies[i % 3].push_str(&touch(kind, &name));
    }
    src.push_str(&format!("@vertex fn vs_main() -> @builtin(position) vec4<f32> {{\n    var acc: f32 = 0.0;\n{}    return vec4<f32>(acc);\n}}\n", bodies[0]));
    src.push_str(&format!("@fragment fn fs_main() -> @location(0) vec4<f32> {{\n    var acc: f32 = 0.0;\n{}    return vec4<f32>(acc);\n}}\n", bodies[1]));
    src.push_str(&format!("@compute @workgroup_size(1) fn cs_main() {{\n    var acc: f32 = 0.0;\n{}}}\n", bodies[2]));
    let key = format!("slots={}|used=spread", slots.iter().map(|(g, b)| format!("{g}.{b}")).collect::<Vec<_>>().join(","));
    Case { key, slots: slots.to_vec(), used: true, src }
}

fn var_name(i: usize) -> String {
    format!("{}{}", ["zz", "mm", "aa", "qq", "bb"][i % 5], i)
}

/// The contract model.
#[derive(Debug, PartialEq)]
enum Expect {
    Duplicate(BTreeSet<u64>),
    NonConsecutive,
    Ok,
}

fn model(slots: &[(u64, u64)]) -> Expect {
    let mut seen = BTreeSet::new();
    let mut dups = BTreeSet::new();
    for s in slots {
        if !seen.insert(*s) {
            dups.insert(s.1);
        }
    }
    if !dups.is_empty() {
        return Expect::Duplicate(dups);
    }
    let groups: BTreeSet<u64> = slots.iter().map(|s| s.0).collect();
    let n = groups.len() as u64;
    if groups.iter().copied().eq(0..n) {
        Expect::Ok
    } else {
        Expect::NonConsecutive
    }
}

pub fn check_case(c: &Case, rep: &mut Report) {
    rep.states += 1;
    rep.transitions += c.slots.len() as u64;
    rep.max_depth = rep.max_depth.max(c.slots.len() as u64);
    // naga's own verdicts, called directly
    let parsed = std::panic::catch_unwind(|| naga::front::wgsl::parse_str(&c.src));
    let parsed = match parsed {
        Ok(p) => p,
        Err(_) => {
            rep.filtered("naga parser panics on direct call");
            return;
        }
    };
    let naga_valid = match &parsed {
        Ok(m) => std::panic::catch_unwind(|| {
            naga::valid::Validator::new(naga::valid::ValidationFlags::all(), naga::valid::Capabilities::all()).validate(m).is_ok()
        })
        .unwrap_or(false),
        Err(_) => false,
    };
    let expect = model(&c.slots);
    for validate in [Validate::Off, Validate::All] {
        let cfg = Config { validate, encase: true, ..Config::default() };
        rep.evaluations += 1;
        let out = generate(&c.src, &cfg);
        rep.outcomes.insert(out.class());
        let case = format!("{}|val={}", c.key, (validate == Validate::All) as u8);
        let detail = |obs: &str| json!({"wgsl": c.src, "config": cfg.key(), "expected": format!("{expect:?}"), "observed": obs});
        if parsed.is_err() {
            // outside the contract's domain: the front end rejects the text (e.g. index out of range)
            if !matches!(&out, Outcome::Err(v, _) if v == "ParseError") {
                rep.violation(case, format!("front end rejects the source but outcome is {}", out.class()), detail(&out.class()));
            }
            continue;
        }
        if let Outcome::Panic(m) = &out {
            rep.violation(case, format!("panic: {}", m.chars().take(80).collect::<String>()), detail(&out.class()));
            continue;
        }
        if validate == Validate::All && !naga_valid {
            // the validator's own error may pre-empt the dedicated errors
            match &out {
                Outcome::Err(v, _) if v == "ValidationError" => continue,
                _ => {
                    rep.violation(case, format!("validator rejects but outcome is {}", out.class()), detail(&out.class()));
                    continue;
                }
            }
        }
        if matches!(&out, Outcome::Err(v, _) if v == "ValidationError" || v == "ParseError") {
            rep.violation(case, format!("{} on a source naga accepts", out.class()), detail(&out.class()));
            continue;
        }
        match (&expect, &out) {
            (Expect::Duplicate(set), Outcome::Err(v, _)) => {
                let ok = v.strip_prefix("DuplicateBinding(").and_then(|s| s.strip_suffix(')')).and_then(|s| s.parse::<u64>().ok()).map(|b| set.contains(&b)).unwrap_or(false);
                if !ok {
                    rep.violation(case, format!("expected DuplicateBinding of {set:?}, observed {v}"), detail(v));
                }
            }
            (Expect::NonConsecutive, Outcome::Err(v, _)) => {
                if v != "NonConsecutiveBindGroups" {
                    rep.violation(case, format!("expected NonConsecutiveBindGroups, observed {v}"), detail(v));
                }
            }
            (Expect::Ok, Outcome::Ok(text)) => {
                if let Err(sig) = check_ok_module(c, text) {
                    rep.violation(case, sig.clone(), detail(&sig));
                }
                rep.nontrivial.insert(hash64(&c.src));
            }
            (e, o) => {
                rep.violation(case, format!("expected {e:?}, observed {}", o.class()), detail(&o.class()));
            }
        }
        if !matches!(expect, Expect::Ok) {
            rep.nontrivial.insert(hash64(&c.src));
        }
    }
}

/// On success every declared binding appears exactly once, in its own group, with its own index.
fn check_ok_module(c: &Case, text: &str) -> Result<(), String> {
    let m = omodel::parse(text).unwrap_or_else(|e| machinery(&format!("C11: {e}")));
    let bg = match m.bind_groups() {
        Ok(b) => b,
        Err(omodel::interp::UnknownName::Missing(v)) => return Err(format!("a declared group lacks its items: {v}")),
        Err(e) => machinery(&format!("C11: cannot read bind groups: {e}")),
    };
    let mut declared: BTreeMap<u64, Vec<(u64, String)>> = BTreeMap::new();
    for (i, (g, b)) in c.slots.iter().enumerate() {
        declared.entry(*g).or_default().push((*b, var_name(i)));
    }
    let emitted_groups: Vec<u64> = bg.groups.iter().map(|g| g.index as u64).collect();
    let want_groups: Vec<u64> = declared.keys().copied().collect();
    if emitted_groups != want_groups {
        return Err(format!("groups emitted {emitted_groups:?}, declared {want_groups:?}"));
    }
    for g in &bg.groups {
        let want = &declared[&(g.index as u64)];
        let mut want_idx: Vec<u64> = want.iter().map(|x| x.0).collect();
        want_idx.sort();
        let mut got_idx: Vec<u64> = g.layout_entries.iter().map(|e| e.binding as u64).collect();
        got_idx.sort();
        if got_idx != want_idx {
            return Err(format!("group {}: layout bindings {got_idx:?}, declared {want_idx:?}", g.index));
        }
        let mut want_pairs: Vec<(u64, String)> = want.clone();
        want_pairs.sort();
        let mut got_pairs: Vec<(u64, String)> = g.from_bindings_entries.iter().map(|e| (e.binding, e.field.clone())).collect();
        got_pairs.sort();
        if got_pairs != want_pairs {
            return Err(format!("group {}: bind group entries {got_pairs:?}, declared {want_pairs:?}", g.index));
        }
        let mut fields: Vec<String> = g.resource_fields.iter().map(|f| f.name.clone()).collect();
        fields.sort();
        let mut want_fields: Vec<String> = want.iter().map(|x| x.1.clone()).collect();
        want_fields.sort();
        if fields != want_fields {
            return Err(format!("group {}: fields {fields:?}, declared {want_fields:?}", g.index));
        }
    }
    if !c.slots.is_empty() {
        let pl = m.pipeline_layout().unwrap_or_else(|e| machinery(&format!("C11: pipeline layout: {e}")));
        let order: Vec<u64> = pl.group_order.iter().map(|x| *x as u64).collect();
        if order != want_groups {
            return Err(format!("pipeline layout lists groups {order:?}, declared {want_groups:?}"));
        }
    }
    Ok(())
}

pub fn cases(thorough: bool) -> Vec<Case> {
    let (gn, bn, depth) = if thorough { (4u64, 3u64, 5usize) } else { (3, 3, 4) };
    let mut grid = vec![];
    for g in 0..gn {
        for b in 0..bn {
            grid.push((g, b));
        }
    }
    let mut out = vec![];
    for d in 0..=depth {
        for seq in wgslgen::sequences(grid.len(), d) {
            let slots: Vec<(u64, u64)> = seq.iter().map(|i| grid[*i]).collect();
            let off = seq.iter().sum::<usize>();
            for used in [false, true] {
                out.push(build(&slots, used, off));
            }
            if d >= 2 && d <= 3 {
                out.push(build_u(&slots, false, off, true));
            }
        }
    }
    // variables used by different entry points (stages rotate V, F, C with the declaration index): a repeated pair whose
    // two variables are never used by the same entry passes naga's per-entry collision check
    for d in 2..=3usize {
        for seq in wgslgen::sequences(grid.len(), d) {
            let slots: Vec<(u64, u64)> = seq.iter().map(|i| grid[*i]).collect();
            let off = seq.iter().sum::<usize>();
            out.push(build_spread(&slots, off));
        }
    }
    // @group/@binding on a variable of another address space (the front end accepts it, only the validator objects): with
    // validation off such a variable occupies its slot like any other declared binding
    for d in 1..=3usize {
        for seq in wgslgen::sequences(grid.len(), d) {
            let slots: Vec<(u64, u64)> = seq.iter().map(|i| grid[*i]).collect();
            for odd in 0..d {
                for space in ["private", "workgroup"] {
                    if !thorough && (seq.iter().sum::<usize>() + odd) % 3 != 0 {
                        continue;
                    }
                    let mut src = String::new();
                    for (i, (g, b)) in slots.iter().enumerate() {
                        let name = var_name(i);
                        if i == odd {
                            src.push_str(&format!("@group({g}) @binding({b}) var<{space}> {name}: vec4<f32>;\n"));
                        } else {
                            src.push_str(&decl(["uniform", "texture"][i % 2], &name, *g, *b));
                        }
                    }
                    src.push_str("@compute @workgroup_size(1) fn main() {\n}\n");
                    let key = format!("slots={}|used=0|odd-space={space}@{odd}", slots.iter().map(|(g, b)| format!("{g}.{b}")).collect::<Vec<_>>().join(","));
                    out.push(Case { key, slots: slots.clone(), used: false, src });
                }
            }
        }
    }
    // wide: 65 / 70 / 130 bindings in one group (ascending, descending), 65 / 70 groups of one binding, and a duplicate at
    // the far end of a long sequence
    for n in [65u64, 70, 130] {
        let asc: Vec<(u64, u64)> = (0..n).map(|b| (0, b)).collect();
        out.push(build(&asc, true, 0));
        let desc: Vec<(u64, u64)> = (0..n).rev().map(|b| (0, b)).collect();
        out.push(build(&desc, false, 1));
        let groups: Vec<(u64, u64)> = (0..n.min(70)).map(|g| (g, 0)).collect();
        out.push(build(&groups, false, 2));
        let mut dup = asc.clone();
        dup.push((0, 0));
        out.push(build(&dup, false, 3));
        let mut dup2 = asc.clone();
        dup2.push((0, n - 1));
        out.push(build(&dup2, false, 4));
        let mut gap: Vec<(u64, u64)> = (0..n.min(70)).map(|g| (g, 0)).collect();
        gap.remove(64.min(gap.len() - 2));
        out.push(build(&gap, false, 5));
    }
    // boundary layer: extreme indices, depth <= 2
    let ext: [u64; 8] = [0, 1, 2, 255, 65535, 1 << 31, u32::MAX as u64, (u32::MAX as u64) + 1];
    let mut egrid = vec![];
    for g in ext {
        for b in ext {
            egrid.push((g, b));
        }
    }
    let dmax = if thorough { 2 } else { 1 };
    for d in 1..=dmax {
        for seq in wgslgen::sequences(egrid.len(), d) {
            let slots: Vec<(u64, u64)> = seq.iter().map(|i| egrid[*i]).collect();
            out.push(build(&slots, true, 0));
        }
    }
    // quick also gets the two-variable boundary cases that can succeed or collide
    if !thorough {
        for b1 in ext {
            for b2 in ext {
                out.push(build(&[(0, b1), (0, b2)], true, 0));
                out.push(build(&[(0, b1), (1, b2)], false, 1));
            }
        }
    }
    out
}

pub fn run(tier: &str) -> i32 {
    let mut rep = Report::new("C11", tier);
    let thorough = rep.thorough();
    let mut cs = cases(thorough);
    // declarations-only modules (no entry point): the numbering contract is about the declarations (every 5th case)
    {
        let n0 = cs.len();
        for i in 0..n0 {
            if !cs[i].used && (thorough || i % 5 == 0) {
                if let Some(src) = without_entry_points(&cs[i].src) {
                    cs.push(Case { key: format!("{}|no-entry-points", cs[i].key), slots: cs[i].slots.clone(), used: false, src });
                }
            }
        }
    }
    let results = par_map(&cs, |c| {
        let mut r = Report::new("C11", tier);
        check_case(c, &mut r);
        r
    });
    for (i, c) in cs.iter().enumerate() {
        if i % (cs.len() / 5 + 1) == 3 {
            rep.sample(json!({"key": c.key, "wgsl": c.src, "model": format!("{:?}", model(&c.slots))}));
        }
    }
    for r in results {
        rep.merge(r);
    }
    rep.traces_validated = rep.evaluations;
    rep.set("outcome_classes", json!(rep.outcomes.iter().cloned().collect::<Vec<_>>()));
    rep.rule = format!(
        "all declaration sequences (order is state) of length <= {} over (group,binding) in {}x{} with rotating resource kinds, each with variables unused / used by one entry / used by entries of different stages, x validation off/on; plus a boundary layer with indices from {{0,1,2,255,65535,2^31,2^32-1,2^32}}. Oracle: contract model (duplicate -> DuplicateBinding of a repeated index; else non-dense groups -> NonConsecutiveBindGroups; else Ok with every declared (group,binding,name) present exactly once); naga called directly decides parse/validation pre-emption. Non-trivial = case whose outcome was compared with the model.",
        if thorough { 5 } else { 4 },
        if thorough { 4 } else { 3 },
        3
    );
    if rep.outcomes.len() < 3 {
        machinery("C11: fewer than 3 distinct outcome classes - vacuous space");
    }
    rep.finish()
}
