mod c01;
mod c02;
mod c03;
mod c04;
mod c05;
mod c06;
mod c07;
mod c08;
mod c09;
mod c10;
mod c11;
mod c12;
mod c13;
mod c14;
mod c15;
mod c16;
mod c17;
mod c18;
mod c19;
mod c20;
mod common;
mod probe;
mod progs;
mod structspace;
mod wgpucheck;

/// Counting allocator: bytes live / peak per thread (the generator is single-threaded with the formatter off, so the
/// peak reached during one call on the calling thread is that call's memory high-water mark). Used by C20.
pub mod memcount {
    use std::alloc::{GlobalAlloc, Layout, System};
    use std::cell::Cell;
    thread_local! {
        static LIVE: Cell<i64> = const { Cell::new(0) };
        static PEAK: Cell<i64> = const { Cell::new(0) };
    }
    pub struct Counting;
    #[inline]
    fn add(d: i64) {
        let _ = LIVE.try_with(|c| {
            let v = c.get() + d;
            c.set(v);
            if d > 0 {
                let _ = PEAK.try_with(|p| {
                    if v > p.get() {
                        p.set(v)
                    }
                });
            }
        });
    }
    unsafe impl GlobalAlloc for Counting {
        unsafe fn alloc(&self, l: Layout) -> *mut u8 {
            let p = System.alloc(l);
            if !p.is_null() {
                add(l.size() as i64);
            }
            p
        }
        unsafe fn alloc_zeroed(&self, l: Layout) -> *mut u8 {
            let p = System.alloc_zeroed(l);
            if !p.is_null() {
                add(l.size() as i64);
            }
            p
        }
        unsafe fn dealloc(&self, p: *mut u8, l: Layout) {
            System.dealloc(p, l);
            add(-(l.size() as i64));
        }
        unsafe fn realloc(&self, p: *mut u8, l: Layout, new: usize) -> *mut u8 {
            let q = System.realloc(p, l, new);
            if !q.is_null() {
                add(new as i64 - l.size() as i64);
            }
            q
        }
    }
    /// Starts a measurement on this thread: the peak is reset to the current live count, which is returned.
    pub fn start() -> i64 {
        let live = LIVE.with(|c| c.get());
        PEAK.with(|p| p.set(live));
        live
    }
    /// Bytes above `base` at the high-water mark since `start()`.
    pub fn peak_above(base: i64) -> u64 {
        (PEAK.with(|p| p.get()) - base).max(0) as u64
    }
}

#[global_allocator]
static ALLOCATOR: memcount::Counting = memcount::Counting;

fn main() {
    let args: Vec<String> = std::env::args().collect();
    if args.first().map(|a| a.ends_with("rustfmt")).unwrap_or(false) {
        c19::stub_main();
    }
    common::install_quiet_panic_hook();
    if args.len() < 3 {
        eprintln!("usage: explore <property-id> quick|thorough | explore replay <file>");
        std::process::exit(2);
    }
    if args[1] == "replay" {
        std::process::exit(replay(&args[2]));
    }
    if args[1] == "gen" {
        let src = std::fs::read_to_string(&args[2]).unwrap();
        let cfg = args.get(3).and_then(|k| common::Config::from_key(k)).unwrap_or_default();
        match common::generate(&src, &cfg) {
            common::Outcome::Ok(t) => println!("{t}"),
            other => println!("{other:?}"),
        }
        match common::naga_check(&src) {
            Ok(_) => eprintln!("naga: valid"),
            Err(e) => eprintln!("naga: {e}"),
        }
        return;
    }
    if args[1] == "compile-replays" {
        // explore compile-replays <dir>: every replay file's (wgsl, config) generated and type-checked in ONE batch
        let mut cases = vec![];
        let mut names = vec![];
        for (i, e) in std::fs::read_dir(&args[2]).unwrap().flatten().enumerate() {
            let v: serde_json::Value = serde_json::from_str(&std::fs::read_to_string(e.path()).unwrap()).unwrap();
            let (src, cfg) = (v["detail"]["wgsl"].as_str().unwrap_or("").to_string(), v["detail"]["config"].as_str().and_then(common::Config::from_key).unwrap_or_default());
            if let common::Outcome::Ok(t) = common::generate(&src, &cfg) {
                let name = format!("c_{i:04}");
                names.push((name.clone(), v["case"].to_string()));
                cases.push(probe::ProbeCase { name, generated: t, probe_body: String::new(), probe_items: String::new(), files: vec![] });
            }
        }
        for r in probe::run_batch("DBG", &cases, false) {
            let case = names.iter().find(|(n, _)| *n == r.name).map(|(_, c)| c.clone()).unwrap_or_default();
            println!("{} {} {:?}", r.name, case, r.check);
        }
        return;
    }
    if args[1] == "compile" {
        // explore compile <file.wgsl> [config key]: generate and type-check the module against the real crates
        let src = std::fs::read_to_string(&args[2]).unwrap();
        let cfg = args.get(3).and_then(|k| common::Config::from_key(k)).unwrap_or_default();
        match common::generate(&src, &cfg) {
            common::Outcome::Ok(t) => {
                let case = probe::ProbeCase { name: "c_debug".into(), generated: t, probe_body: String::new(), probe_items: String::new(), files: vec![] };
                for r in probe::run_batch("DBG", &[case], false) {
                    println!("{:?}", r.check);
                }
            }
            other => println!("{other:?}"),
        }
        return;
    }
    if args[1] == "prior-calls" {
        // explore prior-calls: the history calls of the single-call checks and what each does on this tree
        for (name, src, validate) in common::prior_calls() {
            let cfg = common::Config { validate: if validate { common::Validate::All } else { common::Validate::Off }, ..Default::default() };
            let o = common::generate_with_unguarded(&src, None, cfg.options());
            println!("{name}: {}", o.class().chars().take(120).collect::<String>());
        }
        return;
    }
    if args[1] == "setup" {
        probe::setup();
        c18::setup();
        return;
    }
    let tier = args[2].as_str();
    let code = match args[1].as_str() {
        "C01" => c01::run(tier),
        "C02" => c02::run(tier),
        "C03" => c03::run(tier),
        "C04" => c04::run(tier),
        "C05" => c05::run(tier),
        "C06" => c06::run(tier),
        "C07" => c07::run(tier),
        "C08" => c08::run(tier),
        "C09" => c09::run(tier),
        "C10" => c10::run(tier),
        "C11" => c11::run(tier),
        "C12" => c12::run(tier),
        "C13" => c13::run(tier),
        "C14" => c14::run(tier),
        "C15" => c15::run(tier),
        "C16" => c16::run(tier),
        "C17" => c17::run(tier),
        "C18" => c18::run(tier),
        "c18-history" => c18::history_child(tier),
        "c18-trace" => c18::trace_child(),
        "c18-trace-fmt" => c18::trace_fmt_child(),
        "c18-corpus" => c18::corpus_child(tier),
        "c16-nofmt" => c16::nofmt_child(tier),
        "C19" => c19::run(tier),
        "c19-child" => c19::child_main(tier.parse().unwrap(), &args[3], args.get(4).map(|s| s.as_str())),
        "C20" => c20::run(tier),
        "c20-child" => c20::child(tier, args[3].parse().unwrap()),
        other => {
            eprintln!("unknown property {other}");
            2
        }
    };
    std::process::exit(code);
}

/// Re-runs one recorded case (generator only) and shows what the real code does with it.
fn replay(path: &str) -> i32 {
    let v: serde_json::Value = serde_json::from_str(&std::fs::read_to_string(path).expect("replay file")).expect("replay json");
    println!("property: {}", v["property"]);
    println!("case:     {}", v["case"]);
    println!("recorded: {}", v["signature"]);
    let d = &v["detail"];
    if let Some(src) = d["wgsl"].as_str() {
        let cfg = d["config"].as_str().and_then(common::Config::from_key).unwrap_or_default();
        println!("config:   {}", cfg.key());
        println!("--- wgsl ---\n{src}\n--- outcome of the real generator ---");
        match common::generate(src, &cfg) {
            common::Outcome::Ok(t) => println!("Ok:\n{t}"),
            other => println!("{other:?}"),
        }
    }
    for k in ["expected", "observed", "schedule", "history", "script"] {
        if !d[k].is_null() {
            println!("{k}: {}", d[k]);
        }
    }
    0
}
