mod c03;
mod common;
mod progs;

fn main() {
    common::install_quiet_panic_hook();
    let args: Vec<String> = std::env::args().collect();
    if args.len() < 3 {
        eprintln!("usage: explore <property-id> quick|thorough | explore replay <file>");
        std::process::exit(2);
    }
    let tier = args[2].as_str();
    let code = match args[1].as_str() {
        "C03" => c03::run(tier),
        other => {
            eprintln!("unknown property {other}");
            2
        }
    };
    std::process::exit(code);
}
