//! C14 — entry point metadata matches the shader's entry points.
use crate::common::*;
use crate::probe::{self, ProbeCase, Verdict};
use omodel::Val;
use serde_json::json;
use std::collections::BTreeMap;

#[derive(Clone, Debug)]
pub struct VEntry {
    pub name: String,
    /// struct parameter names in order; `None` = a builtin parameter
    pub params: Vec<Option<&'static str>>,
}
#[derive(Clone, Debug)]
pub struct FEntry {
    pub name: String,
    pub shape: usize,
}
#[derive(Clone, Debug)]
pub struct CEntry {
    pub name: String,
    pub size: usize,
}
#[derive(Clone, Debug)]
pub struct Prog {
    pub key: String,
    pub src: String,
    pub vs: Vec<VEntry>,
    pub fs: Vec<FEntry>,
    pub cs: Vec<CEntry>,
    pub overrides: bool,
}

pub const F_SHAPES: [(&str, usize); 11] = [
    ("", 0),
    (" -> @location(0) vec4<f32>", 1),
    (" -> @location(2) vec4<f32>", 3),
    (" -> @builtin(frag_depth) f32", 0),
    (" -> FOutMixed", 2),
    (" -> FOutSparse", 4),
    (" -> FOutBuiltins", 0),
    (" -> FOutDescending", 3),
    (" -> FOutSwapped", 2),
    (" -> FOutSingleHigh", 6),
    (" -> @location(1) f32", 2),
];
const F_TYPES: &str = "struct FOutMixed { @location(0) a: vec4<f32>, @builtin(frag_depth) d: f32, @location(1) b: vec4<f32> };\nstruct FOutSparse { @location(1) a: vec4<f32>, @location(3) b: vec4<f32> };\nstruct FOutBuiltins { @builtin(frag_depth) d: f32, @builtin(sample_mask) m: u32 };\nstruct FOutDescending { @location(2) bright: vec4<f32>, @builtin(frag_depth) d: f32, @location(0) colour: vec4<f32> };\nstruct FOutSwapped { @location(1) a: vec4<f32>, @location(0) b: vec4<f32> };\nstruct FOutSingleHigh { @builtin(sample_mask) m: u32, @location(5) only: vec4<f32> };\n";
const V_TYPES: &str = "struct VInA { @location(0) a: vec4<f32>, @builtin(vertex_index) vi: u32 };\nstruct VInB { @location(1) b: vec2<f32> };\nstruct VInBuiltins { @builtin(instance_index) i: u32 };\n";
pub const C_SIZES: [(&str, [u32; 3]); 8] = [("1", [1, 1, 1]), ("2, 3", [2, 3, 1]), ("4, 5, 6", [4, 5, 6]), ("WG_N", [7, 1, 1]), ("WG_N, 2", [7, 2, 1]), ("256", [256, 1, 1]), ("1, 1, 64", [1, 1, 64]), ("WG_N * 2u, 16, 2", [14, 16, 2])];
pub const V_PARAMS: [&[Option<&str>]; 9] = [&[], &[Some("VInA")], &[Some("VInA"), Some("VInB")], &[Some("VInB"), None], &[None, Some("VInB"), Some("VInA")], &[Some("VInBuiltins")], &[Some("VInA"), Some("VInBuiltins")],
    // structs that a fragment entry of the same module may return (FOutSwapped / FOutSparse: @location members only)
    &[Some("FOutSwapped"), None], &[Some("VInA"), Some("FOutSparse")]];

fn f_body(shape: usize) -> String {
    match shape {
        0 => String::new(),
        1 | 2 => "    return vec4<f32>(1.0);\n".into(),
        3 | 10 => "    return 0.5;\n".into(),
        4 => "    var o: FOutMixed;\n    return o;\n".into(),
        5 => "    var o: FOutSparse;\n    return o;\n".into(),
        6 => "    var o: FOutBuiltins;\n    return o;\n".into(),
        7 => "    var o: FOutDescending;\n    return o;\n".into(),
        8 => "    var o: FOutSwapped;\n    return o;\n".into(),
        _ => "    var o: FOutSingleHigh;\n    return o;\n".into(),
    }
}

pub fn build(vs: Vec<VEntry>, fs: Vec<FEntry>, cs: Vec<CEntry>, overrides: bool, key: String) -> Prog {
    let mut src = String::new();
    src.push_str(V_TYPES);
    src.push_str(F_TYPES);
    src.push_str("const WG_N: u32 = 7u;\n");
    if overrides {
        src.push_str("override ov_scale: f32 = 1.0;\n@id(9) override ov_flag: bool;\noverride ov_count: u32 = 4u;\n@id(2) override ov_bias: i32;\n");
    }
    for v in &vs {
        let ps: Vec<String> = v.params.iter().enumerate().map(|(i, p)| match p {
            Some(s) => format!("p{i}: {s}"),
            None => format!("@builtin(instance_index) p{i}: u32"),
        }).collect();
        let use_ov = if overrides { "    if ov_flag { return vec4<f32>(ov_scale); }\n" } else { "" };
        src.push_str(&format!("@vertex fn {}({}) -> @builtin(position) vec4<f32> {{\n{use_ov}    return vec4<f32>(0.0);\n}}\n", v.name, ps.join(", ")));
    }
    for f in &fs {
        src.push_str(&format!("@fragment fn {}(){} {{\n{}}}\n", f.name, F_SHAPES[f.shape].0, f_body(f.shape)));
    }
    for c in &cs {
        src.push_str(&format!("@compute @workgroup_size({}) fn {}() {{\n}}\n", C_SIZES[c.size].0, c.name));
    }
    Prog { key, src, vs, fs, cs, overrides }
}

const V_NAMES: [&str; 5] = ["vs_main", "vertexMain2", "v", "\u{e9}tape_\u{df}v", "VS_UPPER"];
const F_NAMES: [&str; 5] = ["fs_main", "fragMain_1", "f", "\u{e9}tape_\u{df}f", "FS_UPPER"];
const C_NAMES: [&str; 5] = ["cs_main", "computeMain3", "c", "\u{e9}tape_\u{df}c", "CS_UPPER"];

pub fn space(thorough: bool) -> Vec<Prog> {
    let mut out = vec![];
    let mut n = 0usize;
    // one entry per stage (or none): full product of shapes
    for v in 0..=V_PARAMS.len() {
        for f in 0..=F_SHAPES.len() {
            for c in 0..=C_SIZES.len() {
                for ov in [false, true] {
                    if v == 0 && f == 0 && c == 0 {
                        continue;
                    }
                    n += 1;
                    let vs = if v == 0 { vec![] } else { vec![VEntry { name: V_NAMES[n % 5].to_string(), params: V_PARAMS[v - 1].to_vec() }] };
                    let fs = if f == 0 { vec![] } else { vec![FEntry { name: F_NAMES[(n / 2) % 5].to_string(), shape: f - 1 }] };
                    let cs = if c == 0 { vec![] } else { vec![CEntry { name: C_NAMES[(n / 3) % 5].to_string(), size: c - 1 }] };
                    out.push(build(vs, fs, cs, ov, format!("one|v={v}|f={f}|c={c}|ov={}", ov as u8)));
                }
            }
        }
    }
    // two entries of one stage: every ordered pair of shapes (same result / parameter type with different bindings,
    // the same struct twice, a high location before a low one, ...)
    for a in 0..F_SHAPES.len() {
        for b in 0..F_SHAPES.len() {
            let fs = vec![FEntry { name: F_NAMES[a % 5].to_string(), shape: a }, FEntry { name: F_NAMES[(a % 5 + 1 + b % 4) % 5].to_string(), shape: b }];
            out.push(build(vec![], fs, vec![], false, format!("pair|f={a},{b}")));
        }
    }
    for a in 0..V_PARAMS.len() {
        for b in 0..V_PARAMS.len() {
            let vs = vec![VEntry { name: V_NAMES[a % 5].to_string(), params: V_PARAMS[a].to_vec() }, VEntry { name: V_NAMES[(a % 5 + 1 + b % 4) % 5].to_string(), params: V_PARAMS[b].to_vec() }];
            out.push(build(vs, vec![], vec![], (a + b) % 2 == 1, format!("pair|v={a},{b}")));
        }
    }
    for a in 0..C_SIZES.len() {
        for b in 0..C_SIZES.len() {
            let cs = vec![CEntry { name: C_NAMES[a % 5].to_string(), size: a }, CEntry { name: C_NAMES[(a % 5 + 1 + b % 4) % 5].to_string(), size: b }];
            out.push(build(vec![], vec![], cs, false, format!("pair|c={a},{b}")));
        }
    }
    // wide: 66-70 entries of one stage in one module (names unique by index)
    {
        let cs: Vec<CEntry> = (0..70).map(|i| CEntry { name: format!("wide_cs_{i}"), size: i % C_SIZES.len() }).collect();
        out.push(build(vec![], vec![], cs, true, "wide|c=70".to_string()));
        let fs: Vec<FEntry> = (0..66).map(|i| FEntry { name: format!("wide_fs_{i}"), shape: i % F_SHAPES.len() }).collect();
        out.push(build(vec![], fs, vec![], false, "wide|f=66".to_string()));
        let vs: Vec<VEntry> = (0..66).map(|i| VEntry { name: format!("wide_vs_{i}"), params: V_PARAMS[i % 7].to_vec() }).collect();
        out.push(build(vs, vec![], vec![], false, "wide|v=66".to_string()));
    }
    // several entries per stage
    let counts: &[usize] = if thorough { &[2, 3] } else { &[2] };
    for &k in counts {
        for rot in 0..if thorough { 7 } else { 4 } {
            for ov in [false, true] {
                let vs = (0..k).map(|i| VEntry { name: V_NAMES[(i + rot) % 5].to_string(), params: V_PARAMS[(i + rot) % V_PARAMS.len()].to_vec() }).collect();
                let fs = (0..k).map(|i| FEntry { name: F_NAMES[(i + rot) % 5].to_string(), shape: (i * 3 + rot) % F_SHAPES.len() }).collect();
                let cs = (0..k).map(|i| CEntry { name: C_NAMES[(i + rot) % 5].to_string(), size: (i * 2 + rot) % 5 }).collect();
                out.push(build(vs, fs, cs, ov, format!("multi|k={k}|rot={rot}|ov={}", ov as u8)));
            }
        }
    }
    // counts: n entries per stage around the powers of two
    for n in [15usize, 16, 17, 31, 32, 33] {
        let cs: Vec<CEntry> = (0..n).map(|i| CEntry { name: format!("count_cs_{i}"), size: (i * 3) % C_SIZES.len() }).collect();
        let fs: Vec<FEntry> = (0..n).map(|i| FEntry { name: format!("count_fs_{i}"), shape: (i * 5) % F_SHAPES.len() }).collect();
        let vs: Vec<VEntry> = (0..n).map(|i| VEntry { name: format!("count_vs_{i}"), params: V_PARAMS[i % 7].to_vec() }).collect();
        out.push(build(vs, fs, cs, n % 2 == 0, format!("count|n={n}")));
    }
    out
}

fn path_is(v: &Val, name: &str) -> bool {
    matches!(v.unref(), Val::Path(p) if p.len() == 1 && p[0] == name)
}

pub fn check_model(p: &Prog, text: &str) -> Vec<String> {
    let mut out = vec![];
    let m = omodel::parse(text).unwrap_or_else(|e| machinery(&format!("C14: {e}")));
    // name constants: for every entry a public constant whose value is the exact name
    let const_for = |name: &str| -> Option<String> { m.top.consts.iter().find(|c| c.is_pub && c.ty == "&str" && matches!(&c.val, Val::Str(s) if s == name)).map(|c| c.name.clone()) };
    let entry_consts: Vec<&omodel::ConstInfo> = m.top.consts.iter().filter(|c| c.name.starts_with("ENTRY_")).collect();
    let n_entries = p.vs.len() + p.fs.len() + p.cs.len();
    if entry_consts.len() != n_entries {
        out.push(format!("{} ENTRY_* constants for {n_entries} entry points", entry_consts.len()));
    }
    for name in p.vs.iter().map(|v| &v.name).chain(p.fs.iter().map(|f| &f.name)).chain(p.cs.iter().map(|c| &c.name)) {
        if const_for(name).is_none() {
            out.push(format!("no public constant holds the exact entry name `{name}`"));
        }
    }
    let overrides_param = |params: &[(String, String)]| params.iter().filter(|(_, t)| t == "&OverrideConstants").count();
    // vertex helpers
    let vh = m.entry_helpers("VertexEntry").unwrap_or_else(|e| machinery(&format!("C14: {e}")));
    if vh.len() != p.vs.len() {
        out.push(format!("{} vertex entry helpers for {} vertex entries", vh.len(), p.vs.len()));
    }
    for v in &p.vs {
        let h = match vh.iter().find(|h| h.fn_name == format!("{}_entry", v.name)) {
            Some(h) => h,
            None => {
                out.push(format!("no helper {}_entry", v.name));
                continue;
            }
        };
        let structs: Vec<&str> = v.params.iter().flatten().copied().collect();
        if h.ret != format!("VertexEntry<{}>", structs.len()) {
            out.push(format!("{}_entry returns {} for {} struct parameters", v.name, h.ret, structs.len()));
        }
        let step_params: Vec<&String> = h.params.iter().filter(|(_, t)| t == "wgpu::VertexStepMode").map(|(n, _)| n).collect();
        if step_params.len() != structs.len() {
            out.push(format!("{}_entry takes {} step modes for {} struct parameters", v.name, step_params.len(), structs.len()));
        }
        if overrides_param(&h.params) != p.overrides as usize {
            out.push(format!("{}_entry override parameter count {}", v.name, overrides_param(&h.params)));
        }
        match h.literal.field("entry_point") {
            Ok(ep) => {
                let want = const_for(&v.name).unwrap_or_default();
                if !path_is(ep, &want) {
                    out.push(format!("{}_entry uses entry_point {ep:?}, expected the constant holding `{}`", v.name, v.name));
                }
            }
            Err(e) => out.push(e),
        }
        match h.literal.field("buffers").and_then(|b| b.as_array().map(|a| a.to_vec())) {
            Ok(bufs) => {
                let got: Vec<String> = bufs.iter().map(|b| match b { Val::Call { path, args } if path.len() == 2 && path[1] == "vertex_buffer_layout" && args.len() == 1 => format!("{}({})", path[0], match &args[0] { Val::Path(p) if p.len() == 1 => p[0].clone(), o => format!("{o:?}") }), o => format!("{o:?}") }).collect();
                // C14 speaks of the buffer *count*; which struct sits in which slot (and with whose step mode) is C07's
                // statement, so only the multiset of structs is compared here
                let mut got_structs: Vec<String> = got.iter().map(|g| g.split('(').next().unwrap_or("").to_string()).collect();
                got_structs.sort();
                let mut want_structs: Vec<String> = structs.iter().map(|s| s.to_string()).collect();
                want_structs.sort();
                if got_structs != want_structs {
                    out.push(format!("{}_entry buffers {got:?}, the entry has struct parameters {structs:?}", v.name));
                }
            }
            Err(e) => out.push(e),
        }
        let constants = h.literal.field("constants").map(|c| format!("{c:?}")).unwrap_or_default();
        let ok = if p.overrides { constants.contains("Method") && constants.contains("\"overrides\"") && constants.contains("\"constants\"") } else { constants.contains("default") };
        if !ok {
            out.push(format!("{}_entry constants expression {constants}", v.name));
        }
    }
    // fragment helpers
    let fh = m.entry_helpers("FragmentEntry").unwrap_or_else(|e| machinery(&format!("C14: {e}")));
    if fh.len() != p.fs.len() {
        out.push(format!("{} fragment entry helpers for {} fragment entries", fh.len(), p.fs.len()));
    }
    for f in &p.fs {
        let h = match fh.iter().find(|h| h.fn_name == format!("{}_entry", f.name)) {
            Some(h) => h,
            None => {
                out.push(format!("no helper {}_entry", f.name));
                continue;
            }
        };
        let want_n = F_SHAPES[f.shape].1;
        if h.ret != format!("FragmentEntry<{want_n}>") {
            out.push(format!("{}_entry returns {}, the entry writes locations needing {want_n} colour targets", f.name, h.ret));
        }
        let tparam = h.params.iter().find(|(n, _)| n == "targets").map(|(_, t)| t.clone()).unwrap_or_default();
        if tparam != format!("[Option<wgpu::ColorTargetState>;{want_n}]") {
            out.push(format!("{}_entry takes targets: {tparam}, needs {want_n}", f.name));
        }
        if let Ok(ep) = h.literal.field("entry_point") {
            let want = const_for(&f.name).unwrap_or_default();
            if !path_is(ep, &want) {
                out.push(format!("{}_entry uses entry_point {ep:?}, expected the constant holding `{}`", f.name, f.name));
            }
        }
        if !h.literal.field("targets").map(|t| path_is(t, "targets")).unwrap_or(false) {
            out.push(format!("{}_entry does not forward its targets", f.name));
        }
        if overrides_param(&h.params) != p.overrides as usize {
            out.push(format!("{}_entry override parameter count {}", f.name, overrides_param(&h.params)));
        }
    }
    // state builders
    for (fname, lit, list, present) in [("vertex_state", "VertexState", "buffers", !p.vs.is_empty()), ("fragment_state", "FragmentState", "targets", !p.fs.is_empty())] {
        match m.state_builder(fname, lit).unwrap_or_else(|e| machinery(&format!("C14: {e}"))) {
            None => {
                if present {
                    out.push(format!("no {fname}"));
                }
            }
            Some((_params, l)) => {
                let s = |k: &str| l.field(k).map(|v| format!("{:?}", v)).unwrap_or_default();
                let ok = path_is(l.field("module").unwrap_or(&Val::Bool(false)), "module")
                    && s("entry_point") == "Call { path: [\"Some\"], args: [Field(Path([\"entry\"]), \"entry_point\")] }"
                    && s(list) == format!("Ref(Field(Path([\"entry\"]), \"{list}\"))")
                    && s("compilation_options").contains("\"constants\": Ref(Field(Path([\"entry\"]), \"constants\"))")
                    && s("compilation_options").contains("default");
                if !ok {
                    out.push(format!("{fname} does not forward module / entry point / {list} / constants unchanged"));
                }
            }
        }
    }
    // compute
    let comp = m.compute().unwrap_or_else(|e| machinery(&format!("C14: {e}")));
    match (&comp, p.cs.is_empty()) {
        (None, true) => {}
        (None, false) => out.push("no compute module".into()),
        (Some(_), true) => out.push("compute module without compute entries".into()),
        (Some(ci), false) => {
            if ci.pipelines.len() != p.cs.len() || ci.workgroup_consts.len() != p.cs.len() {
                out.push(format!("{} pipeline constructors / {} workgroup constants for {} compute entries", ci.pipelines.len(), ci.workgroup_consts.len(), p.cs.len()));
            }
            for c in &p.cs {
                // a constructor that targets this entry
                let hits: Vec<_> = ci.pipelines.iter().filter(|(_, _, d, _, _)| matches!(d.field("entry_point").and_then(|e| e.as_option()), Ok(Some(Val::Str(s))) if *s == c.name)).collect();
                if hits.len() != 1 {
                    out.push(format!("{} pipeline constructors target `{}`", hits.len(), c.name));
                    continue;
                }
                let (fname, _, d, env, _) = hits[0];
                if *fname != format!("create_{}_pipeline", c.name) {
                    out.push(format!("constructor for `{}` is called {fname}", c.name));
                }
                let uses = |field: &str, creator: &str| -> bool {
                    let v = match d.field(field) {
                        Ok(v) => v.clone(),
                        Err(_) => return false,
                    };
                    let inner = match v.as_option() {
                        Ok(Some(x)) => x.clone(),
                        _ => v,
                    };
                    match inner.unref() {
                        Val::Path(p) if p.len() == 1 => matches!(env.get(&p[0]), Some(Val::Call { path, .. }) if path.last().map(|s| s == creator).unwrap_or(false) && path.first().map(|s| s == "super").unwrap_or(false)),
                        _ => false,
                    }
                };
                if !uses("module", "create_shader_module") {
                    out.push(format!("{fname} does not use the module's own shader"));
                }
                if !uses("layout", "create_pipeline_layout") {
                    out.push(format!("{fname} does not use the module's own pipeline layout"));
                }
                // workgroup size
                let want = C_SIZES[c.size].1;
                let wc: Vec<_> = ci.workgroup_consts.iter().filter(|k| k.name == format!("{}_WORKGROUP_SIZE", c.name.to_uppercase())).collect();
                if wc.len() != 1 {
                    out.push(format!("no workgroup size constant for `{}`", c.name));
                    continue;
                }
                let got: Vec<u64> = wc[0].val.as_array().map(|a| a.iter().filter_map(|x| x.as_u64().ok()).collect()).unwrap_or_default();
                if got != want.iter().map(|x| *x as u64).collect::<Vec<_>>() || wc[0].ty != "[u32;3]" {
                    out.push(format!("workgroup size of `{}` exported as {got:?} ({}), @workgroup_size gives {want:?}", c.name, wc[0].ty));
                }
            }
        }
    }
    out
}

pub fn probe_code(p: &Prog) -> String {
    let mut s = String::from("    use generated::*;\n    let module = create_shader_module(device);\n");
    if p.overrides {
        s.push_str("    let ov = OverrideConstants { ov_scale: Some(2.5), ov_flag: true, ov_count: None, ov_bias: -3 };\n");
    }
    let ov = if p.overrides { ", &ov" } else { "" };
    let ov_only = if p.overrides { "&ov" } else { "" };
    for v in &p.vs {
        let n = v.params.iter().flatten().count();
        let modes: Vec<&str> = (0..n).map(|i| if i % 2 == 0 { "wgpu::VertexStepMode::Instance" } else { "wgpu::VertexStepMode::Vertex" }).collect();
        let args = if n == 0 { ov_only.to_string() } else { format!("{}{ov}", modes.join(", ")) };
        s.push_str(&format!(
            "    {{\n        let e = {}_entry({args});\n        let st = vertex_state(&module, &e);\n        let mut consts: Vec<String> = st.compilation_options.constants.iter().map(|(k, v)| format!(\"{{k}}={{v:?}}\")).collect();\n        consts.sort();\n        out.push(format!(\"{{{{\\\"op\\\":\\\"vertex\\\",\\\"fn\\\":{{}},\\\"entry_point\\\":{{}},\\\"state_entry\\\":{{}},\\\"buffers\\\":{{}},\\\"state_buffers\\\":{{}},\\\"module\\\":{{}},\\\"constants\\\":{{}}}}}}\", jstr(\"{}\"), jstr(e.entry_point), jstr(st.entry_point.unwrap_or(\"<none>\")), jstr(&format!(\"{{:?}}\", e.buffers)), jstr(&format!(\"{{:?}}\", st.buffers)), std::ptr::eq(st.module, &module), jstr(&consts.join(\",\"))));\n    }}\n",
            v.name, v.name
        ));
    }
    for f in &p.fs {
        let n = F_SHAPES[f.shape].1;
        s.push_str(&format!(
            "    {{\n        let e = {}_entry(std::array::from_fn::<Option<wgpu::ColorTargetState>, {n}, _>(|_| None){ov});\n        let st = fragment_state(&module, &e);\n        let mut consts: Vec<String> = st.compilation_options.constants.iter().map(|(k, v)| format!(\"{{k}}={{v:?}}\")).collect();\n        consts.sort();\n        out.push(format!(\"{{{{\\\"op\\\":\\\"fragment\\\",\\\"fn\\\":{{}},\\\"entry_point\\\":{{}},\\\"state_entry\\\":{{}},\\\"targets\\\":{{}},\\\"module\\\":{{}},\\\"constants\\\":{{}}}}}}\", jstr(\"{}\"), jstr(e.entry_point), jstr(st.entry_point.unwrap_or(\"<none>\")), st.targets.len(), std::ptr::eq(st.module, &module), jstr(&consts.join(\",\"))));\n    }}\n",
            f.name, f.name
        ));
    }
    for c in &p.cs {
        s.push_str(&format!(
            "    {{\n        out.push(format!(\"{{{{\\\"op\\\":\\\"workgroup\\\",\\\"fn\\\":{{}},\\\"size\\\":{{:?}}}}}}\", jstr(\"{}\"), compute::{}_WORKGROUP_SIZE));\n        out.push(format!(\"{{{{\\\"op\\\":\\\"marker\\\",\\\"fn\\\":{{}}}}}}\", jstr(\"{}\")));\n        let _p = compute::create_{}_pipeline(device);\n    }}\n",
            c.name,
            c.name.to_uppercase(),
            c.name,
            c.name
        ));
    }
    s
}

pub fn check_exec(p: &Prog, records: &[serde_json::Value]) -> Vec<String> {
    let mut out = vec![];
    let consts_want = if p.overrides { "2=-3.0,9=1.0,ov_scale=2.5" } else { "" };
    for v in &p.vs {
        match records.iter().find(|r| r["op"] == "vertex" && r["fn"] == v.name.as_str()) {
            None => out.push(format!("no record for vertex entry {}", v.name)),
            Some(r) => {
                if r["entry_point"] != v.name.as_str() || r["state_entry"] != v.name.as_str() {
                    out.push(format!("vertex entry `{}` is described with entry point {} / {}", v.name, r["entry_point"], r["state_entry"]));
                }
                if r["buffers"] != r["state_buffers"] {
                    out.push(format!("vertex_state changes the buffers of `{}`", v.name));
                }
                let n = v.params.iter().flatten().count();
                let b = r["buffers"].as_str().unwrap();
                if b.matches("array_stride").count() != n {
                    out.push(format!("`{}` yields {} buffer layouts for {n} struct parameters", v.name, b.matches("array_stride").count()));
                }
                // (the order of the layouts and of the step modes is C07's statement)
                if r["module"] != true {
                    out.push("vertex_state does not forward the module".into());
                }
                if r["constants"] != consts_want {
                    out.push(format!("`{}` constants {} expected {consts_want}", v.name, r["constants"]));
                }
            }
        }
    }
    for f in &p.fs {
        match records.iter().find(|r| r["op"] == "fragment" && r["fn"] == f.name.as_str()) {
            None => out.push(format!("no record for fragment entry {}", f.name)),
            Some(r) => {
                if r["entry_point"] != f.name.as_str() || r["state_entry"] != f.name.as_str() {
                    out.push(format!("fragment entry `{}` is described with entry point {} / {}", f.name, r["entry_point"], r["state_entry"]));
                }
                if r["targets"].as_u64().unwrap() as usize != F_SHAPES[f.shape].1 {
                    out.push(format!("fragment_state of `{}` has {} targets", f.name, r["targets"]));
                }
                if r["constants"] != consts_want {
                    out.push(format!("`{}` constants {} expected {consts_want}", f.name, r["constants"]));
                }
            }
        }
    }
    for c in &p.cs {
        let want = C_SIZES[c.size].1;
        match records.iter().find(|r| r["op"] == "workgroup" && r["fn"] == c.name.as_str()) {
            Some(r) if r["size"] == json!(want) => {}
            other => out.push(format!("workgroup size constant of `{}`: {:?} expected {want:?}", c.name, other.map(|r| r["size"].clone()))),
        }
    }
    // device records arrive in call order: the k-th compute pipeline belongs to the k-th compute entry,
    // and the shader module / pipeline layout it must use are the ones created since the previous pipeline
    let dev: Vec<&serde_json::Value> = records.iter().filter(|r| matches!(r["op"].as_str(), Some("create_shader_module") | Some("create_pipeline_layout") | Some("create_compute_pipeline"))).collect();
    let mut start = 0;
    // skip the module created at the top of the probe
    if let Some(first) = dev.iter().position(|r| r["op"] == "create_shader_module") {
        start = first + 1;
    }
    let mut k = 0;
    let mut i = start;
    while i < dev.len() {
        if dev[i]["op"] == "create_compute_pipeline" {
            let cp = dev[i];
            match p.cs.get(k) {
                None => out.push("more compute pipelines created than compute entries".into()),
                Some(c) => {
                    let own_module = dev[start..i].iter().rev().find(|r| r["op"] == "create_shader_module").map(|r| r["id"].clone());
                    let own_layout = dev[start..i].iter().rev().find(|r| r["op"] == "create_pipeline_layout").map(|r| r["id"].clone());
                    if cp["entry_point"] != c.name.as_str() {
                        out.push(format!("create_{}_pipeline targets entry point {}", c.name, cp["entry_point"]));
                    }
                    if own_module.is_none() || Some(cp["module"].clone()) != own_module {
                        out.push(format!("create_{}_pipeline does not use the module's own shader", c.name));
                    }
                    if own_layout.is_none() || Some(cp["layout"].clone()) != own_layout {
                        out.push(format!("create_{}_pipeline does not use the module's own pipeline layout", c.name));
                    }
                }
            }
            k += 1;
            start = i + 1;
        }
        i += 1;
    }
    if k != p.cs.len() {
        out.push(format!("{k} compute pipelines created for {} compute entries", p.cs.len()));
    }
    out
}

pub fn run(tier: &str) -> i32 {
    let mut rep = Report::new("C14", tier);
    let thorough = rep.thorough();
    let mut progs = space(thorough);
    // entry names that differ only in case (WGSL is case sensitive; the upper-cased constant names collide, which is
    // C01's listed finding - judged at model level only): every entry still needs a constant holding its exact name
    for (ki, (a, b)) in [("shade", "Shade"), ("main", "MAIN"), ("vsMain", "vsmain"), ("x", "X")].into_iter().enumerate() {
        for overrides in [false, true] {
            let v = |n: &str, k: usize| VEntry { name: n.to_string(), params: V_PARAMS[k].to_vec() };
            let f = |n: &str, shape: usize| FEntry { name: n.to_string(), shape };
            let c = |n: &str, size: usize| CEntry { name: n.to_string(), size };
            let o = overrides as u8;
            progs.push(build(vec![], vec![f(a, 1), f(b, 4)], vec![], overrides, format!("case-collide|{ki}|ff|ov={o}")));
            progs.push(build(vec![v(a, 1), v(b, 0)], vec![], vec![], overrides, format!("case-collide|{ki}|vv|ov={o}")));
            progs.push(build(vec![v(a, 2)], vec![f(b, 2)], vec![], overrides, format!("case-collide|{ki}|vf|ov={o}")));
            progs.push(build(vec![v(b, 0)], vec![f(a, 0)], vec![c("other", 1)], overrides, format!("case-collide|{ki}|fv+c|ov={o}")));
            progs.push(build(vec![], vec![f(a, 1)], vec![c(b, 2)], overrides, format!("case-collide|{ki}|fc|ov={o}")));
        }
    }
    // module-scope declaration order is not significant: reversed / functions-first variants (every 4th in quick)
    let n0 = progs.len();
    for i in 0..n0 {
        if thorough || hash64(&progs[i].key) % 4 == 1 || progs[i].key.starts_with("multi|") || progs[i].key.starts_with("pair|") && i % 5 == 0 {
            for how in ["reverse", "rotate", "interleave"] {
                if let Some(src) = reorder_decls(&progs[i].src, how) {
                    let mut q = progs[i].clone();
                    q.key = format!("{}|decl-order={how}", q.key);
                    q.src = src;
                    progs.push(q);
                }
            }
        }
    }
    let cfg = Config::default();
    let res = par_map(&progs, |p| {
        if let Err(e) = naga_check(&p.src) {
            machinery(&format!("C14 program {} invalid: {e}\n{}", p.key, p.src));
        }
        match generate(&p.src, &cfg) {
            Outcome::Ok(t) => {
                let v = check_model(p, &t);
                (Some(t), v)
            }
            other => (None, vec![other.class()]),
        }
    });
    for (p, (t, v)) in progs.iter().zip(res.iter()) {
        rep.states += 1;
        rep.transitions += (p.vs.len() + p.fs.len() + p.cs.len()) as u64;
        rep.evaluations += 1;
        if t.is_none() {
            rep.generation_failed(p.key.clone(), &v[0], &p.src, &cfg);
            continue;
        }
        rep.nontrivial.insert(hash64(&p.src));
        if thorough || hash64(&p.key) % 3 == 0 {
            option_leg(&mut rep, &p.key, &p.src, &cfg, t.as_ref().unwrap(), "entry constants / helpers / pipeline constructors", &|kind, name| (kind == "const" && (name.starts_with("ENTRY_") || name.ends_with("_WORKGROUP_SIZE"))) || (kind == "fn" && (name.ends_with("_entry") || name == "vertex_state" || name == "fragment_state")) || (kind == "mod" && name == "compute") || ((kind == "struct" || kind == "impl") && (name.starts_with("VertexEntry") || name.starts_with("FragmentEntry"))));
        }
        for x in v {
            rep.violation(p.key.clone(), format!("model: {x}"), json!({"wgsl": p.src, "config": cfg.key(), "observed": x}));
        }
    }
    // executed subset
    let stride = if thorough { 2 } else { (progs.len() / 36).max(1) };
    let mut cases = vec![];
    let mut index: BTreeMap<String, usize> = BTreeMap::new();
    for (i, (p, (t, _))) in progs.iter().zip(res.iter()).enumerate() {
        if let Some(t) = t {
            // (a struct that is a vertex parameter and a fragment result at once is not emitted while its attribute table
            // is - C01's listed finding; such modules are judged at model level only)
            let both_roles = p.vs.iter().any(|v| v.params.iter().flatten().any(|s| p.fs.iter().any(|f| F_SHAPES[f.shape].0.trim_start_matches(" -> ") == *s)));
            if both_roles || p.key.starts_with("case-collide|") {
                continue;
            }
            if i % stride == 0 || p.key.starts_with("multi") || p.key.contains("|f=3|") || p.key.contains("|f=6|") || p.key.contains("|f=8|") || p.key.contains("|f=9|") || p.key.contains("|f=10|") {
                let name = format!("c_{i:05}");
                index.insert(name.clone(), i);
                cases.push(ProbeCase { name, generated: t.clone(), probe_body: probe_code(p), probe_items: String::new(), files: vec![] });
            }
        }
    }
    let results = probe::run_batch("C14", &cases, true);
    for cr in &results {
        let p = &progs[index[&cr.name]];
        let detail = |obs: String| json!({"wgsl": p.src, "config": cfg.key(), "observed": obs, "probe": probe_code(p)});
        match &cr.check {
            Verdict::Accepted => {}
            Verdict::Rejected(e) => {
                // entry constants, helpers and pipeline constructors are all these modules contain
                rep.violation(p.key.clone(), format!("exec: entry constants / helpers / pipeline constructors do not compile: {} {}", e[0].0, e[0].1.chars().take(90).collect::<String>()), json!({"wgsl": p.src, "config": cfg.key(), "observed": format!("{e:?}")}));
                continue;
            }
            Verdict::ProbeMismatch(e) => {
                rep.violation(p.key.clone(), format!("exec: the entry helpers cannot be called as the shader's entry points require: {} {}", e[0].0, e[0].1.chars().take(90).collect::<String>()), detail(format!("{e:?}")));
                continue;
            }
        }
        if let Some(pm) = &cr.panic {
            rep.violation(p.key.clone(), format!("exec: panic {pm}"), detail(pm.clone()));
            continue;
        }
        rep.traces_validated += 1;
        for v in check_exec(p, &cr.records) {
            rep.violation(p.key.clone(), format!("exec: {v}"), detail(v.clone()));
        }
        rep.outcomes.insert(format!("{:x}", hash64(&format!("{:?}", cr.records))));
    }
    rep.set("compiled_modules", json!(cases.len()));
    rep.sample(json!({"key": progs[10].key, "wgsl": progs[10].src}));
    rep.sample(json!({"key": progs[progs.len() - 1].key, "wgsl": progs[progs.len() - 1].src}));
    rep.rule = "full product of {no vertex entry, 9 parameter shapes (none, 1 struct, 2 structs, struct+builtin, builtin+2 structs, builtin-only struct, struct + builtin-only struct, 2 x a struct that a fragment entry also returns + another)} x {no fragment entry, 11 result shapes (none, @location(0), @location(2), @location(1) f32, builtin only, struct{loc0,builtin,loc1}, struct{loc1,loc3}, struct{builtins}, struct{loc2,builtin,loc0}, struct{loc1,loc0}, struct{builtin,loc5})} x {no compute entry, 5 workgroup sizes incl. constants} x overrides present/absent, names rotating over ascii / mixed case / single letter / non-ASCII / upper case; plus every ordered pair of fragment shapes / vertex parameter shapes / workgroup sizes as two entries of one stage, and programs with 2..3 entries per stage. omodel on every state; a spread subset compiled against real wgpu and executed on the stand-in (every helper and pipeline constructor called, descriptors recorded). Colour-target count expected = highest written @location + 1.".into();
    rep.finish()
}
