//! C13 — push constant range covers the variable, from offset 0, once.
use crate::common::*;
use crate::progs::*;
use serde_json::json;
use wgpu_types::ShaderStages;
use wgslgen::{Member, Scalar, StructDef, Ty, TypeEnv};

pub struct Prog {
    pub key: String,
    pub src: String,
    /// None = no push constant declared
    pub expect: Option<(u32, ShaderStages)>,
    pub groups: u32,
}

fn pc_types() -> (TypeEnv, Vec<Ty>) {
    let mut env = TypeEnv::default();
    let f = Scalar::F32;
    env.add(StructDef { name: "PadInner".into(), members: vec![Member::plain("a", Ty::Vec(3, f)), Member::plain("b", Ty::Scalar(f)), Member::plain("c", Ty::Vec(2, f))] });
    env.add(StructDef { name: "TailPad".into(), members: vec![Member::plain("m", Ty::Vec(4, f)), Member::plain("x", Ty::Scalar(Scalar::U32))] });
    env.add(StructDef { name: "Inner3".into(), members: vec![Member::plain("v", Ty::Vec(3, f))] });
    env.add(StructDef { name: "Nested".into(), members: vec![Member::plain("k", Ty::Scalar(Scalar::I32)), Member::plain("inner", Ty::Struct("Inner3".into())), Member::plain("t", Ty::Scalar(f))] });
    env.add(StructDef { name: "WithMat".into(), members: vec![Member::plain("s", Ty::Scalar(f)), Member::plain("m", Ty::Mat(3, 3, f)), Member::plain("q", Ty::Vec(2, Scalar::U32))] });
    env.add(StructDef { name: "WithArr".into(), members: vec![Member::plain("arr", Ty::Array(Box::new(Ty::Vec(3, f)), 3)), Member::plain("n", Ty::Scalar(Scalar::U32))] });
    let mut tys = vec![Ty::Scalar(f), Ty::Scalar(Scalar::I32), Ty::Scalar(Scalar::U32)];
    for n in 2..=4 {
        tys.push(Ty::Vec(n, f));
    }
    tys.push(Ty::Vec(3, Scalar::U32));
    tys.push(Ty::Vec(2, Scalar::I32));
    for c in 2..=4 {
        for r in 2..=4 {
            tys.push(Ty::Mat(c, r, f));
        }
    }
    tys.push(Ty::Array(Box::new(Ty::Vec(3, f)), 2));
    tys.push(Ty::Array(Box::new(Ty::Vec(4, f)), 5));
    tys.push(Ty::Array(Box::new(Ty::Scalar(f)), 5));
    tys.push(Ty::Array(Box::new(Ty::Struct("Inner3".into())), 2));
    // sizes around and beyond common device limits (128 B, 256 B, 4 KiB): the range is the size of the type, whatever it is
    tys.push(Ty::Array(Box::new(Ty::Vec(4, f)), 8));
    tys.push(Ty::Array(Box::new(Ty::Vec(4, f)), 9));
    tys.push(Ty::Array(Box::new(Ty::Mat(4, 4, f)), 3));
    tys.push(Ty::Array(Box::new(Ty::Mat(4, 4, f)), 4));
    tys.push(Ty::Array(Box::new(Ty::Scalar(Scalar::U32)), 65));
    tys.push(Ty::Array(Box::new(Ty::Vec(4, f)), 300));
    env.add(StructDef { name: "TwoMats".into(), members: vec![Member::plain("a", Ty::Mat(4, 4, f)), Member::plain("b", Ty::Mat(4, 4, f)), Member::plain("c", Ty::Vec(4, f))] });
    for s in ["PadInner", "TailPad", "Nested", "WithMat", "WithArr", "TwoMats"] {
        tys.push(Ty::Struct(s.into()));
    }
    (env, tys)
}

fn entry_name(s: Stage) -> &'static str {
    match s {
        Stage::V => "vs_main",
        Stage::F => "fs_main",
        Stage::C => "cs_main",
    }
}

pub fn build(env: &TypeEnv, ty: Option<&Ty>, entries: &[Stage], users: &[Stage], via_helper: bool, groups: u32, key: String) -> Prog {
    let mut src = String::new();
    let mut expect = None;
    if let Some(t) = ty {
        let mut refs = vec![];
        t.struct_refs(env, &mut refs);
        for r in refs.iter().rev() {
            src.push_str(&env.get(r).wgsl(true));
        }
        src.push_str(&format!("var<push_constant> pc: {};\n", t.wgsl()));
        let mut st = ShaderStages::NONE;
        for u in users {
            st |= u.bit();
        }
        if users.is_empty() {
            for e in entries {
                st |= e.bit();
            }
        }
        expect = Some((wgslgen::size_of(t, env), st));
    }
    for g in 0..groups {
        src.push_str(&format!("@group({g}) @binding(0) var<uniform> ub{g}: vec4<f32>;\n"));
    }
    if via_helper && ty.is_some() {
        src.push_str("fn use_pc() {\n    let local_copy = pc;\n}\n");
    }
    let mut seen_stage: std::collections::BTreeMap<Stage, usize> = Default::default();
    for e in entries {
        let k = seen_stage.entry(*e).or_insert(0);
        *k += 1;
        let ename = if *k == 1 { entry_name(*e).to_string() } else { format!("{}_{}", entry_name(*e), *k) };
        let body = if ty.is_some() && users.contains(e) {
            if via_helper {
                "    if cnd { loop { use_pc(); break; } }\n".to_string()
            } else {
                "    switch sel { case 2 { let local_copy = pc; } default { } }\n".to_string()
            }
        } else {
            String::new()
        };
        src.push_str(&e.entry(&ename, &body));
    }
    Prog { key, src, expect, groups }
}

pub fn check(p: &Prog, rep: &mut Report) {
    rep.states += 1;
    rep.transitions += 1;
    let (module, _info) = match naga_check(&p.src) {
        Ok(x) => x,
        Err(e) => {
            rep.filtered(&format!("naga rejects: {}", e.chars().take(60).collect::<String>()));
            return;
        }
    };
    // three-way size rule: reference vs naga
    if let Some((size, _)) = p.expect {
        let (_, g) = module.global_variables.iter().find(|(_, g)| g.space == naga::AddressSpace::PushConstant).unwrap();
        let mut layouter = naga::proc::Layouter::default();
        layouter.update(module.to_ctx()).unwrap();
        let nsize = layouter[g.ty].size;
        if nsize != size {
            machinery(&format!("C13 oracle self-disagreement: reference size {size} vs naga Layouter {nsize} for {}", p.key));
        }
    }
    for repr in [Repr::Rust, Repr::Glam] {
        let cfg = Config { repr, ..Config::default() };
        rep.evaluations += 1;
        let text = match generate(&p.src, &cfg) {
            Outcome::Ok(t) => t,
            other => {
                rep.generation_failed(format!("{}|{}", p.key, cfg.key()), &other.class(), &p.src, &cfg);
                continue;
            }
        };
        let m = omodel::parse(&text).unwrap_or_else(|e| machinery(&format!("C13: {e}")));
        let pl = m.pipeline_layout().unwrap_or_else(|e| machinery(&format!("C13: {e}")));
        let konst = m.push_constant_stages().unwrap_or_else(|e| machinery(&format!("C13: {e}")));
        let case = format!("{}|{}", p.key, cfg.key());
        let detail = |obs: String| json!({"wgsl": p.src, "config": cfg.key(), "expected": format!("{:?}", p.expect.map(|(s, st)| (s, stages_str(st)))), "observed": obs});
        rep.nontrivial.insert(hash64(&p.src));
        if repr == Repr::Rust && (rep.thorough() || hash64(&p.key) % 3 == 0) {
            option_leg(rep, &p.key, &p.src, &cfg, &text, "pipeline layout / PUSH_CONSTANT_STAGES", &|kind, name| (kind == "fn" && name == "create_pipeline_layout") || (kind == "const" && name == "PUSH_CONSTANT_STAGES"));
        }
        let obs = format!("ranges={:?} const={:?}", pl.push_ranges.iter().map(|r| (stages_str(r.0), r.2, r.3)).collect::<Vec<_>>(), konst.map(stages_str));
        rep.outcomes.insert(obs.clone());
        match p.expect {
            None => {
                if !pl.push_ranges.is_empty() {
                    rep.violation(case.clone(), "push constant range without a push constant", detail(obs.clone()));
                }
                if konst.is_some() {
                    rep.violation(case, "PUSH_CONSTANT_STAGES without a push constant", detail(obs));
                }
            }
            Some((size, stages)) => {
                if pl.push_ranges.len() != 1 {
                    rep.violation(case, format!("{} push constant ranges", pl.push_ranges.len()), detail(obs));
                    continue;
                }
                let (rs, written, start, end) = &pl.push_ranges[0];
                if *start != 0 {
                    rep.violation(case.clone(), format!("range starts at {start}"), detail(obs.clone()));
                }
                if *end != size as u64 {
                    rep.violation(case.clone(), format!("range length {end}, WGSL size {size}"), detail(obs.clone()));
                }
                if end % 4 != 0 {
                    rep.violation(case.clone(), format!("range length {end} not a multiple of 4"), detail(obs.clone()));
                }
                match konst {
                    None => rep.violation(case.clone(), "no PUSH_CONSTANT_STAGES constant", detail(obs.clone())),
                    Some(k) => {
                        if k != *rs {
                            rep.violation(case.clone(), format!("range stages {} differ from the constant {}", stages_str(*rs), stages_str(k)), detail(obs.clone()));
                        }
                        if k != stages {
                            rep.violation(case.clone(), format!("stages {} expected {}", stages_str(k), stages_str(stages)), detail(obs.clone()));
                        }
                    }
                }
                let _ = written;
            }
        }
        // the pipeline layout must list the declared groups
        let want: Vec<u32> = (0..p.groups).collect();
        if pl.group_order != want {
            rep.violation(format!("{}|{}", p.key, cfg.key()), format!("pipeline layout groups {:?} expected {want:?}", pl.group_order), json!({"wgsl": p.src, "config": cfg.key()}));
        }
    }
}

pub fn space(thorough: bool) -> Vec<Prog> {
    let (env, tys) = pc_types();
    let mut out = vec![];
    let entry_sets: Vec<Vec<Stage>> = (0..8usize).map(|m| Stage::ALL.iter().copied().enumerate().filter(|(i, _)| m & (1 << i) != 0).map(|(_, s)| s).collect()).collect();
    let group_choices: &[u32] = if thorough { &[0, 1, 3] } else { &[0, 2] };
    for (ti, t) in tys.iter().enumerate() {
        for es in &entry_sets {
            for um in 0..(1usize << es.len()) {
                let users: Vec<Stage> = es.iter().copied().enumerate().filter(|(i, _)| um & (1 << i) != 0).map(|(_, s)| s).collect();
                for via in [false, true] {
                    if via && users.is_empty() {
                        continue;
                    }
                    for &g in group_choices {
                        if !thorough && g != 0 && ti % 3 != 0 {
                            continue;
                        }
                        let key = format!("ty={}|entries={es:?}|users={users:?}|helper={}|groups={g}", t.wgsl(), via as u8);
                        out.push(build(&env, Some(t), es, &users, via, g, key));
                    }
                }
            }
        }
    }
    for es in &entry_sets {
        for g in [0, 1, 2] {
            out.push(build(&env, None, es, &[], false, g, format!("none|entries={es:?}|groups={g}")));
        }
    }
    // one stage reaches the variable only through a helper called at each placement context in each call form
    // (void helpers included), while another stage uses it directly or nobody else does
    for hs in Stage::ALL {
        for direct in [None, Some(0usize), Some(1)] {
            for ctx in Ctx::ALL {
                for form in CallForm::ALL {
                    let others: Vec<Stage> = Stage::ALL.iter().copied().filter(|x| *x != hs).collect();
                    let direct_stage = direct.map(|d| others[d]);
                    let mut src = String::from("var<push_constant> pc_res: vec4<f32>;\n");
                    src.push_str(&helper("hh", form.is_value(), &indent("acc = pc_res.x;")));
                    let cs = match ctx.wrap(&form.stmt("hh", 1)) {
                        Some(c) => c,
                        None => continue,
                    };
                    let mut stages = hs.bit();
                    for st in Stage::ALL {
                        let body = if st == hs {
                            indent(&cs.full)
                        } else if Some(st) == direct_stage {
                            stages |= st.bit();
                            indent("acc = pc_res.y;")
                        } else {
                            String::new()
                        };
                        src.push_str(&st.entry(entry_name(st), &body));
                    }
                    out.push(Prog { key: format!("placed|helper-stage={hs:?}|direct={direct_stage:?}|ctx={ctx:?}|form={form:?}"), src, expect: Some((16, stages)), groups: 0 });
                }
            }
        }
    }
    // large modules: the using helper is the last of N functions the entry calls (visited-set representations that
    // depend on the number of functions: 63 / 64 / 65 / 128 / 256 / 300 helpers), called first or last
    for n in [8usize, 63, 64, 65, 127, 128, 129, 256, 300] {
        for reader_first in [false, true] {
            for direct in [None, Some(Stage::V)] {
                let mut src = String::from("var<push_constant> pc_wide: vec4<f32>;\n");
                if reader_first {
                    src.push_str("fn reader() -> f32 { return pc_wide.x; }\n");
                }
                for i in 0..n {
                    src.push_str(&format!("fn filler_{i}() -> f32 {{ return {i}.0; }}\n"));
                }
                if !reader_first {
                    src.push_str("fn reader() -> f32 { return pc_wide.x; }\n");
                }
                let calls: String = (0..n).map(|i| format!("    acc += filler_{i}();\n")).collect();
                let mut stages = Stage::F.bit();
                let vbody = match direct {
                    Some(_) => {
                        stages |= Stage::V.bit();
                        indent("acc = pc_wide.y;")
                    }
                    None => String::new(),
                };
                src.push_str(&Stage::V.entry("vs_main", &vbody));
                src.push_str(&Stage::F.entry("fs_main", &format!("{calls}    acc += reader();\n")));
                src.push_str(&Stage::C.entry("cs_main", ""));
                out.push(Prog { key: format!("wide|n={n}|reader-first={}|direct={direct:?}", reader_first as u8), src, expect: Some((16, stages)), groups: 0 });
            }
        }
    }
    // several entry points per stage (used by all entries of the using stages / by none)
    use Stage::*;
    for es in [vec![V, F, F], vec![C, C], vec![V, V, F, C], vec![F, F, F], vec![C, V, C, F, C], vec![V, V], vec![F, C, F, C]] {
        for (ti, t) in tys.iter().enumerate().step_by(5) {
            let mut distinct: Vec<Stage> = es.clone();
            distinct.sort();
            distinct.dedup();
            for um in 0..(1usize << distinct.len()) {
                let users: Vec<Stage> = distinct.iter().copied().enumerate().filter(|(i, _)| um & (1 << i) != 0).map(|(_, s)| s).collect();
                for via in [false, true] {
                    if via && users.is_empty() {
                        continue;
                    }
                    out.push(build(&env, Some(t), &es, &users, via, 0, format!("multi-entry|ty#{ti}|entries={es:?}|users={users:?}|helper={}", via as u8)));
                }
            }
        }
    }
    // declared, but only reachable from a helper nobody calls: unused -> all entry stages
    for es in &entry_sets {
        let mut p = build(&env, Some(&Ty::Vec(4, Scalar::F32)), es, &[], false, 0, format!("orphan-helper|entries={es:?}"));
        p.src.push_str("fn orphan() {\n    let x = pc;\n}\n");
        out.push(p);
    }
    out
}

/// Helpers layered over the one function that reads the variable, called by each entry point in every order.
pub fn layered_space(thorough: bool) -> Vec<Prog> {
    let mut out = vec![];
    // helpers layered over the one function that reads the variable, called by each entry point in every order:
    // C reads it, F calls C, G calls F; H reads nothing, W calls H. Per entry an ordered list of up to two of
    // {direct read, C, F, G, H, W}: a stage uses the variable iff its list has anything but H / W
    {
        // (P / Q: void helpers whose bodies are nothing but argument-less calls - P forwards to the void reader R,
        // Q forwards to P)
        let items = ["direct", "C", "F", "G", "P", "Q", "H", "W"];
        let mut lists: Vec<Vec<usize>> = vec![vec![]];
        for a in 0..items.len() {
            lists.push(vec![a]);
            for b in 0..items.len() {
                if a != b {
                    lists.push(vec![a, b]);
                }
            }
        }
        let helpers = "var<push_constant> pc: vec4<f32>;\nfn layer_c() -> f32 {\n    return pc.x;\n}\nfn layer_f() -> f32 {\n    return layer_c() + 1.0;\n}\nfn layer_g() -> f32 {\n    return layer_f() * 2.0;\n}\nfn other_h() -> f32 {\n    return 3.0;\n}\nfn other_w() -> f32 {\n    return other_h() + 1.0;\n}\nfn read_r() {\n    let t = pc.z;\n}\nfn fwd_p() {\n    read_r();\n}\nfn fwd_q() {\n    fwd_p();\n}\n";
        let call = |i: usize| match items[i] {
            "direct" => "acc += pc.y;",
            "C" => "acc += layer_c();",
            "F" => "acc += layer_f();",
            "G" => "acc += layer_g();",
            "P" => "fwd_p();",
            "Q" => "fwd_q();",
            "H" => "acc += other_h();",
            _ => "acc += other_w();",
        };
        let reaches = |l: &Vec<usize>| l.iter().any(|i| *i < 6);
        let body = |l: &Vec<usize>| l.iter().map(|i| format!("    {}\n", call(*i))).collect::<String>();
        let mut idx = 0usize;
        for (vi, lv) in lists.iter().enumerate() {
            for (fi, lf) in lists.iter().enumerate() {
                for (ci, lc) in lists.iter().enumerate() {
                    // quick: all (vertex, fragment) pairs with the compute entry absent, and an evenly spread 1/23 of the triples
                    let with_c = ci != 0;
                    idx += 1;
                    if with_c && !(thorough && idx % 5 == 0 || idx % 53 == 0) {
                        continue;
                    }
                    // quick: pairs in which one of the two lists has at most one call, and a seventh of the others
                    if !with_c && !thorough && lv.len() == 2 && lf.len() == 2 && idx % 7 != 0 {
                        continue;
                    }
                    let mut src = String::from(helpers);
                    src.push_str(&format!("@vertex fn vs_main() -> @builtin(position) vec4<f32> {{\n    var acc = 0.0;\n{}    return vec4<f32>(acc);\n}}\n", body(lv)));
                    src.push_str(&format!("@fragment fn fs_main() -> @location(0) vec4<f32> {{\n    var acc = 0.0;\n{}    return vec4<f32>(acc);\n}}\n", body(lf)));
                    let mut st = ShaderStages::NONE;
                    if reaches(lv) {
                        st |= ShaderStages::VERTEX;
                    }
                    if reaches(lf) {
                        st |= ShaderStages::FRAGMENT;
                    }
                    if with_c {
                        src.push_str(&format!("@compute @workgroup_size(1) fn cs_main() {{\n    var acc = 0.0;\n{}}}\n", body(lc)));
                        if reaches(lc) {
                            st |= ShaderStages::COMPUTE;
                        }
                    }
                    if st == ShaderStages::NONE {
                        st = ShaderStages::VERTEX | ShaderStages::FRAGMENT | if with_c { ShaderStages::COMPUTE } else { ShaderStages::NONE };
                    }
                    out.push(Prog { key: format!("layers|v={vi}|f={fi}|c={ci}"), src, expect: Some((16, st)), groups: 0 });
                }
            }
        }
    }
    out
}

pub fn run(tier: &str) -> i32 {
    let mut rep = Report::new("C13", tier);
    let mut progs = space(true);
    progs.extend(layered_space(tier == "thorough"));
    // module-scope variables of other address spaces (private, workgroup) declared before everything else: they are not
    // push constants, whatever their position (every 3rd program)
    {
        let n0 = progs.len();
        for i in 0..n0 {
            if tier == "thorough" || hash64(&progs[i].key) % 3 == 1 {
                let src = format!("var<private> unbound_private: array<vec4<f32>, 3>;\nvar<workgroup> unbound_wg: array<u32, 5>;\n{}", progs[i].src);
                if naga_check(&src).is_ok() {
                    progs.push(Prog { key: format!("{}|unbound-neighbours", progs[i].key), src, expect: progs[i].expect, groups: progs[i].groups });
                }
            }
        }
    }
    // the push constant's type (and every other built-in type after a `: `) written through an `alias`
    {
        let n0 = progs.len();
        for i in 0..n0 {
            let layers = progs[i].key.starts_with("layers|");
            if (tier == "thorough" && (!layers || hash64(&progs[i].key) % 8 == 2)) || (tier != "thorough" && hash64(&progs[i].key) % if layers { 32 } else { 4 } == 2) {
                if let Some(src) = alias_types(&progs[i].src) {
                    if naga_check(&src).is_ok() {
                        progs.push(Prog { key: format!("{}|aliased-types", progs[i].key), src, expect: progs[i].expect, groups: progs[i].groups });
                    }
                }
            }
        }
    }
    // module-scope declaration order is not significant: reversed / functions-first variants (every 4th in quick)
    let n0 = progs.len();
    for i in 0..n0 {
        let layers = progs[i].key.starts_with("layers|");
        if (tier == "thorough" && (!layers || hash64(&progs[i].key) % 8 == 1)) || (tier != "thorough" && hash64(&progs[i].key) % if layers { 32 } else { 4 } == 1) {
            for how in ["reverse", "entries-first", "interleave"] {
                if let Some(src) = reorder_decls(&progs[i].src, how) {
                    progs.push(Prog { key: format!("{}|decl-order={how}", progs[i].key), src, expect: progs[i].expect, groups: progs[i].groups });
                }
            }
        }
    }
    let results = par_map(&progs, |p| {
        let mut r = Report::new("C13", tier);
        check(p, &mut r);
        r
    });
    for (i, p) in progs.iter().enumerate() {
        if i % (progs.len() / 5 + 1) == 11 {
            rep.sample(json!({"key": p.key, "wgsl": p.src, "expected": format!("{:?}", p.expect.map(|(s, st)| (s, stages_str(st))))}));
        }
    }
    for r in results {
        rep.merge(r);
    }
    rep.traces_validated = rep.evaluations;
    rep.rule = "36 push-constant types (scalars, vectors, all 9 f32 matrices, arrays of vec3/vec4/scalar/struct, structs with internal and tail padding, nested, with mat3x3, with array; sizes 128/144/192/256/260/4800 bytes) x every non-empty entry set over {V,F,C} x every subset of entries using the variable x direct use (inside switch) / use through a helper (inside if+loop) x number of bind groups; plus shaders without push constant and with a push constant reachable only from an uncalled helper; x Rust/Glam representation. Oracle: WGSL size reference (cross-checked against naga Layouter per state), stages by construction. A stage reaching the variable only through a helper: the call at each of the 13 placement contexts in each of the 9 call forms, with another stage using it directly or not.".into();
    if rep.outcomes.len() < 10 {
        machinery("C13: too few distinct outcomes");
    }
    rep.finish()
}
