//! C12 — override constants reach the pipeline under the right key and value.
use crate::common::*;
use crate::probe::{self, ProbeCase, Verdict};
use serde_json::json;
use std::collections::BTreeMap;

#[derive(Clone, Copy, Debug, PartialEq, Eq)]
pub enum OTy {
    Bool,
    I32,
    U32,
    F32,
}
#[derive(Clone, Copy, Debug, PartialEq, Eq)]
pub enum ODefault {
    None,
    Literal,
    Dependent,
}
#[derive(Clone, Debug)]
pub struct OSpec {
    pub name: String,
    pub ty: OTy,
    pub default: ODefault,
    pub id: Option<u32>,
}

impl OTy {
    fn wgsl(self) -> &'static str {
        match self {
            OTy::Bool => "bool",
            OTy::I32 => "i32",
            OTy::U32 => "u32",
            OTy::F32 => "f32",
        }
    }
    fn literal(self) -> &'static str {
        match self {
            OTy::Bool => "true",
            OTy::I32 => "-3",
            OTy::U32 => "5u",
            OTy::F32 => "1.5",
        }
    }
    /// (Rust literal, value as the f64 the map must carry)
    pub fn values(self) -> Vec<(String, f64)> {
        match self {
            OTy::Bool => vec![("false".into(), 0.0), ("true".into(), 1.0)],
            OTy::I32 => vec![("i32::MIN".into(), i32::MIN as f64), ("i32::MAX".into(), i32::MAX as f64), ("0i32".into(), 0.0), ("1i32".into(), 1.0), ("-7i32".into(), -7.0)],
            OTy::U32 => vec![("0u32".into(), 0.0), ("u32::MAX".into(), u32::MAX as f64), ("1u32".into(), 1.0), ("16777217u32".into(), 16777217.0)],
            OTy::F32 => vec![("f32::MIN".into(), f32::MIN as f64), ("f32::MAX".into(), f32::MAX as f64), ("0.0f32".into(), 0.0), ("1.0f32".into(), 1.0), ("0.1f32".into(), 0.1f32 as f64), ("-0.0f32".into(), -0.0)],
        }
    }
}

impl OSpec {
    pub fn key(&self) -> String {
        match self.id {
            Some(i) => i.to_string(),
            None => self.name.clone(),
        }
    }
    pub fn decl(&self, base: &str) -> String {
        let id = self.id.map(|i| format!("@id({i}) ")).unwrap_or_default();
        let init = match self.default {
            ODefault::None => String::new(),
            ODefault::Literal => format!(" = {}", self.ty.literal()),
            ODefault::Dependent => match self.ty {
                OTy::Bool => format!(" = {base} > 1.0"),
                OTy::I32 => format!(" = i32({base}) + 1"),
                OTy::U32 => format!(" = u32({base}) * 2u"),
                OTy::F32 => format!(" = {base} * 2.0"),
            },
        };
        format!("{id}override {}: {}{init};\n", self.name, self.ty.wgsl())
    }
    fn use_expr(&self) -> String {
        match self.ty {
            OTy::Bool => format!("select(0.0, 1.0, {})", self.name),
            _ => format!("f32({})", self.name),
        }
    }
    pub fn optional(&self) -> bool {
        self.default != ODefault::None
    }
}

pub struct Prog {
    pub key: String,
    pub src: String,
    pub specs: Vec<OSpec>,
    /// which entry points the module has: any of V, F, C (empty = none at all)
    pub mix: &'static str,
}

pub fn build(specs: Vec<OSpec>, key: String) -> Prog {
    build_mix(specs, key, "VF")
}

/// Render-stage entry shapes by mix letter: (letter, WGSL, helper call, state builder, record name). The helper of every
/// vertex / fragment entry takes the override constants, whatever the entry takes or returns.
pub const ENTRY_SHAPES: [(char, &str, &str, &str, &str); 7] = [
    ('V', "@vertex fn vs_main() -> @builtin(position) vec4<f32> {\n    return vec4<f32>({chain});\n}\n", "vs_main_entry(&ov)", "vertex_state", "vertex_entry"),
    ('F', "@fragment fn fs_main() -> @location(0) vec4<f32> {\n    return vec4<f32>({chain});\n}\n", "fs_main_entry([None], &ov)", "fragment_state", "fragment_entry"),
    ('N', "@fragment fn fs_none() {\n    if {chain} < -1.0e30 {\n        discard;\n    }\n}\n", "fs_none_entry([], &ov)", "fragment_state", "fragment_entry_no_result"),
    ('D', "@fragment fn fs_depth() -> @builtin(frag_depth) f32 {\n    return {chain};\n}\n", "fs_depth_entry([], &ov)", "fragment_state", "fragment_entry_depth_only"),
    ('S', "struct FsOut { @location(0) a: vec4<f32>, @builtin(frag_depth) d: f32, @location(1) b: vec4<f32> };\n@fragment fn fs_struct() -> FsOut {\n    var o: FsOut;\n    o.d = {chain};\n    return o;\n}\n", "fs_struct_entry([None, None], &ov)", "fragment_state", "fragment_entry_struct_result"),
    ('I', "struct VsIn { @location(0) p: vec4<f32>, @location(1) q: vec2<f32> };\n@vertex fn vs_in(v: VsIn) -> @builtin(position) vec4<f32> {\n    return v.p * {chain};\n}\n", "vs_in_entry(wgpu::VertexStepMode::Instance, &ov)", "vertex_state", "vertex_entry_with_input"),
    ('B', "@vertex fn vs_builtin(@builtin(vertex_index) vi: u32, @builtin(instance_index) ii: u32) -> @builtin(position) vec4<f32> {\n    return vec4<f32>(f32(vi + ii) * {chain});\n}\n", "vs_builtin_entry(&ov)", "vertex_state", "vertex_entry_builtin_params"),
];

/// The constants struct is owed whenever the shader declares overrides, whatever stages its entry points belong to.
pub fn build_mix(specs: Vec<OSpec>, key: String, mix: &'static str) -> Prog {
    let mut src = String::from("override base_ov: f32 = 2.0;\n");
    for s in &specs {
        src.push_str(&s.decl("base_ov"));
    }
    let uses: Vec<String> = specs.iter().map(|s| s.use_expr()).collect();
    // no arithmetic between the values: naga folds constant expressions after override resolution and
    // rejects overflowing ones, which would be the test shader's fault
    let chain = uses.iter().fold("base_ov".to_string(), |acc, u| format!("max({acc}, {u})"));
    for (letter, wgsl, _, _, _) in ENTRY_SHAPES {
        if mix.contains(letter) {
            src.push_str(&wgsl.replace("{chain}", &chain));
        }
    }
    if mix.contains('C') {
        src.push_str(&format!("var<workgroup> sink: f32;\n@compute @workgroup_size(1) fn cs_main() {{\n    sink = {chain};\n}}\n"));
    }
    if mix.is_empty() {
        src.push_str(&format!("fn helper_only() -> f32 {{\n    return {chain};\n}}\n"));
    }
    Prog { key, src, specs, mix }
}

pub fn singles() -> Vec<OSpec> {
    let mut v = vec![];
    for ty in [OTy::Bool, OTy::I32, OTy::U32, OTy::F32] {
        for d in [ODefault::None, ODefault::Literal, ODefault::Dependent] {
            for id in [None, Some(0u32), Some(7), Some(65535)] {
                v.push(OSpec { name: String::new(), ty, default: d, id });
            }
        }
    }
    v
}

pub fn space(thorough: bool) -> Vec<Prog> {
    let mut out = vec![];
    let s = singles();
    // WGSL names in several styles: the map key must be the WGSL identifier itself
    let names = ["ov_a", "maxLights", "GAIN", "useFog2", "\u{c9}tendue", "x"];
    for (i, a) in s.iter().enumerate() {
        let mut a = a.clone();
        a.name = names[i % names.len()].into();
        out.push(build(vec![a], format!("single|{i}")));
    }
    // the stage mix of the module's entry points: compute only, none at all, one render stage, compute + fragment
    for (i, a) in s.iter().enumerate() {
        for (mi, mix) in ["C", "", "V", "F", "CF", "VFC", "N", "D", "S", "I", "B", "VN", "IFN", "BDC", "ISND"].into_iter().enumerate() {
            if !thorough && (i + mi) % 3 != 0 {
                continue;
            }
            let mut a = a.clone();
            a.name = names[(i + mi) % names.len()].into();
            let mut b = s[(i * 5 + 7) % s.len()].clone();
            b.name = "second_ov".into();
            if b.id.is_some() && b.id == a.id {
                b.id = None;
            }
            out.push(build_mix(vec![a, b], format!("mix={mix}|{i}"), mix));
        }
    }
    // an override that also sizes a compute entry's workgroup directly (`@workgroup_size(name)`), in modules that have
    // render entries too: it is an override like any other (field, key, map entry); the resolution leg is skipped
    // for these (a workgroup size of 0 or u32::MAX is rejected by naga for reasons of its own)
    {
        let n0 = out.len();
        for i in 0..n0 {
            let p = &out[i];
            if !p.mix.contains('C') {
                continue;
            }
            let names: Vec<String> = p.specs.iter().filter(|s| matches!(s.ty, OTy::U32 | OTy::I32) && s.default != ODefault::Dependent).map(|s| s.name.clone()).take(3).collect();
            if names.is_empty() || !p.src.contains("@workgroup_size(1)") {
                continue;
            }
            let src = p.src.replace("@workgroup_size(1)", &format!("@workgroup_size({})", names.join(", ")));
            out.push(Prog { key: format!("wgsize|{}", p.key), src, specs: p.specs.clone(), mix: p.mix });
        }
    }
    // the same declarations with their types written through `alias`es, and with the type left to inference from a
    // literal initialiser
    {
        let n0 = out.len();
        for i in 0..n0 {
            let p = &out[i];
            let cut = p.src.find("@vertex").or_else(|| p.src.find("@fragment")).or_else(|| p.src.find("var<workgroup>")).or_else(|| p.src.find("fn ")).unwrap_or(p.src.len());
            let (decls, rest) = p.src.split_at(cut);
            let aliased = decls.replace(": bool", ": AlBool").replace(": i32", ": AlI32").replace(": u32", ": AlU32").replace(": f32", ": AlF32");
            let src = format!("alias AlBool = bool;\nalias AlI32 = i32;\nalias AlU32 = u32;\nalias AlF32 = f32;\n{aliased}{rest}");
            let q = Prog { key: format!("alias|{}", p.key), src, specs: p.specs.clone(), mix: p.mix };
            let mut inferred = decls.to_string();
            let mut changed = false;
            for sp in &p.specs {
                if sp.default == ODefault::Literal {
                    let from = format!("{}: {} = {}", sp.name, sp.ty.wgsl(), sp.ty.literal());
                    let to = format!("{} = {}", sp.name, sp.ty.literal());
                    if inferred.contains(&from) {
                        inferred = inferred.replace(&from, &to);
                        changed = true;
                    }
                }
            }
            let r = Prog { key: format!("inferred|{}", p.key), src: format!("{inferred}{rest}"), specs: p.specs.clone(), mix: p.mix };
            out.push(q);
            if changed {
                out.push(r);
            }
        }
    }
    // wide: 70 overrides of rotating type / default / id
    {
        let mut specs = vec![];
        for i in 0..70usize {
            let mut sp = s[(i * 7) % s.len()].clone();
            sp.name = format!("wide_ov_{i}");
            sp.id = if i % 3 == 0 { Some(1000 + i as u32) } else { None };
            if sp.default == ODefault::Dependent {
                sp.default = ODefault::Literal;
            }
            specs.push(sp);
        }
        out.push(build(specs, "wide|70".to_string()));
    }
    // counts: N overrides without a default (plus one with), around the powers of two and between them
    for n in [7usize, 8, 9, 15, 16, 17, 31, 32, 33, 40, 63, 64, 65, 100, 129] {
        let mut specs = vec![];
        for i in 0..n {
            let mut sp = s[(i * 5) % s.len()].clone();
            sp.name = format!("req_ov_{i}");
            sp.default = ODefault::None;
            sp.id = if i % 4 == 1 { Some(2000 + i as u32) } else { None };
            specs.push(sp);
        }
        let mut opt = s[1].clone();
        opt.name = "opt_ov_last".into();
        opt.default = ODefault::Literal;
        opt.id = None;
        specs.push(opt);
        out.push(build(specs, format!("count|required={n}")));
    }
    // pairs: all ordered pairs in thorough, a diagonal band in quick
    for (i, a) in s.iter().enumerate() {
        for (j, b) in s.iter().enumerate() {
            if a.id.is_some() && a.id == b.id {
                continue;
            }
            if !thorough && (i * 7 + j * 3) % 11 != 0 {
                continue;
            }
            let mut a = a.clone();
            a.name = ["zz_first", "zzFirst", "ZZ_FIRST"][(i + j) % 3].into();
            let mut b = b.clone();
            b.name = ["aa_second", "aaSecond", "AA2"][(i * 2 + j) % 3].into();
            out.push(build(vec![a, b], format!("pair|{i}|{j}")));
        }
    }
    out
}

/// assignments: index k takes the k-th value of each override (cycling), optional ones also `None`
pub fn assignments(p: &Prog) -> Vec<Vec<Option<(String, f64)>>> {
    let n = p.specs.iter().map(|s| s.ty.values().len()).max().unwrap_or(1);
    let mut out = vec![];
    for k in 0..n {
        out.push(p.specs.iter().map(|s| { let v = s.ty.values(); Some(v[k % v.len()].clone()) }).collect());
    }
    if p.specs.iter().any(|s| s.optional()) {
        // all optional ones unset; and each optional one unset alone
        out.push(p.specs.iter().map(|s| if s.optional() { None } else { Some(s.ty.values()[0].clone()) }).collect());
        if p.specs.len() > 1 {
            for i in 0..p.specs.len() {
                if p.specs[i].optional() {
                    out.push(p.specs.iter().enumerate().map(|(j, s)| if j == i { None } else { Some(s.ty.values()[1].clone()) }).collect());
                }
            }
        }
    }
    out
}

pub fn check_model(p: &Prog, text: &str) -> Vec<String> {
    let mut out = vec![];
    let m = omodel::parse(text).unwrap_or_else(|e| machinery(&format!("C12: {e}")));
    let st = match m.top.structs.iter().find(|s| s.name == "OverrideConstants") {
        Some(s) => s,
        None => return vec!["no OverrideConstants struct".into()],
    };
    let mut want: Vec<(String, String)> = vec![("base_ov".into(), "Option<f32>".into())];
    for s in &p.specs {
        let t = s.ty.wgsl();
        want.push((s.name.clone(), if s.optional() { format!("Option<{t}>") } else { t.to_string() }));
    }
    let got: Vec<(String, String)> = st.fields.iter().map(|f| (f.name.clone(), f.ty.clone())).collect();
    // one field per override, in declaration order, of the matching type (Option <=> default)
    let a: Vec<&String> = want.iter().map(|x| &x.1).collect();
    let b: Vec<&String> = got.iter().map(|x| &x.1).collect();
    if a != b {
        out.push(format!("OverrideConstants fields {got:?}, expected one field per override with types {want:?}"));
    }
    // keys used by constants()
    if let Some(imp) = m.top.impls.iter().find(|i| i.self_ty == "OverrideConstants" && i.trait_.is_none()) {
        if let Some(f) = imp.fns.iter().find(|f| f.name == "constants") {
            let mut keys: Vec<String> = omodel::find_method_calls(&f.block, "to_owned").iter().filter_map(|c| match c { omodel::Val::Method { recv, .. } => recv.as_str().ok().map(|s| s.to_string()), _ => None }).collect();
            keys.sort();
            let mut wk: Vec<String> = p.specs.iter().map(|s| s.key()).collect();
            wk.push("base_ov".into());
            wk.sort();
            if keys != wk {
                out.push(format!("constants() uses keys {keys:?}, expected {wk:?}"));
            }
        } else {
            out.push("no constants()".into());
        }
    } else {
        out.push("no impl OverrideConstants".into());
    }
    out
}

/// Field names of `OverrideConstants` in declaration order, as emitted (the statement fixes one field per
/// override and the map keys, not the Rust field names).
pub fn field_names(text: &str) -> Option<Vec<String>> {
    let m = omodel::parse(text).ok()?;
    let st = m.top.structs.iter().find(|s| s.name == "OverrideConstants")?;
    Some(st.fields.iter().map(|f| f.name.clone()).collect())
}

pub fn probe_code(p: &Prog, fields: &[String]) -> String {
    let mut s = String::from("    use generated::*;\n    let module = create_shader_module(device);\n    let dump = |m: &std::collections::HashMap<String, f64>| -> String { let mut v: Vec<String> = m.iter().map(|(k, x)| format!(\"[{},\\\"{}\\\"]\", jstr(k), x.to_bits())).collect(); v.sort(); format!(\"[{}]\", v.join(\",\")) };\n");
    for (k, asg) in assignments(p).iter().enumerate() {
        let fname = |i: usize, fallback: &str| fields.get(i).cloned().unwrap_or_else(|| fallback.to_string());
        let mut fields_s = vec![format!("{}: None", fname(0, "base_ov"))];
        for (si, (spec, v)) in p.specs.iter().zip(asg.iter()).enumerate() {
            let e = match (spec.optional(), v) {
                (true, Some((lit, _))) => format!("Some({lit})"),
                (true, None) => "None".to_string(),
                (false, Some((lit, _))) => lit.clone(),
                (false, None) => unreachable!(),
            };
            fields_s.push(format!("{}: {e}", fname(si + 1, &spec.name)));
        }
        let mut body = format!("        let ov = OverrideConstants {{ {} }};\n        let direct = ov.constants();\n        let mut rec = format!(\"{{{{\\\"op\\\":\\\"overrides\\\",\\\"k\\\":{k},\\\"direct\\\":{{}}\", dump(&direct));\n", fields_s.join(", "));
        for (letter, _, call, state, name) in ENTRY_SHAPES {
            if p.mix.contains(letter) {
                body.push_str(&format!("        {{\n            let e = {call};\n            let st = {state}(&module, &e);\n            rec.push_str(&format!(\",\\\"route:{name}\\\":{{}},\\\"route:{name}:{state}\\\":{{}}\", dump(&e.constants), dump(st.compilation_options.constants)));\n        }}\n"));
            }
        }
        body.push_str("        rec.push('}');\n        out.push(rec);\n");
        s.push_str(&format!("    {{\n{body}    }}\n"));
    }
    s
}

fn literal_matches(l: &naga::Literal, ty: OTy, v: f64) -> bool {
    match (l, ty) {
        (naga::Literal::Bool(b), OTy::Bool) => *b == (v != 0.0),
        (naga::Literal::I32(x), OTy::I32) => *x as f64 == v,
        (naga::Literal::U32(x), OTy::U32) => *x as f64 == v,
        (naga::Literal::F32(x), OTy::F32) => (*x as f64) == v && x.is_sign_negative() == v.is_sign_negative(),
        _ => false,
    }
}

pub fn run(tier: &str) -> i32 {
    let mut rep = Report::new("C12", tier);
    let thorough = rep.thorough();
    let progs = space(thorough);
    let cfg = Config::default();
    let res = par_map(&progs, |p| match naga_check(&p.src) {
        Err(e) => (None, vec![format!("<naga rejects: {}>", e.lines().next().unwrap_or("").chars().take(70).collect::<String>())]),
        Ok(_) => match generate(&p.src, &cfg) {
            Outcome::Ok(t) => {
                let v = check_model(p, &t);
                (Some(t), v)
            }
            other => (None, vec![format!("<generator not Ok>{}", other.class())]),
        },
    });
    let mut cases = vec![];
    let mut index: BTreeMap<String, usize> = BTreeMap::new();
    for (i, (p, (t, v))) in progs.iter().zip(res.iter()).enumerate() {
        rep.states += 1;
        rep.transitions += p.specs.len() as u64;
        rep.evaluations += 1;
        let t = match t {
            Some(t) => t,
            None => {
                match v[0].strip_prefix("<generator not Ok>") {
                    Some(class) => rep.generation_failed(p.key.clone(), class, &p.src, &cfg),
                    None => rep.filtered(&v[0]),
                }
                continue;
            }
        };
        rep.nontrivial.insert(hash64(&p.src));
        if thorough || i % 2 == 0 {
            option_leg(&mut rep, &p.key, &p.src, &cfg, t, "the constants struct and its map", &|kind, name| (kind == "struct" || kind == "impl") && name == "OverrideConstants");
        }
        for x in v {
            rep.violation(p.key.clone(), format!("model: {x}"), json!({"wgsl": p.src, "config": cfg.key(), "observed": x}));
        }
        let name = format!("c_{i:05}");
        index.insert(name.clone(), i);
        let fields = field_names(t).unwrap_or_default();
        cases.push(ProbeCase { name, generated: t.clone(), probe_body: probe_code(p, &fields), probe_items: String::new(), files: vec![] });
    }
    let results = probe::run_batch("C12", &cases, true);
    for cr in &results {
        let p = &progs[index[&cr.name]];
        let detail = |obs: String| json!({"wgsl": p.src, "config": cfg.key(), "observed": obs});
        match &cr.check {
            Verdict::Accepted => {}
            Verdict::Rejected(e) => {
                // these modules contain nothing but the overrides and trivial entry points: what rustc rejects is the
                // constants struct, its map or the helpers that carry it
                rep.violation(p.key.clone(), format!("exec: the constants struct / map / entry helpers do not compile: {} {}", e[0].0, e[0].1.chars().take(90).collect::<String>()), detail(format!("{e:?}")));
                continue;
            }
            Verdict::ProbeMismatch(e) => {
                rep.violation(p.key.clone(), format!("exec: the constants struct cannot be filled as the WGSL declarations require: {} {}", e[0].0, e[0].1.chars().take(90).collect::<String>()), detail(format!("{e:?}")));
                continue;
            }
        }
        if let Some(pm) = &cr.panic {
            rep.violation(p.key.clone(), format!("exec: panic {pm}"), detail(pm.clone()));
            continue;
        }
        let (module, info) = naga_check(&p.src).unwrap();
        let asgs = assignments(p);
        for rec in cr.records.iter().filter(|r| r["op"] == "overrides") {
            let k = rec["k"].as_u64().unwrap() as usize;
            let asg = &asgs[k];
            rep.traces_validated += 1;
            let parse = |v: &serde_json::Value| -> BTreeMap<String, f64> { v.as_array().unwrap().iter().map(|e| (e[0].as_str().unwrap().to_string(), f64::from_bits(e[1].as_str().unwrap().parse::<u64>().unwrap()))).collect() };
            let direct = parse(&rec["direct"]);
            // reference map
            let mut want: BTreeMap<String, f64> = BTreeMap::new();
            for (s, v) in p.specs.iter().zip(asg.iter()) {
                if let Some((_, x)) = v {
                    want.insert(s.key(), *x);
                }
            }
            let case = format!("{}|assignment={k}", p.key);
            let same = |a: &BTreeMap<String, f64>, b: &BTreeMap<String, f64>| a.len() == b.len() && a.iter().all(|(k, v)| b.get(k).map(|w| w.to_bits() == v.to_bits() || (*w == *v && *v != 0.0)).unwrap_or(false));
            if !same(&direct, &want) {
                rep.violation(case.clone(), format!("constants() = {direct:?}, expected {want:?}"), detail(format!("{direct:?}")));
            }
            let mut routes = vec![];
            for (letter, _, _, state, name) in ENTRY_SHAPES {
                if p.mix.contains(letter) {
                    routes.push(format!("route:{name}"));
                    routes.push(format!("route:{name}:{state}"));
                }
            }
            for route in &routes {
                let route = route.as_str();
                if rec.get(route).is_none() {
                    rep.violation(case.clone(), format!("no record for {route}"), detail(String::new()));
                    continue;
                }
                rep.outcomes.insert(route.to_string());
                let m = parse(&rec[route]);
                if !same(&m, &direct) {
                    rep.violation(case.clone(), format!("{route} carries {m:?}, constants() gave {direct:?}"), detail(format!("{m:?}")));
                }
            }
            // the shader compiler's override resolution must accept the map and see the values
            let map: naga::back::PipelineConstants = direct.iter().map(|(k, v)| (k.clone(), *v)).collect();
            if p.key.contains("wgsize|") {
                continue;
            }
            match naga::back::pipeline_constants::process_overrides(&module, &info, &map) {
                Err(e) => rep.violation(case.clone(), format!("naga's override resolution rejects the map: {e}"), detail(format!("{direct:?}"))),
                Ok((m2, _)) => {
                    for (s, v) in p.specs.iter().zip(asg.iter()) {
                        if let Some((_, x)) = v {
                            let c = m2.constants.iter().find(|(_, c)| c.name.as_deref() == Some(&s.name));
                            let lit = c.and_then(|(_, c)| match &m2.global_expressions[c.init] { naga::Expression::Literal(l) => Some(*l), _ => None });
                            match lit {
                                Some(l) if literal_matches(&l, s.ty, *x) => {}
                                other => rep.violation(case.clone(), format!("after override resolution `{}` is {other:?}, supplied value {x}", s.name), detail(format!("{direct:?}"))),
                            }
                        }
                    }
                    rep.outcomes.insert(format!("{}", direct.len()));
                }
            }
        }
    }
    rep.set("compiled_modules", json!(cases.len()));
    rep.sample(json!({"key": progs[5].key, "wgsl": progs[5].src}));
    rep.sample(json!({"key": progs[progs.len() - 1].key, "wgsl": progs[progs.len() - 1].src}));
    rep.rule = format!("override sets: every single override over {{bool,i32,u32,f32}} x {{no default, literal default, default depending on another override}} x {{no @id, @id(0), @id(7), @id(65535)}} (48) and {} ordered pairs of them; per set 5-9 field assignments (min, max, 0/false, 1/true, 0.1/-0.0/16777217, optional ones unset). omodel: field per override, type, Option <=> default, key set. Every module compiled and executed: constants() and the maps reaching vertex/fragment entry helpers and state builders compared with the reference map; then the real naga::back::pipeline_constants::process_overrides must accept the map and the resulting constants must carry the supplied values.", if thorough { "all" } else { "a diagonal band of the" });
    rep.finish()
}
