//! E2 — probe batches ("L2-exec"): generated modules are written *unmodified* into a probe crate
//! (`src/<case>/generated.rs`), next to probe code the harness writes from its own knowledge of the
//! WGSL program (`src/<case>/mod.rs`).
//!  * check flavour: `cargo check` against the real `wgpu` 24.0.5 + bytemuck/encase/glam/serde;
//!  * exec flavour: built against the recording `wgpu` stand-in and run.
//! The same probe code is compiled in both flavours (it only takes wgpu objects as parameters),
//! which is what binds the stand-in to the real facade.
use crate::common::*;
use serde_json::Value;
use std::collections::BTreeMap;
use std::path::{Path, PathBuf};
use std::process::Command;

#[derive(Clone, Debug)]
pub struct ProbeCase {
    /// identifier-safe unique name, e.g. `c_0001`
    pub name: String,
    pub generated: String,
    /// body of `pub fn probe(device: &wgpu::Device, res: &Res, passes: &mut Passes, out: &mut Vec<String>)`
    pub probe_body: String,
    /// extra items placed in the case's mod.rs (impls of probe traits for generated structs ...)
    pub probe_items: String,
    /// extra files written next to generated.rs (e.g. the shader for include_str!)
    pub files: Vec<(String, Vec<u8>)>,
}

#[derive(Clone, Debug, PartialEq)]
pub enum Verdict {
    Accepted,
    /// rustc rejected the generated text: (code, message) of every error located in generated.rs
    Rejected(Vec<(String, String)>),
    /// the generated text compiled but the probe code did not (an item the probe expects is missing / differs)
    ProbeMismatch(Vec<(String, String)>),
}

#[derive(Clone, Debug)]
pub struct CaseResult {
    pub name: String,
    pub check: Verdict,
    /// exec flavour output records (empty when not executed)
    pub records: Vec<Value>,
    pub executed: bool,
    pub panic: Option<String>,
}

fn harness_dir() -> PathBuf {
    root().join("harness")
}

fn cargo_toml(pkg: &str, exec: bool) -> String {
    let h = harness_dir();
    let wgpu = if exec {
        format!("wgpu = {{ path = \"{}\" }}", h.join("shim-wgpu").display())
    } else {
        "wgpu = { version = \"=24.0.5\", default-features = false, features = [\"wgsl\"] }".to_string()
    };
    format!(
        "[package]\nname = \"{pkg}\"\nversion = \"0.0.0\"\nedition = \"2021\"\n\n[dependencies]\n{wgpu}\nbytemuck = {{ version = \"1\", features = [\"derive\", \"min_const_generics\"] }}\nencase = {{ version = \"0.10\", features = [\"glam\"] }}\nglam = {{ version = \"0.29\", features = [\"bytemuck\", \"serde\"] }}\nserde = {{ version = \"1\", features = [\"derive\"] }}\nnalgebra = {{ path = \"{}\" }}\nprobe-support = {{ path = \"{}\" }}\n\n[profile.dev]\ndebug = 0\nopt-level = 0\nincremental = false\ncodegen-units = 32\n\n[workspace]\n",
        h.join("shim-nalgebra").display(),
        h.join("probe-support").display()
    )
}

const SUPPORT_RS: &str = r#"//! Resources handed to every probe (same source in both flavours).
#![allow(dead_code)]
pub struct Res {
    pub buffers: Vec<wgpu::Buffer>,
    pub views: Vec<wgpu::TextureView>,
    pub samplers: Vec<wgpu::Sampler>,
}
pub struct Passes<'a> {
    pub compute: Vec<wgpu::ComputePass<'a>>,
    pub render: Vec<wgpu::RenderPass<'a>>,
    pub bundle: Vec<wgpu::RenderBundleEncoder<'a>>,
}
"#;

const EXEC_MAIN_HEAD: &str = r#"#![allow(dead_code, unused, non_snake_case, non_camel_case_types, non_upper_case_globals, mismatched_lifetime_syntaxes)]
pub mod support;
use support::{Passes, Res};

fn run(name: &str, f: fn(&wgpu::Device, &Res, &mut Passes, &mut Vec<String>)) {
    let device = wgpu::Device::recording();
    let res = Res {
        buffers: (0..16).map(|i| wgpu::Buffer { tag: 100 + i }).collect(),
        views: (0..16).map(|i| wgpu::TextureView { tag: 200 + i }).collect(),
        samplers: (0..16).map(|i| wgpu::Sampler { tag: 300 + i }).collect(),
    };
    let mut passes = Passes {
        compute: (0..3).map(|_| wgpu::ComputePass::recording()).collect(),
        render: (0..3).map(|_| wgpu::RenderPass::recording()).collect(),
        bundle: (0..3).map(|_| wgpu::RenderBundleEncoder::recording()).collect(),
    };
    let mut out: Vec<String> = vec![];
    let r = std::panic::catch_unwind(std::panic::AssertUnwindSafe(|| f(&device, &res, &mut passes, &mut out)));
    println!("@@CASE {name}");
    for l in out {
        println!("{l}");
    }
    for l in device.take_log() {
        println!("{l}");
    }
    let j = |v: Vec<String>| format!("[{}]", v.join(","));
    println!(
        "{{\"op\":\"passes\",\"compute\":{},\"render\":{},\"bundle\":{}}}",
        j(passes.compute.iter().map(|p| p.calls_json()).collect()),
        j(passes.render.iter().map(|p| p.calls_json()).collect()),
        j(passes.bundle.iter().map(|p| p.calls_json()).collect())
    );
    if let Err(e) = r {
        let msg = e.downcast_ref::<String>().cloned().or_else(|| e.downcast_ref::<&str>().map(|s| s.to_string())).unwrap_or_default();
        println!("{{\"op\":\"panic\",\"msg\":{}}}", probe_support::jstr(&msg));
    }
    println!("@@END {name}");
}

fn main() {
    std::panic::set_hook(Box::new(|_| {}));
"#;

const CASE_ALLOW: &str = "#![allow(dead_code, unused, non_snake_case, non_camel_case_types, non_upper_case_globals, mismatched_lifetime_syntaxes, clippy::all)]\n";

fn write_if_changed(path: &Path, content: &[u8]) {
    if let Ok(old) = std::fs::read(path) {
        if old == content {
            return;
        }
    }
    if let Some(p) = path.parent() {
        std::fs::create_dir_all(p).unwrap();
    }
    std::fs::write(path, content).unwrap();
}

fn write_member(dir: &Path, pkg: &str, exec: bool, cases: &[&ProbeCase]) {
    let src = dir.join("src");
    let _ = std::fs::remove_dir_all(&src);
    std::fs::create_dir_all(&src).unwrap();
    write_if_changed(&dir.join("Cargo.toml"), cargo_toml(pkg, exec).replace("\n[workspace]\n", "\n").replace("[profile.dev]\ndebug = 0\nopt-level = 0\nincremental = false\ncodegen-units = 32\n", "").as_bytes());
    std::fs::write(src.join("support.rs"), SUPPORT_RS).unwrap();
    let mut root_rs = String::new();
    if exec {
        root_rs.push_str(EXEC_MAIN_HEAD);
        for c in cases {
            root_rs.push_str(&format!("    run(\"{0}\", {0}::probe);\n", c.name));
        }
        root_rs.push_str("}\n");
    } else {
        root_rs.push_str("#![allow(dead_code, unused, non_snake_case, non_camel_case_types, non_upper_case_globals, mismatched_lifetime_syntaxes)]\npub mod support;\n");
    }
    for c in cases {
        root_rs.push_str(&format!("pub mod {};\n", c.name));
        let cdir = src.join(&c.name);
        std::fs::create_dir_all(&cdir).unwrap();
        std::fs::write(cdir.join("generated.rs"), &c.generated).unwrap();
        for (n, b) in &c.files {
            std::fs::write(cdir.join(n), b).unwrap();
        }
        let modrs = format!(
            "{CASE_ALLOW}pub mod generated;\nuse crate::support::{{Passes, Res}};\nuse probe_support::{{Denote, implements, jstr}};\n{}\npub fn probe(device: &wgpu::Device, res: &Res, passes: &mut Passes, out: &mut Vec<String>) {{\n{}\n}}\n",
            c.probe_items, c.probe_body
        );
        std::fs::write(cdir.join("mod.rs"), modrs).unwrap();
    }
    std::fs::write(src.join(if exec { "main.rs" } else { "lib.rs" }), root_rs).unwrap();
}

/// Number of member crates a batch is split into (cargo builds members in parallel).
fn shard_count(n: usize) -> usize {
    // (large batches: more, smaller members - a member of 1 000+ modules makes rustc use several GiB, and 16 of them
    // run at once)
    if n <= 40 {
        1
    } else if n <= 2400 {
        (n / 40).clamp(2, 16)
    } else {
        (n / 150).clamp(16, 96)
    }
}

/// Writes a workspace `dir` with `shards` member crates holding the live cases; shard of a case is
/// fixed by its position in the full case list so that unchanged members stay fresh between rounds.
fn write_workspace(dir: &Path, pkg: &str, exec: bool, all: &[ProbeCase], live: &dyn Fn(&ProbeCase) -> bool, shards: usize) {
    std::fs::create_dir_all(dir).unwrap();
    let members: Vec<String> = (0..shards).map(|i| format!("s{i:02}")).collect();
    let ws = format!(
        "[workspace]\nresolver = \"2\"\nmembers = [{}]\n\n[profile.dev]\ndebug = 0\nopt-level = 0\nincremental = false\ncodegen-units = 32\n",
        members.iter().map(|m| format!("\"{m}\"")).collect::<Vec<_>>().join(", ")
    );
    write_if_changed(&dir.join("Cargo.toml"), ws.as_bytes());
    let lock = harness_dir().join("probe-lock").join("Cargo.lock");
    if !dir.join("Cargo.lock").exists() {
        if let Ok(l) = std::fs::read(&lock) {
            std::fs::write(dir.join("Cargo.lock"), l).unwrap();
        }
    }
    // remove stale members of an earlier, larger batch
    if let Ok(rd) = std::fs::read_dir(dir) {
        for e in rd.flatten() {
            let n = e.file_name().to_string_lossy().to_string();
            if n.starts_with('s') && n.len() == 3 && !members.contains(&n) {
                let _ = std::fs::remove_dir_all(e.path());
            }
        }
    }
    for (si, m) in members.iter().enumerate() {
        let cases: Vec<&ProbeCase> = all.iter().enumerate().filter(|(i, c)| i % shards == si && live(c)).map(|(_, c)| c).collect();
        write_member(&dir.join(m), &format!("{pkg}_{m}"), exec, &cases);
    }
}

fn target_dir() -> PathBuf {
    root().join("target").join("probe-target")
}

/// Runs cargo with JSON messages; returns (success, errors per case: file kind -> (code, message)).
fn cargo_json(dir: &Path, sub: &str) -> (bool, BTreeMap<String, (Vec<(String, String)>, Vec<(String, String)>)>, Vec<String>) {
    let out = Command::new("cargo")
        .arg(sub)
        .arg("--workspace")
        .arg("--keep-going")
        .arg("--offline")
        .arg("--message-format=json")
        .current_dir(dir)
        .env("CARGO_TARGET_DIR", target_dir())
        .env("CARGO_NET_OFFLINE", "true")
        .env_remove("RUSTFLAGS")
        .output()
        .unwrap_or_else(|e| machinery(&format!("cannot run cargo: {e}")));
    let mut per_case: BTreeMap<String, (Vec<(String, String)>, Vec<(String, String)>)> = BTreeMap::new();
    let mut unattributed = vec![];
    for line in String::from_utf8_lossy(&out.stdout).lines() {
        let v: Value = match serde_json::from_str(line) {
            Ok(v) => v,
            Err(_) => continue,
        };
        if v["reason"] != "compiler-message" {
            continue;
        }
        let m = &v["message"];
        if m["level"] != "error" {
            continue;
        }
        let code = m["code"]["code"].as_str().unwrap_or("").to_string();
        let msg = m["message"].as_str().unwrap_or("").to_string();
        if msg.starts_with("aborting due to") || msg.starts_with("could not compile") {
            continue;
        }
        // find the case by walking spans and their macro expansions
        fn find(span: &Value) -> Option<(String, bool)> {
            if let Some(f) = span["file_name"].as_str() {
                // `sNN/src/<case>/<file>` (workspace member) or `src/<case>/<file>`
                let f = if f.len() > 4 && f.starts_with('s') && f.as_bytes()[3] == b'/' { &f[4..] } else { f };
                if let Some(rest) = f.strip_prefix("src/") {
                    let mut it = rest.split('/');
                    if let (Some(case), Some(file)) = (it.next(), it.next()) {
                        if case.starts_with("c_") {
                            return Some((case.to_string(), file == "generated.rs"));
                        }
                    }
                }
            }
            if !span["expansion"].is_null() {
                return find(&span["expansion"]["span"]);
            }
            None
        }
        let mut hit: Option<(String, bool)> = None;
        let mut all_spans: Vec<&Value> = m["spans"].as_array().map(|a| a.iter().collect()).unwrap_or_default();
        if let Some(children) = m["children"].as_array() {
            for c in children {
                if let Some(a) = c["spans"].as_array() {
                    all_spans.extend(a.iter());
                }
            }
        }
        // prefer primary spans
        all_spans.sort_by_key(|s| !s["is_primary"].as_bool().unwrap_or(false));
        for s in all_spans {
            if let Some(h) = find(s) {
                hit = Some(h);
                break;
            }
        }
        match hit {
            Some((case, in_generated)) => {
                let e = per_case.entry(case).or_default();
                if in_generated {
                    e.0.push((code, msg));
                } else {
                    e.1.push((code, msg));
                }
            }
            None => unattributed.push(format!("{code}: {msg} :: {}", m["rendered"].as_str().unwrap_or("").chars().take(600).collect::<String>())),
        }
    }
    if !out.status.success() && per_case.is_empty() && unattributed.is_empty() {
        unattributed.push(format!("cargo {sub} failed: {}", String::from_utf8_lossy(&out.stderr).chars().take(1500).collect::<String>()));
    }
    (out.status.success(), per_case, unattributed)
}

/// Type-checks all cases against real wgpu; optionally builds and runs the accepted ones on the stand-in.
pub fn run_batch(batch: &str, cases: &[ProbeCase], exec: bool) -> Vec<CaseResult> {
    let base = root().join("target").join("probe");
    std::fs::create_dir_all(&base).unwrap();
    let mut verdicts: BTreeMap<String, Verdict> = cases.iter().map(|c| (c.name.clone(), Verdict::Accepted)).collect();
    // ---- check flavour
    let cdir = base.join(format!("{batch}-check"));
    let pkg = format!("probe_{}_check", batch.to_lowercase().replace('-', "_"));
    let shards = shard_count(cases.len());
    for round in 0..6 {
        if !cases.iter().any(|c| verdicts[&c.name] == Verdict::Accepted) {
            break;
        }
        write_workspace(&cdir, &pkg, false, cases, &|c| verdicts[&c.name] == Verdict::Accepted, shards);
        let (ok, errs, unattr) = cargo_json(&cdir, "check");
        if !unattr.is_empty() {
            machinery(&format!("probe batch {batch} (check): compiler errors that cannot be attributed to a case:\n{}", unattr.join("\n")));
        }
        if ok && errs.is_empty() {
            break;
        }
        if errs.is_empty() {
            machinery(&format!("probe batch {batch} (check): cargo failed without attributable errors"));
        }
        for (case, (gen, probe)) in errs {
            if !verdicts.contains_key(&case) {
                machinery(&format!("probe batch {batch}: error attributed to unknown case {case}"));
            }
            if std::env::var("VERIF_DEBUG").is_ok() {
                eprintln!("PROBE {batch} {case}: generated={gen:?} probe={probe:?}");
            }
            let v = if !gen.is_empty() { Verdict::Rejected(gen) } else { Verdict::ProbeMismatch(probe) };
            verdicts.insert(case, v);
        }
        if round == 5 {
            machinery(&format!("probe batch {batch} (check): still failing after 6 rounds"));
        }
    }
    // ---- exec flavour
    let mut records: BTreeMap<String, Vec<Value>> = BTreeMap::new();
    let mut executed: BTreeMap<String, bool> = BTreeMap::new();
    if exec {
        let xdir = base.join(format!("{batch}-exec"));
        let xpkg = format!("probe_{}_exec", batch.to_lowercase().replace('-', "_"));
        let n_live = cases.iter().filter(|c| verdicts[&c.name] == Verdict::Accepted).count();
        if n_live > 0 {
            write_workspace(&xdir, &xpkg, true, cases, &|c| verdicts[&c.name] == Verdict::Accepted, shards);
            let (ok, errs, unattr) = cargo_json(&xdir, "build");
            if !ok || !errs.is_empty() || !unattr.is_empty() {
                machinery(&format!(
                    "probe batch {batch} (exec): cases accepted against the real wgpu do not build against the stand-in: {:?} {:?}",
                    errs.iter().take(3).collect::<Vec<_>>(),
                    unattr.iter().take(3).collect::<Vec<_>>()
                ));
            }
            let mut stdout_all = String::new();
            for si in 0..shards {
                let bin = target_dir().join("debug").join(format!("{xpkg}_s{si:02}"));
                let out = Command::new(&bin).output().unwrap_or_else(|e| machinery(&format!("cannot run probe binary {}: {e}", bin.display())));
                if !out.status.success() {
                    machinery(&format!("probe binary of batch {batch} exited with {:?}: {}", out.status, String::from_utf8_lossy(&out.stderr).chars().take(500).collect::<String>()));
                }
                stdout_all.push_str(&String::from_utf8_lossy(&out.stdout));
            }
            let mut cur: Option<String> = None;
            for line in stdout_all.lines() {
                if let Some(n) = line.strip_prefix("@@CASE ") {
                    cur = Some(n.to_string());
                    records.insert(n.to_string(), vec![]);
                } else if let Some(n) = line.strip_prefix("@@END ") {
                    executed.insert(n.to_string(), true);
                    cur = None;
                } else if let Some(c) = &cur {
                    match serde_json::from_str::<Value>(line) {
                        Ok(v) => records.get_mut(c).unwrap().push(v),
                        Err(e) => machinery(&format!("probe output of {c} is not JSON ({e}): {line}")),
                    }
                }
            }
        }
    }
    cases
        .iter()
        .map(|c| {
            let recs = records.remove(&c.name).unwrap_or_default();
            let panic = recs.iter().find(|r| r["op"] == "panic").map(|r| r["msg"].as_str().unwrap_or("").to_string());
            CaseResult { name: c.name.clone(), check: verdicts[&c.name].clone(), records: recs, executed: executed.get(&c.name).copied().unwrap_or(false), panic }
        })
        .collect()
}

/// Builds the dependencies of both flavours once (MANIFEST.setup_cmd).
pub fn setup() {
    let noop = ProbeCase {
        name: "c_0000".into(),
        generated: "pub const X: u32 = 1;\n".into(),
        probe_body: "    out.push(format!(\"{{\\\"op\\\":\\\"x\\\",\\\"v\\\":{}}}\", generated::X));".into(),
        probe_items: String::new(),
        files: vec![],
    };
    let r = run_batch("setup", &[noop], true);
    if r[0].check != Verdict::Accepted || !r[0].executed {
        machinery(&format!("probe setup failed: {:?}", r[0]));
    }
    println!("probe crates built: {:?}", r[0].records);
}
