//! C01 — the generated module is complete Rust that compiles against wgpu 24.
//! Declaration atoms (one feature each), pairs of class representatives and kitchen-sink shaders,
//! under the configuration sets described in DESIGN.md, de-duplicated by output text and
//! type-checked by rustc against the real wgpu 24.0.5 + bytemuck / encase / serde / glam.
use crate::common::*;
use crate::probe::{self, ProbeCase, Verdict};
use serde_json::json;
use std::collections::BTreeMap;

#[derive(Clone)]
pub struct Atom {
    /// stable id; known findings are filed under it
    pub id: String,
    pub src: String,
    /// emits user structs: explored under all 16 derive masks x 3 representations
    pub structs: bool,
    /// also explore with the formatter on (identifier atoms: the unformatted path may panic)
    pub with_rustfmt: bool,
}

fn atom(id: impl Into<String>, src: impl Into<String>, structs: bool) -> Atom {
    Atom { id: id.into(), src: src.into(), structs, with_rustfmt: false }
}

const RUST_KEYWORDS: [&str; 56] = [
    "as", "break", "const", "continue", "crate", "else", "enum", "extern", "false", "fn", "for", "if", "impl", "in", "let", "loop", "match", "mod", "move", "mut", "pub", "ref", "return", "self", "Self", "static",
    "struct", "super", "trait", "true", "type", "unsafe", "use", "where", "while", "async", "await", "dyn", "abstract", "become", "box", "do", "final", "macro", "override", "priv", "typeof", "unsized", "virtual",
    "yield", "try", "gen", "union", "raw", "safe", "macro_rules",
];

/// Identifiers the generator introduces itself, and prelude / crate names it relies on.
const GENERATED_NAMES: [&str; 34] = [
    "SOURCE", "ENTRY_MAIN", "main_entry", "OverrideConstants", "VertexEntry", "FragmentEntry", "bind_groups", "compute", "create_shader_module", "create_pipeline_layout", "set_bind_groups", "PUSH_CONSTANT_STAGES",
    "vertex_state", "fragment_state", "BindGroup0", "BindGroupLayout0", "LAYOUT_DESCRIPTOR0", "BindGroups", "SetBindGroup", "VERTEX_ATTRIBUTES", "vertex_buffer_layout", "Vec", "Option", "Some", "None", "Default", "String",
    "wgpu", "std", "bytemuck", "encase", "serde", "glam", "nalgebra",
];

/// A shader that uses `name` in the given naming position.
fn naming_shader(pos: &str, name: &str) -> String {
    match pos {
        "struct" => format!("struct {name} {{ a: vec4<f32> }};\n@group(0) @binding(0) var<uniform> u: {name};\n@compute @workgroup_size(1) fn main() {{ let x = u.a; }}\n"),
        "field" => format!("struct S {{ {name}: vec4<f32> }};\n@group(0) @binding(0) var<uniform> u: S;\n@compute @workgroup_size(1) fn main() {{ let x = u.{name}; }}\n"),
        "vertex-field" => format!("struct VIn {{ @location(0) {name}: vec4<f32> }};\n@vertex fn main(i: VIn) -> @builtin(position) vec4<f32> {{ return i.{name}; }}\n"),
        "vertex-struct" => format!("struct {name} {{ @location(0) a: vec4<f32> }};\n@vertex fn main(i: {name}) -> @builtin(position) vec4<f32> {{ return i.a; }}\n"),
        "global" => format!("@group(0) @binding(0) var<uniform> {name}: vec4<f32>;\n@compute @workgroup_size(1) fn main() {{ let x = {name}.x; }}\n"),
        "const" => format!("const {name}: f32 = 1.0;\n@compute @workgroup_size(1) fn main() {{ let x = {name}; }}\n"),
        "override" => format!("override {name}: f32 = 1.0;\n@vertex fn main() -> @builtin(position) vec4<f32> {{ return vec4<f32>({name}); }}\n"),
        "compute-entry" => format!("@compute @workgroup_size(1) fn {name}() {{ }}\n"),
        "vertex-entry" => format!("@vertex fn {name}() -> @builtin(position) vec4<f32> {{ return vec4<f32>(0.0); }}\n"),
        "fragment-entry" => format!("@fragment fn {name}() -> @location(0) vec4<f32> {{ return vec4<f32>(0.0); }}\n"),
        _ => unreachable!(),
    }
}
const POSITIONS: [&str; 10] = ["struct", "field", "vertex-field", "vertex-struct", "global", "const", "override", "compute-entry", "vertex-entry", "fragment-entry"];

pub fn atoms(thorough: bool) -> Vec<Atom> {
    let mut v: Vec<Atom> = vec![];
    // ---- struct shapes (host-shareable)
    let sp = crate::structspace::struct_space(true, false, true, true);
    for p in sp.iter().filter(|p| p.key.starts_with("s1|") || p.key.starts_with("attr|") || p.key.starts_with("rt") || (thorough && p.key.starts_with("s2|") && hash64(&p.key) % 8 == 0)) {
        v.push(atom(format!("struct|{}", p.key), p.src.clone(), true));
    }
    for p in crate::c06::extra_space().iter().filter(|p| p.key.starts_with("bool") || p.key.starts_with("fragment") || (p.key.starts_with("vertex") && (thorough || hash64(&p.key) % 6 == 0))) {
        v.push(atom(format!("struct|{}", p.key), p.src.clone(), true));
    }
    v.push(atom("struct|serde-large-array", "struct Big { a: array<f32, 33> };\n@group(0) @binding(0) var<storage, read> b: Big;\n@compute @workgroup_size(1) fn main() { let x = b.a[0]; }\n", true));
    v.push(atom("struct|compute-builtin-param", "struct CIn { @builtin(global_invocation_id) id: vec3<u32>, @builtin(local_invocation_index) li: u32 };\n@compute @workgroup_size(1) fn main(i: CIn) { }\n", true));
    for p in crate::c09::programs() {
        v.push(atom(format!("roles|{}", p.key), p.src, true));
    }
    for (i, p) in crate::c08::space(false).into_iter().enumerate() {
        if p.key.starts_with("io-nested") || p.key.starts_with("single|") && hash64(&p.key) % if thorough { 16 } else { 32 } == 0 || i % if thorough { 97 } else { 997 } == 0 {
            v.push(atom(format!("roles8|{}", p.key), p.src, true));
        }
    }
    // ---- resources
    let table = crate::c02::resource_table(true);
    for r in &table {
        let p = crate::c02::build(&[(r, 0, 0)], &r.stages, 0, String::new());
        v.push(atom(format!("resource|{}", r.id), p.src, false));
    }
    // ---- constants / overrides / push constants
    let consts = crate::c15::table();
    let accepted: Vec<&crate::c15::ConstCase> = consts.iter().filter(|c| naga_check(&crate::c15::module_for(&[c])).is_ok() || c.name.starts_with("REF_")).collect();
    v.push(atom("consts|all", crate::c15::module_for(&accepted.iter().copied().filter(|c| naga_check(&crate::c15::module_for(&[c])).is_ok() || c.name == "REF_BASE" || c.name == "REF_F_BASE").collect::<Vec<_>>()), false));
    for p in crate::c12::space(false).into_iter().filter(|p| p.key.starts_with("single")) {
        v.push(atom(format!("override|{}", p.key), p.src, false));
    }
    for (i, p) in crate::c13::space(true).into_iter().enumerate() {
        if i % if thorough { 9 } else { 97 } == 0 {
            v.push(atom(format!("push-constant|{}", p.key), p.src, true));
        }
    }
    // several push-constant variables in one module (each entry point uses at most one)
    for (what, src) in [
        ("vs-fs", "var<push_constant> pc_v: vec4<f32>;\nvar<push_constant> pc_f: vec2<f32>;\n@vertex fn vs() -> @builtin(position) vec4<f32> { return pc_v; }\n@fragment fn fs() -> @location(0) vec4<f32> { return vec4<f32>(pc_f, 0.0, 1.0); }\n"),
        ("cs-cs", "var<push_constant> pc_a: u32;\nvar<push_constant> pc_b: mat4x4<f32>;\n@compute @workgroup_size(1) fn one() { _ = pc_a; }\n@compute @workgroup_size(1) fn two() { _ = pc_b[0].x; }\n"),
        ("one-unused", "var<push_constant> pc_used: vec4<f32>;\nvar<push_constant> pc_idle: f32;\n@fragment fn fs() -> @location(0) vec4<f32> { return pc_used; }\n@compute @workgroup_size(1) fn cs() { }\n"),
        ("both-unused", "var<push_constant> pc_x: f32;\nvar<push_constant> pc_y: f32;\n@vertex fn vs() -> @builtin(position) vec4<f32> { return vec4<f32>(0.0); }\n"),
        ("three", "var<push_constant> pc_1: f32;\nvar<push_constant> pc_2: vec2<f32>;\nvar<push_constant> pc_3: vec4<f32>;\n@vertex fn vs() -> @builtin(position) vec4<f32> { return vec4<f32>(pc_1); }\n@fragment fn fs() -> @location(0) vec4<f32> { return vec4<f32>(pc_2, 0.0, 1.0); }\n@compute @workgroup_size(1) fn cs() { _ = pc_3; }\n"),
    ] {
        v.push(atom(format!("push-constant|several-vars|{what}"), src.to_string(), false));
    }
    // ---- entry shapes
    for (i, p) in crate::c14::space(false).into_iter().enumerate() {
        if thorough || i % 11 == 0 || p.key.starts_with("multi") {
            v.push(atom(format!("entries|{}", p.key), p.src, true));
        }
    }
    for p in crate::c07::space(false).into_iter().filter(|p| p.key.starts_with("entry|")) {
        v.push(atom(format!("vertex|{}", p.key), p.src, true));
    }
    // ---- bind group shapes
    for (i, p) in crate::c04::space(false).into_iter().enumerate() {
        if i % if thorough { 11 } else { 61 } == 0 || p.key.starts_with("g8") {
            v.push(atom(format!("groups|{}", p.key), p.src, false));
        }
    }
    // the rarely used kinds, the wide cases and the large indices of C04's space (in both tiers)
    for p in crate::c04::space(false).into_iter().filter(|p| p.key.starts_with("rare|") || p.key.starts_with("wide|") || (p.key.starts_with("big|") && p.key.contains("65536"))) {
        v.push(atom(format!("groups|{}", p.key), p.src, false));
    }
    // resource types the generator refuses on this tree (it panics: the shader is not accepted). A tree that accepts them
    // owes a module that compiles: alone in a group, first of a group, in a middle group
    for (what, ty) in [("atomic-top", "var<storage, read_write> rare_res: atomic<u32>"), ("binding-array", "var rare_res: binding_array<texture_2d<f32>, 2>")] {
        v.push(atom(format!("groups|refused|{what}|alone-in-last-group"), format!("@group(0) @binding(0) var<uniform> first_u: vec4<f32>;\n@group(1) @binding(0) {ty};\n@compute @workgroup_size(1) fn main() {{ let x = first_u.x; }}\n"), false));
        v.push(atom(format!("groups|refused|{what}|alone-in-only-group"), format!("@group(0) @binding(0) {ty};\n@compute @workgroup_size(1) fn main() {{ }}\n"), false));
        v.push(atom(format!("groups|refused|{what}|with-others"), format!("@group(0) @binding(0) {ty};\n@group(0) @binding(1) var<uniform> other_u: vec4<f32>;\n@compute @workgroup_size(1) fn main() {{ let x = other_u.x; }}\n"), false));
        v.push(atom(format!("groups|refused|{what}|middle-group"), format!("@group(0) @binding(0) var<uniform> a_u: vec4<f32>;\n@group(1) @binding(0) {ty};\n@group(2) @binding(0) var<uniform> c_u: vec4<f32>;\n@compute @workgroup_size(1) fn main() {{ let x = a_u.x + c_u.x; }}\n"), false));
    }
    // ---- naming atoms: Rust keywords naga accepts, generator-introduced names, non-ASCII, collisions
    for pos in POSITIONS {
        for kw in RUST_KEYWORDS {
            let src = naming_shader(pos, kw);
            if naga_check(&src).is_ok() {
                let mut a = atom(format!("name|keyword|{pos}|{kw}"), src, pos.contains("struct") || pos.contains("field"));
                a.with_rustfmt = true;
                v.push(a);
            }
        }
        for n in GENERATED_NAMES {
            let src = naming_shader(pos, n);
            if naga_check(&src).is_ok() {
                let mut a = atom(format!("name|generated|{pos}|{n}"), src, false);
                a.with_rustfmt = true;
                v.push(a);
            }
        }
        for n in ["\u{e9}t\u{e9}", "\u{4e2d}\u{6587}", "\u{394}x", "snake_case_name", "CamelCaseName", "_lead", "x1"] {
            let src = naming_shader(pos, n);
            if naga_check(&src).is_ok() {
                v.push(atom(format!("name|plain|{pos}|{n}"), src, false));
            }
        }
    }
    // collisions
    v.push(atom("name|collision|entries-upper-case", "@compute @workgroup_size(1) fn main() { }\n@compute @workgroup_size(1) fn Main() { }\n", false));
    v.push(atom("name|collision|fields-nfc", "struct S { \u{e9}: f32, e\u{301}: f32 };\n@group(0) @binding(0) var<storage> s: S;\n@compute @workgroup_size(1) fn main() { let x = s.\u{e9}; }\n", true));
    v.push(atom("name|collision|vertex-structs-snake-case", "struct VertIn { @location(0) a: f32 };\nstruct vert_in { @location(1) b: f32 };\n@vertex fn main(x: VertIn, y: vert_in) -> @builtin(position) vec4<f32> { return vec4<f32>(x.a + y.b); }\n", false));
    v.push(atom("name|collision|entry-vs-helper-name", "@vertex fn vs() -> @builtin(position) vec4<f32> { return vec4<f32>(0.0); }\n@fragment fn vs_entry_frag() { }\n@compute @workgroup_size(1) fn create() { }\n", false));
    v.push(atom("name|collision|const-vs-workgroup-const", "const MAIN_WORKGROUP_SIZE: u32 = 2u;\n@compute @workgroup_size(MAIN_WORKGROUP_SIZE) fn main() { }\n", false));
    for a in v.iter_mut() {
        if a.id.starts_with("name|collision") {
            a.with_rustfmt = true;
        }
    }
    // ---- kitchen sinks
    v.push(atom("kitchen|vertex-fragment", KITCHEN_VF, true));
    v.push(atom("kitchen|compute", KITCHEN_C, true));
    v.push(atom("kitchen|all", format!("{KITCHEN_VF}{}", KITCHEN_C.replace("struct Particle", "struct Particle2").replace("Particle", "Particle2").replace("@group(0)", "@group(2)").replace("params", "params2")), true));
    v
}

pub const KITCHEN_VF: &str = "struct VertexInput { @location(0) position: vec3<f32>, @builtin(vertex_index) vi: u32, @location(1) uv: vec2<f32> };\nstruct Instance { @location(4) model0: vec4<f32>, @location(5) model1: vec4<f32> };\nstruct VertexOutput { @builtin(position) clip: vec4<f32>, @location(0) uv: vec2<f32> };\nstruct Camera { view: mat4x4<f32>, pos: vec3<f32>, exposure: f32 };\nstruct Light { colour: vec4<f32>, dir: vec4<f32> };\nstruct Lights { count: vec4<u32>, items: array<Light, 4> };\noverride gamma: f32 = 2.2;\n@id(1) override use_fog: bool;\nconst PI: f32 = 3.14159;\nconst TAU = 6.28318;\nvar<push_constant> time: vec4<f32>;\n@group(0) @binding(0) var<uniform> camera: Camera;\n@group(0) @binding(1) var<storage, read> lights: Lights;\n@group(1) @binding(0) var albedo: texture_2d<f32>;\n@group(1) @binding(1) var albedo_sampler: sampler;\n@group(1) @binding(5) var shadow: texture_depth_2d;\n@group(1) @binding(6) var shadow_sampler: sampler_comparison;\nfn fog(d: f32) -> f32 { return exp(-d * time.x); }\n@vertex fn vs_main(v: VertexInput, i: Instance) -> VertexOutput { var o: VertexOutput; o.clip = camera.view * vec4<f32>(v.position, 1.0) + i.model0 + i.model1; o.uv = v.uv; return o; }\n@fragment fn fs_main(in: VertexOutput) -> @location(0) vec4<f32> { var c = textureSample(albedo, albedo_sampler, in.uv) * lights.items[0].colour; let s = textureSampleCompare(shadow, shadow_sampler, in.uv, 0.5); if use_fog { c = c * fog(in.clip.z); } return pow(c * s, vec4<f32>(1.0 / gamma)) * PI / TAU; }\n";
const KITCHEN_C: &str = "struct Particle { pos: vec4<f32>, vel: vec4<f32> };\nstruct Params { dt: f32, n: u32, pad0: u32, pad1: u32 };\n@group(0) @binding(0) var<uniform> params: Params;\n@group(0) @binding(1) var<storage, read_write> particles: array<Particle>;\n@group(0) @binding(2) var out_tex: texture_storage_2d<rgba8unorm, write>;\nstruct Counter { hits: atomic<u32> };\n@group(0) @binding(3) var<storage, read_write> counter: Counter;\nvar<workgroup> tile: array<vec4<f32>, 64>;\nconst WG: u32 = 64u;\n@compute @workgroup_size(WG) fn update(@builtin(global_invocation_id) id: vec3<u32>, @builtin(local_invocation_index) li: u32) { if id.x < params.n { particles[id.x].pos += particles[id.x].vel * params.dt; tile[li] = particles[id.x].pos; } workgroupBarrier(); atomicAdd(&counter.hits, 1u); textureStore(out_tex, vec2<i32>(id.xy), tile[0]); }\n@compute @workgroup_size(8, 8) fn clear() { textureStore(out_tex, vec2<i32>(0), vec4<f32>(0.0)); }\n";

fn base_configs() -> Vec<Config> {
    let mut v = vec![Config::default(), Config { bytemuck_vertex: true, encase: true, repr: Repr::Glam, ..Config::default() }];
    for repr in [Repr::Rust, Repr::Glam, Repr::Nalgebra] {
        v.push(Config { bytemuck_vertex: true, bytemuck_host: true, encase: true, serde: true, repr, ..Config::default() });
    }
    v
}

/// Pairs of class representatives.
fn pairs(all: &[Atom]) -> Vec<Atom> {
    let reps = [
        "struct|s1|vec3<f32>",
        "struct|rt2|u32|vec4<f32>",
        "struct|bool|private|scalar",
        "struct|compute-builtin-param",
        "resource|buffer|storage-rw|rt-array",
        "resource|texture|2d|f32",
        "resource|storage-texture|rgba8unorm|write|2d",
        "resource|pair|textureSampleLevel-f32",
        "consts|all",
        "override|single|13",
        "override|single|2",
        "kitchen|compute",
    ];
    let picked: Vec<&Atom> = reps.iter().filter_map(|id| all.iter().find(|a| a.id == *id)).collect();
    let mut out = vec![];
    for (i, a) in picked.iter().enumerate() {
        for b in picked.iter().skip(i + 1) {
            // merge: rename b's identifiers so that the two fragments do not collide, move b's groups up
            let bsrc = rename_for_merge(&b.src);
            if let Ok(_) = naga_check(&format!("{}{}", a.src, bsrc)) {
                out.push(Atom { id: format!("pair|{}|+|{}", a.id, b.id), src: format!("{}{}", a.src, bsrc), structs: a.structs || b.structs, with_rustfmt: false });
            }
        }
    }
    out
}

fn rename_for_merge(src: &str) -> String {
    // suffix every identifier-like word that is declared in the fragment
    let mut declared: Vec<String> = vec![];
    let toks: Vec<&str> = src.split(|c: char| !(c.is_alphanumeric() || c == '_')).filter(|s| !s.is_empty()).collect();
    for w in toks.windows(2) {
        if ["struct", "fn", "var", "const", "override"].contains(&w[0]) {
            declared.push(w[1].to_string());
        }
    }
    // `var<...> name` declarations
    for (i, _) in src.match_indices("> ") {
        let rest = &src[i + 2..];
        let name: String = rest.chars().take_while(|c| c.is_alphanumeric() || *c == '_').collect();
        if rest[name.len()..].starts_with(':') && !name.is_empty() {
            declared.push(name);
        }
    }
    declared.sort();
    declared.dedup();
    let mut out = String::new();
    let mut word = String::new();
    let flush = |word: &mut String, out: &mut String| {
        if !word.is_empty() {
            if declared.contains(word) {
                out.push_str(&format!("{word}_m2"));
            } else {
                out.push_str(word);
            }
            word.clear();
        }
    };
    for c in src.chars() {
        if c.is_alphanumeric() || c == '_' {
            word.push(c);
        } else {
            flush(&mut word, &mut out);
            out.push(c);
        }
    }
    flush(&mut word, &mut out);
    // move bind groups: @group(n) -> @group(n + 4) is not dense; instead rely on distinct bindings 40+
    out.replace("@binding(", "@binding(4")
}

pub fn run(tier: &str) -> i32 {
    let mut rep = Report::new("C01", tier);
    let thorough = rep.thorough();
    let mut all = atoms(thorough);
    if thorough {
        let p = pairs(&all);
        all.extend(p);
    } else {
        let p = pairs(&all);
        all.extend(p.into_iter().step_by(3));
    }
    // (atom, config) evaluations
    let mut evals: Vec<(usize, Config)> = vec![];
    for (i, a) in all.iter().enumerate() {
        let cfgs: Vec<Config> = if a.structs && (thorough || a.id.starts_with("struct|s1|") || a.id.starts_with("roles|roles=VHBFNW") || a.id.starts_with("struct|bool") || a.id.starts_with("struct|rt1")) {
            if thorough || hash64(&a.id) % 7 == 0 || a.id.starts_with("roles|") || a.id.starts_with("struct|bool") { Config::derive_space() } else { base_configs() }
        } else {
            base_configs()
        };
        for c in cfgs {
            // the nalgebra stand-in has no encase impls (encase's nalgebra feature needs the real crate): not judged
            if c.repr == Repr::Nalgebra && c.encase {
                continue;
            }
            evals.push((i, c));
            if a.with_rustfmt {
                evals.push((i, Config { rustfmt: true, ..c }));
            }
        }
    }
    let outs = par_map(&evals, |(i, c)| generate(&all[*i].src, c));
    // universe + de-duplication by output text
    let mut by_text: BTreeMap<u64, (String, Vec<usize>)> = BTreeMap::new();
    let mut fmt_off_tokens: BTreeMap<(usize, String), u64> = BTreeMap::new();
    for (k, ((i, c), o)) in evals.iter().zip(outs.iter()).enumerate() {
        rep.states += 1;
        rep.transitions += 1;
        rep.evaluations += 1;
        match o {
            Outcome::Ok(t) => {
                if !c.rustfmt {
                    fmt_off_tokens.insert((*i, Config { rustfmt: false, ..*c }.key()), hash64(&norm_tokens(t).unwrap_or_default().join(" ")));
                }
                let _ = k;
            }
            other => rep.filtered(&format!("generator not Ok: {}", other.class().chars().take(48).collect::<String>())),
        }
    }
    for (k, ((i, c), o)) in evals.iter().zip(outs.iter()).enumerate() {
        if let Outcome::Ok(t) = o {
            if c.rustfmt {
                // compile the formatted output only when it is a different token stream
                let off = fmt_off_tokens.get(&(*i, Config { rustfmt: false, ..*c }.key()));
                let on = hash64(&norm_tokens(t).unwrap_or_default().join(" "));
                if off == Some(&on) {
                    continue;
                }
            }
            by_text.entry(hash64(t)).or_insert_with(|| (t.clone(), vec![])).1.push(k);
        }
    }
    let cases: Vec<ProbeCase> = by_text.iter().map(|(h, (t, _))| ProbeCase { name: format!("c_{h:016x}"), generated: t.clone(), probe_body: String::new(), probe_items: String::new(), files: vec![] }).collect();
    let results = probe::run_batch("C01", &cases, false);
    for cr in &results {
        let h = u64::from_str_radix(&cr.name[2..], 16).unwrap();
        let (_, ks) = &by_text[&h];
        rep.traces_validated += 1;
        match &cr.check {
            Verdict::Accepted => {
                rep.outcomes.insert("accepted".into());
                for k in ks {
                    rep.nontrivial.insert(hash64(&format!("{}{}", all[evals[*k].0].id, evals[*k].1.key())));
                }
            }
            Verdict::ProbeMismatch(e) => machinery(&format!("C01: empty probe rejected: {e:?}")),
            Verdict::Rejected(errs) => {
                for k in ks {
                    let (i, c) = &evals[*k];
                    let a = &all[*i];
                    let kind = crate::c05::rejection_kind(errs);
                    let derives_pod = c.bytemuck_host || c.bytemuck_vertex;
                    if kind != "other" && derives_pod {
                        // the deliberate rejections by the bytemuck derives - provided the rejected text is what the
                        // generator produces for this input at all: the same call on a fresh thread (no state left by
                        // earlier calls) must give the same text, otherwise the rejection is an artefact of call history
                        let (src2, cfg2) = (a.src.clone(), *c);
                        let fresh = std::thread::spawn(move || generate(&src2, &cfg2)).join().ok();
                        let same = matches!((&fresh, &outs[*k]), (Some(Outcome::Ok(x)), Outcome::Ok(y)) if x == y);
                        if !same {
                            rep.violation(format!("{}|{}", a.id, c.key()), "rustc rejects a module that differs from what a fresh thread generates for the same input (spurious rejection caused by earlier calls)".to_string(), json!({"wgsl": a.src, "config": c.key(), "observed": errs.iter().take(3).map(|(c, m)| format!("{c}: {m}")).collect::<Vec<_>>()}));
                            continue;
                        }
                        rep.outcomes.insert(format!("permitted:{kind}"));
                        rep.count(&format!("permitted rejection ({kind})"));
                        continue;
                    }
                    // headline = the first error that is not one of the permitted bytemuck rejections (when a bytemuck switch is
                    // on, Pod's padding check and the layout assertions may accompany the error that matters)
                    let permitted = |c: &str, m: &str| (c == "E0080" && (m.contains("does not match WGSL") || (derives_pod && m.contains("derive(Pod)")))) || (derives_pod && c == "E0512");
                    let first = errs.iter().find(|(c, m)| !permitted(c, m)).unwrap_or(&errs[0]);
                    let sig = format!("rustc {} {}", first.0, first.1.chars().take(70).collect::<String>());
                    rep.outcomes.insert(sig.clone());
                    rep.violation(
                        format!("{}|{}", a.id, c.key()),
                        sig,
                        json!({"wgsl": a.src, "config": c.key(), "observed": errs.iter().take(4).map(|(c, m)| format!("{c}: {m}")).collect::<Vec<_>>()}),
                    );
                }
            }
        }
    }
    rep.set("distinct_texts_compiled", json!(cases.len()));
    rep.set("atoms", json!(all.len()));
    for i in [0usize, all.len() / 3, all.len() - 1] {
        rep.sample(json!({"atom": all[i].id, "wgsl": all[i].src}));
    }
    rep.rule = format!("{} programs: declaration atoms (struct shapes over the leaf table, @size/@align, runtime arrays, bools, IO structs; every resource kind incl. 41 storage formats x 4 accesses x 4 dimensions and 16 texture/sampler pairings; constants of every type/form; 48 override shapes; push constants; entry shapes; bind group shapes; naming atoms: every Rust keyword naga accepts and every generator-introduced / prelude / crate name in 10 naming positions, non-ASCII names, collision cases), pairs of class representatives, 3 kitchen-sink shaders. Struct atoms under 16 derive masks x 3 representations (quick: a quarter of them, the rest under 5 base configurations), everything else under {{default, README example, all-on x 3 representations}}; naming atoms also with the formatter on. Outputs de-duplicated by text ({} distinct) and type-checked by rustc against real wgpu 24.0.5/bytemuck/encase/serde/glam. Permitted rejections: layout assertions and Pod's padding check when a bytemuck switch is on.", all.len(), cases.len());
    rep.assumptions.push("nalgebra is a stand-in crate; configurations combining Nalgebra with encase are not judged (encase's nalgebra feature needs the real crate)".into());
    rep.assumptions.push("rustc 1.95 / edition 2021 as installed".into());
    rep.finish()
}
