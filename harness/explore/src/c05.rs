//! C05 — bytemuck layout checks make a compiling struct match the WGSL layout.
//! (a) omodel over the whole struct space x 3 representations: assertion literals = reference WGSL
//!     offsets / sizes (three-way with naga's Layouter);
//! (b) L2-exec: every module compiled twice, as generated and with assertions + Pod stripped, to
//!     read the real Rust layout from rustc.
use crate::common::*;
use crate::probe::{self, ProbeCase, Verdict};
use crate::structspace::*;
use serde_json::{json, Value};
use std::collections::BTreeMap;

pub fn reference_layouts(p: &StructProg) -> BTreeMap<String, (u32, Vec<(String, u32)>)> {
    let mut m = BTreeMap::new();
    for s in p.emitted() {
        let def = p.env.get(&s);
        let lay = wgslgen::struct_layout(def, &p.env);
        let offs = def.members.iter().zip(lay.offsets.iter()).filter(|(m, _)| m.attrs.builtin.is_none()).map(|(m, o)| (m.name.clone(), *o)).collect();
        m.insert(s, (lay.size, offs));
    }
    m
}

/// naga's Layouter / member offsets for the same structs.
pub fn naga_layouts(src: &str) -> Result<BTreeMap<String, (u32, Vec<(String, u32)>)>, String> {
    let module = naga::front::wgsl::parse_str(src).map_err(|e| e.emit_to_string(src))?;
    let mut l = naga::proc::Layouter::default();
    l.update(module.to_ctx()).map_err(|e| format!("{e:?}"))?;
    let mut m = BTreeMap::new();
    for (h, t) in module.types.iter() {
        if let naga::TypeInner::Struct { members, .. } = &t.inner {
            m.insert(
                t.name.clone().unwrap_or_default(),
                (l[h].size, members.iter().filter(|m| !matches!(m.binding, Some(naga::Binding::BuiltIn(_)))).map(|m| (m.name.clone().unwrap_or_default(), m.offset)).collect()),
            );
        }
    }
    Ok(m)
}

/// Structs that are host-shareable *and* shader IO (vertex pulling: the vertex struct is also the element
/// type of a storage buffer): members carry @location / @builtin attributes.
pub fn io_host_space() -> Vec<StructProg> {
    use wgslgen::{Member, Scalar, StructDef, Ty};
    let f = Scalar::F32;
    let tys = [Ty::Vec(3, f), Ty::Vec(2, f), Ty::Vec(4, f), Ty::Scalar(f), Ty::Vec(2, Scalar::U32), Ty::Vec(3, Scalar::I32)];
    let mut out = vec![];
    for (i, a) in tys.iter().enumerate() {
        for (j, b) in tys.iter().enumerate() {
            for variant in 0..4 {
                let mut members = vec![Member::located("position", a.clone(), 0), Member::located("uv", b.clone(), 1)];
                if variant == 3 {
                    // locations not ascending in declaration order
                    members = vec![Member::located("scale", Ty::Scalar(f), 2), Member::located("position", a.clone(), 0), Member::located("uv", b.clone(), 1)];
                }
                if variant == 1 {
                    members.push(Member::located("colour", Ty::Vec(4, f), 2));
                }
                if variant == 2 {
                    members.insert(1, Member::builtin("vidx", Ty::Scalar(Scalar::U32), "vertex_index"));
                }
                let mut env = base_env();
                env.add(StructDef { name: "Root".into(), members });
                let mut src = env.get("Root").wgsl(false);
                let (decl, key) = match (i + j + variant) % 3 {
                    0 => ("@group(0) @binding(0) var<storage, read> data: Root;", "direct"),
                    1 => ("@group(0) @binding(0) var<storage, read> data: array<Root>;", "rt-array-element"),
                    _ => ("@group(0) @binding(0) var<storage, read> data: array<Root, 4>;", "array-element"),
                };
                src.push_str(decl);
                let vs_param = "\n@vertex fn vs_main(v: Root) -> @builtin(position) vec4<f32> {\n    return vec4<f32>(0.0);\n}\n";
                let fs_return = "\n@fragment fn fs_main() -> Root {\n    var o: Root;\n    return o;\n}\n";
                out.push(StructProg { key: format!("io-host|{}|{}|variant={variant}|{key}", a.wgsl(), b.wgsl()), env: env.clone(), root: "Root".into(), space: "storage-read", src: format!("{src}{vs_param}") });
                // the struct is (also) a stage output: it is still host-shareable through the buffer, so it is still emitted
                if variant != 2 && (i + j) % 2 == 0 {
                    out.push(StructProg { key: format!("io-host|{}|{}|variant={variant}|{key}|role=fs-return", a.wgsl(), b.wgsl()), env: env.clone(), root: "Root".into(), space: "storage-read", src: format!("{src}{fs_return}") });
                    out.push(StructProg { key: format!("io-host|{}|{}|variant={variant}|{key}|role=vs-param+fs-return", a.wgsl(), b.wgsl()), env, root: "Root".into(), space: "storage-read", src: format!("{src}{vs_param}{fs_return}") });
                }
            }
        }
    }
    out
}

/// The same struct reached from several module-scope variables in different address spaces, in both
/// declaration orders, directly / through an array / nested in another struct.
pub fn multi_var_space() -> Vec<StructProg> {
    use wgslgen::{Member, Scalar, StructDef, Ty};
    let f = Scalar::F32;
    let shapes: Vec<(&str, Vec<Member>)> = vec![
        ("vec3", vec![Member::plain("pos", Ty::Vec(3, f))]),
        ("vec3-f32", vec![Member::plain("pos", Ty::Vec(3, f)), Member::plain("w", Ty::Scalar(f))]),
        ("f32-vec4", vec![Member::plain("k", Ty::Scalar(f)), Member::plain("v", Ty::Vec(4, f))]),
        ("inner", vec![Member::plain("inner", Ty::Struct(INNER.into())), Member::plain("n", Ty::Scalar(Scalar::U32))]),
        ("mat3", vec![Member::plain("m", Ty::Mat(3, 3, f))]),
    ];
    let spaces = ["private", "workgroup", "storage", "uniform"];
    let decl = |space: &str, name: &str, ty: &str, binding: &mut u32| -> String {
        match space {
            "private" => format!("var<private> {name}: {ty};\n"),
            "workgroup" => format!("var<workgroup> {name}: {ty};\n"),
            "storage" => {
                *binding += 1;
                format!("@group(0) @binding({}) var<storage, read_write> {name}: {ty};\n", *binding - 1)
            }
            _ => {
                *binding += 1;
                format!("@group(0) @binding({}) var<uniform> {name}: {ty};\n", *binding - 1)
            }
        }
    };
    let mut out = vec![];
    for (sname, members) in &shapes {
        for a in spaces {
            for b in spaces {
                for reach in ["direct", "array", "nested"] {
                    // uniform arrays need 16-byte strides; keep the array reach for the non-uniform spaces
                    if reach == "array" && (a == "uniform" || b == "uniform") {
                        continue;
                    }
                    let mut env = base_env();
                    env.add(StructDef { name: "Root".into(), members: members.clone() });
                    env.add(StructDef { name: "Holder".into(), members: vec![Member::plain("head", Ty::Vec(4, f)), Member::plain("item", Ty::Struct("Root".into()))] });
                    let mut src = String::new();
                    let mut refs = vec![];
                    Ty::Struct("Holder".into()).struct_refs(&env, &mut refs);
                    for n in env.order.clone() {
                        if refs.contains(&n) && (n != "Holder" || reach == "nested") {
                            src.push_str(&env.get(&n).wgsl(true));
                        }
                    }
                    let first_ty = match reach {
                        "direct" => "Root".to_string(),
                        "array" => "array<Root, 2>".to_string(),
                        _ => "Holder".to_string(),
                    };
                    let mut binding = 0;
                    src.push_str(&decl(a, "first_var", &first_ty, &mut binding));
                    src.push_str(&decl(b, "second_var", "Root", &mut binding));
                    src.push_str("@compute @workgroup_size(1) fn main() {\n}\n");
                    let root = if reach == "nested" { "Holder" } else { "Root" };
                    out.push(StructProg { key: format!("multi-var|{sname}|{a}-then-{b}|{reach}"), env, root: root.into(), space: "storage", src });
                }
            }
        }
    }
    out
}

fn cfg_for(repr: Repr) -> Config {
    Config { bytemuck_host: true, repr, ..Config::default() }
}

/// (a): returns violations (signature strings)
pub fn check_model(p: &StructProg, text: &str) -> Vec<String> {
    let reference = reference_layouts(p);
    let m = omodel::parse(text).unwrap_or_else(|e| machinery(&format!("C05: {e}")));
    let mut out = vec![];
    let mut seen: BTreeMap<(String, Option<String>), u64> = BTreeMap::new();
    for a in &m.top.assertions {
        // "whenever the generated module compiles": the checks are unconditional items
        if !a.attrs.is_empty() {
            out.push(format!("layout assertion for {}.{:?} is conditional: {}", a.struct_name, a.field, a.attrs.join(" ")));
        }
        if seen.insert((a.struct_name.clone(), a.field.clone()), a.expected).is_some() {
            out.push(format!("duplicate assertion for {}.{:?}", a.struct_name, a.field));
        }
    }
    for (s, (size, offs)) in &reference {
        match seen.remove(&(s.clone(), None)) {
            None => out.push(format!("no size assertion for {s}")),
            Some(v) if v != *size as u64 => out.push(format!("size assertion of {s} expects {v}, WGSL size is {size}")),
            _ => {}
        }
        for (f, o) in offs {
            match seen.remove(&(s.clone(), Some(f.clone()))) {
                None => out.push(format!("no offset assertion for {s}.{f}")),
                Some(v) if v != *o as u64 => out.push(format!("offset assertion of {s}.{f} expects {v}, WGSL offset is {o}")),
                _ => {}
            }
        }
    }
    for ((s, f), _) in seen {
        out.push(format!("assertion for something that is not a host-shareable struct member: {s}.{f:?}"));
    }
    out
}

/// Removes the `const _: () = assert!(..)` items and the Pod/Zeroable derives.
pub fn strip_layout_checks(text: &str) -> String {
    use quote::ToTokens;
    let mut file = syn::parse_file(text).unwrap_or_else(|e| machinery(&format!("C05 strip: {e}")));
    file.items.retain(|i| !matches!(i, syn::Item::Const(c) if c.ident == "_"));
    for item in file.items.iter_mut() {
        if let syn::Item::Struct(s) = item {
            for a in s.attrs.iter_mut() {
                if a.path().is_ident("derive") {
                    let mut keep: Vec<syn::Path> = vec![];
                    let _ = a.parse_nested_meta(|m| {
                        let p = m.path.to_token_stream().to_string().replace(' ', "");
                        if p != "bytemuck::Pod" && p != "bytemuck::Zeroable" {
                            keep.push(m.path.clone());
                        }
                        Ok(())
                    });
                    *a = syn::parse_quote!(#[derive(#(#keep),*)]);
                }
            }
        }
    }
    file.to_token_stream().to_string()
}

pub fn layout_probe(p: &StructProg) -> String {
    let mut s = String::new();
    for name in p.emitted() {
        let def = p.env.get(&name);
        let fields: Vec<&wgslgen::Member> = def.members.iter().filter(|m| m.attrs.builtin.is_none()).collect();
        let offs: Vec<String> = fields.iter().map(|m| format!("std::mem::offset_of!(generated::{name}, {})", m.name)).collect();
        let sizes: Vec<String> = fields.iter().map(|m| format!("probe_support::field_size::<generated::{name}, _>(|s| &s.{})", m.name)).collect();
        let names: Vec<String> = fields.iter().map(|m| format!("\\\"{}\\\"", m.name)).collect();
        s.push_str(&format!(
            "    out.push(format!(\"{{{{\\\"op\\\":\\\"layout\\\",\\\"struct\\\":\\\"{name}\\\",\\\"size\\\":{{}},\\\"align\\\":{{}},\\\"fields\\\":[{}],\\\"offsets\\\":{{:?}},\\\"sizes\\\":{{:?}}}}}}\", std::mem::size_of::<generated::{name}>(), std::mem::align_of::<generated::{name}>(), vec![{}] as Vec<usize>, vec![{}] as Vec<usize>));\n",
            names.join(","),
            offs.join(", "),
            sizes.join(", ")
        ));
    }
    s
}

#[derive(Debug, Clone)]
pub struct RealLayout {
    pub size: u64,
    pub fields: Vec<(String, u64, u64)>, // name, offset, size
}

pub fn read_layouts(records: &[Value]) -> BTreeMap<String, RealLayout> {
    let mut m = BTreeMap::new();
    for r in records.iter().filter(|r| r["op"] == "layout") {
        let names: Vec<String> = r["fields"].as_array().unwrap().iter().map(|x| x.as_str().unwrap().to_string()).collect();
        let offs: Vec<u64> = r["offsets"].as_array().unwrap().iter().map(|x| x.as_u64().unwrap()).collect();
        let sizes: Vec<u64> = r["sizes"].as_array().unwrap().iter().map(|x| x.as_u64().unwrap()).collect();
        m.insert(
            r["struct"].as_str().unwrap().to_string(),
            RealLayout { size: r["size"].as_u64().unwrap(), fields: names.into_iter().zip(offs).zip(sizes).map(|((n, o), s)| (n, o, s)).collect() },
        );
    }
    m
}

fn layouts_equal(real: &BTreeMap<String, RealLayout>, reference: &BTreeMap<String, (u32, Vec<(String, u32)>)>) -> Option<String> {
    for (s, (size, offs)) in reference {
        let r = match real.get(s) {
            Some(r) => r,
            None => return Some(format!("{s}: not measured")),
        };
        if r.size != *size as u64 {
            return Some(format!("size of {s}: Rust {} WGSL {size}", r.size));
        }
        for (f, o) in offs {
            match r.fields.iter().find(|x| x.0 == *f) {
                Some(x) if x.1 == *o as u64 => {}
                Some(x) => return Some(format!("offset of {s}.{f}: Rust {} WGSL {o}", x.1)),
                None => return Some(format!("{s}.{f}: not measured")),
            }
        }
    }
    None
}

fn has_padding(real: &BTreeMap<String, RealLayout>) -> bool {
    real.values().any(|r| {
        let mut end = 0;
        let mut fs = r.fields.clone();
        fs.sort_by_key(|f| f.1);
        for f in &fs {
            if f.1 != end {
                return true;
            }
            end = f.1 + f.2;
        }
        end != r.size
    })
}

/// Is the rejection one the property permits (layout assertion / Pod's no-padding check)?
pub fn rejection_kind(errs: &[(String, String)]) -> &'static str {
    let all_layout = errs.iter().all(|(c, m)| c == "E0080" && m.contains("does not match WGSL"));
    if all_layout {
        return "layout-assertion";
    }
    // bytemuck 1.25 reports padding as a const-eval panic; older versions as a transmute size error
    let is_pod = |c: &str, m: &str| c == "E0512" || (c == "E0080" && m.contains("derive(Pod) was applied to a type with padding"));
    let all_permitted = errs.iter().all(|(c, m)| (c == "E0080" && m.contains("does not match WGSL")) || is_pod(c, m));
    if all_permitted {
        return "pod-padding";
    }
    "other"
}

pub fn run(tier: &str) -> i32 {
    let mut rep = Report::new("C05", tier);
    let thorough = rep.thorough();
    let mut progs = struct_space(true, true, true, false);
    progs.extend(io_host_space());
    progs.extend(multi_var_space());
    progs.extend(lookalike_space());
    progs.extend(crate::c06::int64_space());
    progs.extend(big_offset_space());
    progs.extend(named_members_space());
    // declarations-only modules (no entry point): structs reachable from variables are emitted and checked all the same
    {
        let n0 = progs.len();
        for i in 0..n0 {
            if (thorough || i % 9 == 0) && !progs[i].src.contains("@vertex") && !progs[i].src.contains("@fragment") {
                if let Some(src) = without_entry_points(&progs[i].src) {
                    let mut q = progs[i].clone();
                    q.key = format!("no-entry|{}", q.key);
                    q.src = src;
                    progs.push(q);
                }
            }
        }
    }
    // the bound struct (or a struct nested in it) shared with a var<private> / var<workgroup> declared before or after
    {
        let n0 = progs.len();
        for i in 0..n0 {
            if (thorough && i % 5 == 0) || i % 37 == 0 || progs[i].key == "s1|Inner" || progs[i].key == "s1|Deep" {
                let v = sibling_variants(&progs[i]);
                progs.extend(v);
            }
        }
    }
    // member / element types written through `alias` declarations
    {
        let n0 = progs.len();
        for i in 0..n0 {
            if thorough || i % 11 == 0 {
                let v = alias_variants(&progs[i]);
                progs.extend(v);
            }
        }
    }
    // the same structs among declarations that produce no Rust struct (an unused struct, a function-local one, a
    // stage-output struct), placed before all structs and between them: sizes and offsets are per struct, whatever
    // else the module declares
    {
        let extra_structs = "struct NotEmittedSmall { x: f32 };\nstruct NotEmittedBig { a: mat4x4<f32>, b: vec3<f32>, c: f32 };\nstruct VsOutOnly { @builtin(position) p: vec4<f32>, @location(0) c: vec2<f32> };\n";
        let extra_fns = "fn uses_local() -> f32 { var l: NotEmittedBig; return l.c; }\n@vertex fn vs_extra_out() -> VsOutOnly { var o: VsOutOnly; o.c = vec2<f32>(uses_local()); return o; }\n";
        let n0 = progs.len();
        for i in 0..n0 {
            let forced = progs[i].key.starts_with("s2|vec3<f32>|f32") || progs[i].key.starts_with("io-host|") || progs[i].key.starts_with("multi-var|");
            if !(thorough || i % 7 == 0 || forced) {
                continue;
            }
            for place in ["before", "between"] {
                let mut p = progs[i].clone();
                let at = if place == "before" { 0 } else { p.src.rfind("struct ").unwrap_or(0) };
                p.src.insert_str(at, extra_structs);
                p.src.push_str(extra_fns);
                p.key = format!("neighbours-{place}|{}", p.key);
                progs.push(p);
            }
        }
    }
    // ---- (a) whole space x 3 representations
    let reprs = [Repr::Rust, Repr::Glam, Repr::Nalgebra];
    let items: Vec<(usize, Repr)> = (0..progs.len()).flat_map(|i| reprs.iter().map(move |r| (i, *r))).collect();
    let res = par_map(&items, |(i, r)| {
        let p = &progs[*i];
        let reference = reference_layouts(p);
        // three-way rule: reference vs naga
        match naga_layouts(&p.src) {
            Ok(n) => {
                for (s, v) in &reference {
                    if n.get(s) != Some(v) {
                        machinery(&format!("C05 oracle self-disagreement on {s} in {}: reference {v:?} naga {:?}\n{}", p.key, n.get(s), p.src));
                    }
                }
            }
            Err(e) => return (None, vec![format!("<naga rejects: {}>", e.lines().next().unwrap_or(""))]),
        }
        match generate(&p.src, &cfg_for(*r)) {
            Outcome::Ok(t) => {
                let mut v = check_model(p, &t);
                // "with bytemuck host-shareable derives enabled" - whatever the other switches say (every 4th program in quick)
                if thorough || *i % 4 == 0 || p.key.contains("vec3<f32>") && p.key.starts_with("s2|") {
                    let alt = Config { bytemuck_host: true, bytemuck_vertex: true, encase: true, serde: true, repr: *r, ..Config::default() };
                    match generate(&p.src, &alt) {
                        Outcome::Ok(t2) => v.extend(check_model(p, &t2).into_iter().map(|x| format!("[{}] {x}", alt.key()))),
                        other => v.push(format!("[{}] generation fails: {}", alt.key(), other.class().chars().take(80).collect::<String>())),
                    }
                }
                (Some(t), v)
            }
            other => (None, vec![format!("<generator not Ok>{}", other.class())]),
        }
    });
    for ((i, r), (text, viols)) in items.iter().zip(res.iter()) {
        let p = &progs[*i];
        rep.states += 1;
        rep.transitions += p.env.get(&p.root).members.len() as u64;
        rep.evaluations += 1;
        if text.is_none() {
            match viols[0].strip_prefix("<generator not Ok>") {
                Some(class) => rep.generation_failed(format!("{}|{r:?}", p.key), class, &p.src, &cfg_for(*r)),
                None => rep.filtered(&viols[0]),
            }
            continue;
        }
        rep.nontrivial.insert(hash64(&format!("{}{r:?}", p.src)));
        for v in viols {
            rep.violation(format!("{}|{r:?}", p.key), format!("model: {v}"), json!({"wgsl": p.src, "config": cfg_for(*r).key(), "observed": v}));
        }
    }
    // ---- (b) compiled subset
    // thorough: an evenly spread 12 000 of the (program, representation) pairs are compiled and executed
    let stride = if thorough { (items.len() / 12_000).max(1) } else { (items.len() / 260).max(1) };
    let mut cases = vec![];
    let mut index: BTreeMap<String, (usize, Repr)> = BTreeMap::new();
    for (k, ((i, r), (text, _))) in items.iter().zip(res.iter()).enumerate() {
        let p = &progs[*i];
        let forced = p.key.starts_with("attr|") || p.key.starts_with("big-offset|") || (p.key.starts_with("io-host|") && k % 5 == 0) || (p.key.starts_with("multi-var|") && k % 11 == 0) || p.key.starts_with("s2|vec3<f32>|f32") || p.key.starts_with("s2|f32|vec3<f32>");
        if !(k % stride == 0 || (forced && !thorough && *r != Repr::Nalgebra)) {
            continue;
        }
        let text = match text {
            Some(t) => t,
            None => continue,
        };
        let base = format!("c_{i:05}_{}", format!("{r:?}").to_lowercase());
        index.insert(base.clone(), (*i, *r));
        let body = layout_probe(p);
        cases.push(ProbeCase { name: format!("{base}_g"), generated: text.clone(), probe_body: body.clone(), probe_items: String::new(), files: vec![] });
        cases.push(ProbeCase { name: format!("{base}_s"), generated: strip_layout_checks(text), probe_body: body, probe_items: String::new(), files: vec![] });
    }
    let results = probe::run_batch("C05", &cases, true);
    let by_name: BTreeMap<String, &probe::CaseResult> = results.iter().map(|r| (r.name.clone(), r)).collect();
    for (base, (i, r)) in &index {
        let p = &progs[*i];
        let g = by_name[&format!("{base}_g")];
        let s = by_name[&format!("{base}_s")];
        let case = format!("{}|{r:?}", p.key);
        let reference = reference_layouts(p);
        let detail = |obs: String| json!({"wgsl": p.src, "config": cfg_for(*r).key(), "observed": obs});
        if s.check != Verdict::Accepted || !s.executed {
            // the stripped module must compile; if it does not, the defect is C01's, and C05 cannot measure
            rep.filtered("stripped module does not compile (C01's domain)");
            continue;
        }
        rep.traces_validated += 1;
        let real = read_layouts(&s.records);
        let mismatch = layouts_equal(&real, &reference);
        let padded = has_padding(&real);
        match &g.check {
            Verdict::Accepted => {
                rep.outcomes.insert("accepted".into());
                // accepted => the layout rustc really gives equals the WGSL layout
                let real_g = read_layouts(&g.records);
                if let Some(m) = layouts_equal(&real_g, &reference) {
                    rep.violation(case.clone(), format!("module compiles but the Rust layout differs from WGSL: {m}"), detail(m.clone()));
                }
                if let Some(m) = &mismatch {
                    rep.violation(case.clone(), format!("module compiles although (measured without the checks) {m}"), detail(m.clone()));
                }
            }
            Verdict::Rejected(errs) => {
                let kind = rejection_kind(errs);
                rep.outcomes.insert(format!("rejected:{kind}"));
                if mismatch.is_none() && !padded {
                    rep.violation(case.clone(), format!("Rust layout equals WGSL and has no padding, yet the module is rejected ({kind}): {} {}", errs[0].0, errs[0].1.chars().take(80).collect::<String>()), detail(format!("{errs:?}")));
                } else if kind == "other" {
                    // some other compile error: not this property's statement (C01 decides), but it hides the check
                    rep.filtered("rejected for a reason other than the layout checks (C01's domain)");
                    let other: Vec<&(String, String)> = errs.iter().filter(|(c, m)| !((c == "E0080" && (m.contains("does not match WGSL") || m.contains("derive(Pod)"))) || c == "E0512")).collect();
                    rep.count(&format!("other rejection: {} {}", other[0].0, other[0].1.chars().take(90).collect::<String>()));
                } else if mismatch.is_none() && kind == "layout-assertion" {
                    rep.violation(case.clone(), "a layout assertion fires although every offset and the size equal WGSL".to_string(), detail(format!("{errs:?}")));
                }
            }
            Verdict::ProbeMismatch(e) => machinery(&format!("C05: probe code does not compile for {case}: {e:?}")),
        }
    }
    rep.set("compiled_modules", json!(index.len()));
    for i in [3usize, progs.len() / 2, progs.len() - 2] {
        rep.sample(json!({"key": progs[i].key, "wgsl": progs[i].src, "reference_layout": format!("{:?}", reference_layouts(&progs[i]))}));
    }
    rep.rule = format!("struct space: all 1-field and 2-field structs over the leaf table ({} leaves: scalars, atomics, vec2-4 of i32/u32/f32/f64, all 9 matrix shapes in f32 and f64, fixed arrays of scalar/vec3/vec4/mat3x3/mat4x4/struct/array, nested structs one and two deep), 3-field structs over 8 representatives, members with @size/@align; bound as var<storage>; x Rust/Glam/Nalgebra with the bytemuck host-shareable switch on. (a) every state: emitted assertion literals = reference WGSL offsets/size (reference cross-checked with naga's Layouter per state). (b) compiled {}: each module as generated and with assertions+Pod stripped; accepted => rustc's offset_of/size_of = WGSL; measured layout != WGSL => rejected; equal and unpadded => accepted. traces_validated = modules whose real layout was measured through rustc.", leaf_table(true).len(), if thorough { "for the whole space" } else { "for an evenly spread subset plus the @size/@align and vec3/f32 packing cases" });
    rep.assumptions.push("nalgebra is a layout-faithful stand-in (column-major repr(transparent) arrays); glam/bytemuck are the real crates".into());
    rep.finish()
}
