//! C04 — named bind group fields reach their own slot; groups bind at their own index.
//! Declaration sequences (order is state): groups, sparse / unordered binding indices, all
//! interleavings of declaration order, rotating resource kinds. Observed through omodel (whole
//! space) and by executing the generated code on the recording stand-in (subset, also type-checked
//! against the real wgpu).
use crate::common::*;
use crate::probe::{self, ProbeCase, Verdict};
use serde_json::{json, Value};
use std::collections::BTreeMap;

#[derive(Clone, Copy, Debug, PartialEq, Eq, Hash, PartialOrd, Ord)]
pub enum Kind {
    Uniform,
    Storage,
    Texture,
    StorageTexture,
    Sampler,
    /// `array<atomic<u32>, 4>` in a storage buffer
    AtomicArray,
    /// a storage variable whose own type is `atomic<u32>` (the generator refuses it on this tree; a tree that accepts
    /// it owes it a field, a layout entry and a bind group entry like any other variable)
    AtomicTop,
}
const KINDS: [Kind; 5] = [Kind::Uniform, Kind::Storage, Kind::Texture, Kind::StorageTexture, Kind::Sampler];

impl Kind {
    fn decl(self, name: &str, g: u32, b: u32) -> String {
        let at = format!("@group({g}) @binding({b})");
        match self {
            Kind::Uniform => format!("{at} var<uniform> {name}: vec4<f32>;\n"),
            Kind::Storage => format!("{at} var<storage, read_write> {name}: array<f32>;\n"),
            Kind::Texture => format!("{at} var {name}: texture_2d<f32>;\n"),
            Kind::StorageTexture => format!("{at} var {name}: texture_storage_2d<rgba8unorm, write>;\n"),
            Kind::Sampler => format!("{at} var {name}: sampler;\n"),
            Kind::AtomicArray => format!("{at} var<storage, read_write> {name}: array<atomic<u32>, 4>;\n"),
            Kind::AtomicTop => format!("{at} var<storage, read_write> {name}: atomic<u32>;\n"),
        }
    }
    fn field_type(self) -> &'static str {
        match self {
            Kind::Uniform | Kind::Storage | Kind::AtomicArray | Kind::AtomicTop => "wgpu::BufferBinding<'a>",
            Kind::Texture | Kind::StorageTexture => "&'awgpu::TextureView",
            Kind::Sampler => "&'awgpu::Sampler",
        }
    }
    fn resource(self) -> &'static str {
        match self {
            Kind::Uniform | Kind::Storage | Kind::AtomicArray | Kind::AtomicTop => "Buffer",
            Kind::Texture | Kind::StorageTexture => "TextureView",
            Kind::Sampler => "Sampler",
        }
    }
}

#[derive(Clone, Debug)]
pub struct Var {
    pub name: String,
    pub group: u32,
    pub binding: u32,
    pub kind: Kind,
}

#[derive(Clone, Debug)]
pub struct Prog {
    pub key: String,
    pub vars: Vec<Var>, // declaration order
    pub src: String,
}

// several identifier styles: fields are named after the variables exactly
const NAME_POOL: [&str; 12] = ["zeta", "alpha", "baseColor", "beta", "PerMaterial", "gamma", "delta", "MVP", "eps", "rho", "tau_x", "phi"];

/// `decl_order`: list of (group, binding) in declaration order.
pub fn build(decl_order: &[(u32, u32)], kind_offset: usize, key: String) -> Prog {
    build_with_unbound(decl_order, kind_offset, 0, key)
}

/// `unbound`: 0 none; 1 an unbound module-scope variable before every resource; 2 after the first resource only;
/// 3 a push constant between the resources.
pub fn build_with_unbound(decl_order: &[(u32, u32)], kind_offset: usize, unbound: u8, key: String) -> Prog {
    let mut vars = vec![];
    let mut src = String::new();
    for (i, (g, b)) in decl_order.iter().enumerate() {
        match unbound {
            1 => src.push_str(&format!("var<private> unbound_{i}: vec4<f32>;\n")),
            2 if i == 1 => src.push_str("var<workgroup> unbound_wg: array<u32, 4>;\n"),
            3 if i == 1 => src.push_str("var<push_constant> unbound_pc: vec4<f32>;\n"),
            _ => {}
        }
        let kind = KINDS[(i + kind_offset) % KINDS.len()];
        let name = format!("{}_{}", NAME_POOL[(i * 5 + kind_offset) % NAME_POOL.len()], i);
        src.push_str(&kind.decl(&name, *g, *b));
        vars.push(Var { name, group: *g, binding: *b, kind });
    }
    src.push_str("@compute @workgroup_size(1) fn main() {\n}\n@fragment fn fs_main() {\n}\n");
    Prog { key, vars, src }
}

fn groups_of(p: &Prog) -> BTreeMap<u32, Vec<&Var>> {
    let mut m: BTreeMap<u32, Vec<&Var>> = BTreeMap::new();
    for v in &p.vars {
        m.entry(v.group).or_default().push(v);
    }
    m
}

/// omodel oracle for one program. Returns violations as (signature).
pub fn check_model(p: &Prog, text: &str) -> Vec<String> {
    let mut out = vec![];
    let m = omodel::parse(text).unwrap_or_else(|e| machinery(&format!("C04: {e}")));
    let bg = match m.bind_groups() {
        Ok(b) => b,
        Err(omodel::interp::UnknownName::Missing(v)) => return vec![format!("bind group without its own items: {v}")],
        Err(e) => machinery(&format!("C04 {}: {e}", p.key)),
    };
    let want = groups_of(p);
    let got_groups: Vec<u32> = bg.groups.iter().map(|g| g.index).collect();
    let want_groups: Vec<u32> = want.keys().copied().collect();
    if got_groups != want_groups {
        out.push(format!("groups emitted {got_groups:?} declared {want_groups:?}"));
        return out;
    }
    for g in &bg.groups {
        let n = g.index;
        let vars = &want[&n];
        // fields: exactly one per variable, named after it, typed by kind
        let mut want_fields: Vec<(String, String)> = vars.iter().map(|v| (v.name.clone(), v.kind.field_type().to_string())).collect();
        let mut got_fields: Vec<(String, String)> = g.resource_fields.iter().map(|f| (f.name.clone(), f.ty.clone())).collect();
        want_fields.sort();
        got_fields.sort();
        if want_fields != got_fields {
            out.push(format!("group {n}: resource struct fields {got_fields:?} expected {want_fields:?}"));
        }
        // entries: field x -> @binding of x, resource kind by kind; exactly the layout's indices
        let mut want_entries: Vec<(u64, String, String)> = vars.iter().map(|v| (v.binding as u64, v.kind.resource().to_string(), v.name.clone())).collect();
        let mut got_entries: Vec<(u64, String, String)> = g.from_bindings_entries.iter().map(|e| (e.binding, e.resource_kind.clone(), e.field.clone())).collect();
        want_entries.sort();
        got_entries.sort();
        if want_entries != got_entries {
            out.push(format!("group {n}: bind group entries {got_entries:?} expected {want_entries:?}"));
        }
        let mut layout_idx: Vec<u64> = g.layout_entries.iter().map(|e| e.binding as u64).collect();
        layout_idx.sort();
        let mut entry_idx: Vec<u64> = g.from_bindings_entries.iter().map(|e| e.binding).collect();
        entry_idx.sort();
        if layout_idx != entry_idx {
            out.push(format!("group {n}: entry indices {entry_idx:?} differ from layout indices {layout_idx:?}"));
        }
        let lc = format!("LAYOUT_DESCRIPTOR{n}");
        if g.from_bindings_layout_uses != vec![lc.clone()] || !g.from_bindings_layout_is_local {
            out.push(format!("group {n}: from_bindings builds its layout from {:?} (local: {})", g.from_bindings_layout_uses, g.from_bindings_layout_is_local));
        }
        if g.get_layout_uses != vec![lc.clone()] {
            out.push(format!("group {n}: get_bind_group_layout uses {:?}", g.get_layout_uses));
        }
        if !g.from_bindings_param_ty.starts_with(&format!("BindGroupLayout{n}")) {
            out.push(format!("group {n}: from_bindings takes {}", g.from_bindings_param_ty));
        }
        // set: exactly once at index n with the wrapped group and no offsets
        let ok_set = g.set_calls.len() == 1 && g.set_calls[0].0 == n as u64 && format!("{:?}", g.set_calls[0].1).contains("Field(Path([\"self\"]), \"0\")") && matches!(g.set_calls[0].2.unref(), omodel::Val::Array(a) if a.is_empty());
        if !ok_set {
            out.push(format!("group {n}: set() issues {:?}", g.set_calls.iter().map(|c| c.0).collect::<Vec<_>>()));
        }
    }
    // BindGroups struct and its set
    let want_bgs: Vec<(String, String)> = want_groups.iter().map(|n| (format!("bind_group{n}"), format!("&'aBindGroup{n}"))).collect();
    let got_bgs: Vec<(String, String)> = bg.bind_groups_fields.iter().map(|f| (f.name.clone(), f.ty.clone())).collect();
    if want_bgs != got_bgs {
        out.push(format!("BindGroups fields {got_bgs:?} expected {want_bgs:?}"));
    }
    let recv_names = |calls: &[omodel::Val], with_self: bool| -> Vec<String> {
        calls
            .iter()
            .map(|c| match c {
                omodel::Val::Field(base, f) if with_self && matches!(&**base, omodel::Val::Path(p) if p.len() == 1 && p[0] == "self") => f.clone(),
                omodel::Val::Path(p) if !with_self && p.len() == 1 => p[0].clone(),
                other => format!("?{other:?}"),
            })
            .collect()
    };
    let mut a = recv_names(&bg.bind_groups_set_calls, true);
    a.sort();
    let mut want_names: Vec<String> = want_groups.iter().map(|n| format!("bind_group{n}")).collect();
    want_names.sort();
    if a != want_names {
        out.push(format!("BindGroups::set sets {a:?} expected {want_names:?}"));
    }
    let mut b = recv_names(&bg.set_bind_groups_calls, false);
    b.sort();
    if b != want_names {
        out.push(format!("set_bind_groups sets {b:?} expected {want_names:?}"));
    }
    let params: Vec<(String, String)> = bg.set_bind_groups_params.iter().skip(1).cloned().collect();
    let want_params: Vec<(String, String)> = want_groups.iter().map(|n| (format!("bind_group{n}"), format!("&bind_groups::BindGroup{n}"))).collect();
    if params != want_params {
        out.push(format!("set_bind_groups parameters {params:?} expected {want_params:?}"));
    }
    let mut impls: Vec<(String, bool)> = bg.set_bind_group_impls.clone();
    impls.sort();
    let want_impls = vec![("wgpu::ComputePass<'_>".to_string(), true), ("wgpu::RenderBundleEncoder<'_>".to_string(), true), ("wgpu::RenderPass<'_>".to_string(), true)];
    if impls != want_impls {
        out.push(format!("SetBindGroup impls {impls:?}"));
    }
    let pl = m.pipeline_layout().unwrap_or_else(|e| machinery(&format!("C04: {e}")));
    if pl.group_order != want_groups {
        out.push(format!("pipeline layout lists {:?} expected {want_groups:?}", pl.group_order));
    }
    out
}

/// Probe code: build every group from tagged resources, set it on every pass type through all three
/// routes, create the pipeline layout.
pub fn probe_code(p: &Prog) -> String {
    let want = groups_of(p);
    let mut s = String::new();
    s.push_str("    use generated::*;\n");
    let mut tag = 0usize;
    for (n, vars) in &want {
        s.push_str(&format!("    let bg{n} = bind_groups::BindGroup{n}::from_bindings(device, bind_groups::BindGroupLayout{n} {{\n"));
        for v in vars {
            let i = tag % 16;
            match v.kind {
                Kind::Uniform | Kind::Storage | Kind::AtomicArray | Kind::AtomicTop => s.push_str(&format!("        {}: wgpu::BufferBinding {{ buffer: &res.buffers[{i}], offset: {}, size: None }},\n", v.name, 256 * (tag / 16))),
                Kind::Texture | Kind::StorageTexture => s.push_str(&format!("        {}: &res.views[{i}],\n", v.name)),
                Kind::Sampler => s.push_str(&format!("        {}: &res.samplers[{i}],\n", v.name)),
            }
            tag += 1;
        }
        s.push_str("    });\n");
    }
    // route 1: each group's own set(), on the three pass types
    for n in want.keys() {
        s.push_str(&format!("    bg{n}.set(&mut passes.compute[0]);\n    bg{n}.set(&mut passes.render[0]);\n    bg{n}.set(&mut passes.bundle[0]);\n"));
    }
    // route 2: set_bind_groups
    let args: Vec<String> = want.keys().map(|n| format!("&bg{n}")).collect();
    for pass in ["compute", "render", "bundle"] {
        s.push_str(&format!("    set_bind_groups(&mut passes.{pass}[1], {});\n", args.join(", ")));
    }
    // route 3: BindGroups::set
    let fields: Vec<String> = want.keys().map(|n| format!("bind_group{n}: &bg{n}")).collect();
    s.push_str(&format!("    let all = bind_groups::BindGroups {{ {} }};\n", fields.join(", ")));
    for pass in ["compute", "render", "bundle"] {
        s.push_str(&format!("    all.set(&mut passes.{pass}[2]);\n"));
    }
    s.push_str("    out.push(\"{\\\"op\\\":\\\"marker\\\",\\\"what\\\":\\\"before_pipeline_layout\\\"}\".to_string());\n");
    s.push_str("    let _pl = create_pipeline_layout(device);\n");
    s
}

/// Expected tags per group/binding in the order `probe_code` hands them out.
fn expected_tags(p: &Prog) -> BTreeMap<(u32, u32), (String, String)> {
    let want = groups_of(p);
    let mut tag = 0usize;
    let mut m = BTreeMap::new();
    for (n, vars) in &want {
        for v in vars {
            let i = tag % 16;
            let t = match v.kind {
                Kind::Uniform | Kind::Storage | Kind::AtomicArray | Kind::AtomicTop => ("Buffer".to_string(), format!("{}:{}:None", 100 + i, 256 * (tag / 16))),
                Kind::Texture | Kind::StorageTexture => ("TextureView".to_string(), format!("{}", 200 + i)),
                Kind::Sampler => ("Sampler".to_string(), format!("{}", 300 + i)),
            };
            m.insert((*n, v.binding), t);
            tag += 1;
        }
    }
    m
}

/// Oracle on the execution records. Also returns the layout entries (Debug strings) per group for conformance.
pub fn check_exec(p: &Prog, records: &[Value]) -> (Vec<String>, BTreeMap<u32, Vec<String>>) {
    let mut out = vec![];
    let want = groups_of(p);
    let tags = expected_tags(p);
    let mut layouts: BTreeMap<u64, (String, Vec<String>)> = BTreeMap::new();
    let mut groups_by_label: BTreeMap<String, &Value> = BTreeMap::new();
    let mut pipeline: Option<&Value> = None;
    for r in records {
        match r["op"].as_str() {
            Some("create_bind_group_layout") => {
                layouts.insert(r["id"].as_u64().unwrap(), (r["label"].as_str().unwrap_or("").to_string(), r["entries"].as_array().unwrap().iter().map(|e| e.as_str().unwrap().to_string()).collect()));
            }
            Some("create_bind_group") => {
                if groups_by_label.insert(r["label"].as_str().unwrap_or("").to_string(), r).is_some() {
                    out.push(format!("bind group {} created twice", r["label"]));
                }
            }
            Some("create_pipeline_layout") => pipeline = Some(r),
            _ => {}
        }
    }
    let mut group_ids: BTreeMap<u32, u64> = BTreeMap::new();
    let mut exec_layout_entries = BTreeMap::new();
    for (n, vars) in &want {
        let r = match groups_by_label.get(&format!("BindGroup{n}")) {
            Some(r) => *r,
            None => {
                out.push(format!("no bind group labelled BindGroup{n} was created"));
                continue;
            }
        };
        group_ids.insert(*n, r["id"].as_u64().unwrap());
        let lay = &layouts[&r["layout"].as_u64().unwrap()];
        if lay.0 != format!("LayoutDescriptor{n}") {
            out.push(format!("group {n} was created with layout `{}`", lay.0));
        }
        exec_layout_entries.insert(*n, lay.1.clone());
        let mut got: Vec<(u64, String, String)> = r["entries"].as_array().unwrap().iter().map(|e| (e["binding"].as_u64().unwrap(), e["kind"].as_str().unwrap().to_string(), e["tag"].as_str().unwrap().to_string())).collect();
        got.sort();
        let mut exp: Vec<(u64, String, String)> = vars.iter().map(|v| {
            let t = &tags[&(*n, v.binding)];
            (v.binding as u64, t.0.clone(), t.1.clone())
        }).collect();
        exp.sort();
        if got != exp {
            out.push(format!("group {n}: resources reached slots {got:?}, expected {exp:?}"));
        }
    }
    // passes
    if let Some(pr) = records.iter().find(|r| r["op"] == "passes") {
        let mut exp_calls: Vec<(u64, u64)> = group_ids.iter().map(|(n, id)| (*n as u64, *id)).collect();
        exp_calls.sort();
        for pass in ["compute", "render", "bundle"] {
            for (route, rname) in ["set", "set_bind_groups", "BindGroups::set"].iter().enumerate() {
                let mut got: Vec<(u64, u64)> = pr[pass][route].as_array().unwrap().iter().map(|c| (c[0].as_u64().unwrap(), c[1].as_u64().unwrap_or(u64::MAX))).collect();
                let offs: u64 = pr[pass][route].as_array().unwrap().iter().map(|c| c[2].as_u64().unwrap()).sum();
                got.sort();
                if got != exp_calls || offs != 0 {
                    out.push(format!("{rname} on {pass} pass issued set_bind_group calls (index, group id) {got:?}, expected {exp_calls:?}"));
                }
            }
        }
    } else {
        out.push("no pass record".into());
    }
    match pipeline {
        Some(pl) => {
            let ids: Vec<u64> = pl["bind_group_layouts"].as_array().unwrap().iter().map(|x| x.as_u64().unwrap()).collect();
            let labels: Vec<String> = ids.iter().map(|i| layouts.get(i).map(|l| l.0.clone()).unwrap_or_default()).collect();
            let exp: Vec<String> = want.keys().map(|n| format!("LayoutDescriptor{n}")).collect();
            if labels != exp {
                out.push(format!("pipeline layout lists {labels:?}, expected {exp:?}"));
            }
        }
        None => out.push("no pipeline layout created".into()),
    }
    (out, exec_layout_entries)
}

fn interleavings(groups: &[Vec<(u32, u32)>]) -> Vec<Vec<(u32, u32)>> {
    // all merges preserving each group's internal order
    fn rec(groups: &[Vec<(u32, u32)>], pos: &mut Vec<usize>, cur: &mut Vec<(u32, u32)>, out: &mut Vec<Vec<(u32, u32)>>) {
        let mut done = true;
        for g in 0..groups.len() {
            if pos[g] < groups[g].len() {
                done = false;
                cur.push(groups[g][pos[g]]);
                pos[g] += 1;
                rec(groups, pos, cur, out);
                pos[g] -= 1;
                cur.pop();
            }
        }
        if done {
            out.push(cur.clone());
        }
    }
    let mut out = vec![];
    rec(groups, &mut vec![0; groups.len()], &mut vec![], &mut out);
    out
}

fn binding_seqs(pool: &[u32], max_len: usize) -> Vec<Vec<u32>> {
    let mut out = vec![];
    fn rec(pool: &[u32], max_len: usize, cur: &mut Vec<u32>, out: &mut Vec<Vec<u32>>) {
        if !cur.is_empty() {
            out.push(cur.clone());
        }
        if cur.len() == max_len {
            return;
        }
        for b in pool {
            if !cur.contains(b) {
                cur.push(*b);
                rec(pool, max_len, cur, out);
                cur.pop();
            }
        }
    }
    rec(pool, max_len, &mut vec![], &mut out);
    out
}

pub fn space(thorough: bool) -> Vec<Prog> {
    let mut out = vec![];
    let mut n = 0usize;
    // one group: every sequence without repetition of length 1..3 over {0,1,2,5,9}
    for seq in binding_seqs(&[0, 1, 2, 5, 9], 3) {
        for off in 0..if thorough { 5 } else { 2 } {
            let order: Vec<(u32, u32)> = seq.iter().map(|b| (0, *b)).collect();
            out.push(build(&order, off, format!("g1|{seq:?}|k{off}")));
        }
    }
    // two and three groups: per-group sequences of length <= 2 over {0,2,5}; all interleavings
    let small = binding_seqs(&[0, 2, 5], 2);
    for a in &small {
        for b in &small {
            let ga: Vec<(u32, u32)> = a.iter().map(|x| (0, *x)).collect();
            let gb: Vec<(u32, u32)> = b.iter().map(|x| (1, *x)).collect();
            for il in interleavings(&[ga.clone(), gb.clone()]) {
                n += 1;
                out.push(build(&il, n % 5, format!("g2|{a:?}|{b:?}|{}", il.iter().map(|(g, _)| g.to_string()).collect::<String>())));
            }
        }
    }
    let tiny = binding_seqs(&[1, 4], if thorough { 2 } else { 1 });
    for a in &tiny {
        for b in &tiny {
            for c in &tiny {
                let gs = [a.iter().map(|x| (0u32, *x)).collect::<Vec<_>>(), b.iter().map(|x| (1u32, *x)).collect(), c.iter().map(|x| (2u32, *x)).collect()];
                for il in interleavings(&gs) {
                    n += 1;
                    out.push(build(&il, n % 5, format!("g3|{a:?}|{b:?}|{c:?}|{}", il.iter().map(|(g, _)| g.to_string()).collect::<String>())));
                }
            }
        }
    }
    // unbound module-scope variables (private / workgroup / push constant) between the resource declarations
    for a in &small {
        for b in &small {
            for unbound in 1..=3u8 {
                let ga: Vec<(u32, u32)> = a.iter().map(|x| (0, *x)).collect();
                let gb: Vec<(u32, u32)> = b.iter().map(|x| (1, *x)).collect();
                let mut il = ga.clone();
                il.extend(gb.clone());
                n += 1;
                out.push(build_with_unbound(&il, n % 5, unbound, format!("unbound{unbound}|{a:?}|{b:?}")));
            }
        }
    }
    // groups of identical shape (same bindings, kinds and address spaces in the same order) and near-identical ones:
    // each group still owns its layout, its resource struct and its slot
    for k in 2..=4u32 {
        for per in 1..=2usize {
            for kind_off in 0..if thorough { KINDS.len() } else { 3 } {
                for odd in [None, Some(k - 1), Some(0)] {
                    let mut vars = vec![];
                    let mut src = String::new();
                    let mut i = 0usize;
                    for g in 0..k {
                        for j in 0..per {
                            // the odd group out (if any) shifts its kinds by one
                            let kind = KINDS[(j + kind_off + (odd == Some(g)) as usize) % KINDS.len()];
                            let name = format!("{}_{}", NAME_POOL[(i * 5 + kind_off) % NAME_POOL.len()], i);
                            src.push_str(&kind.decl(&name, g, (j * 3) as u32));
                            vars.push(Var { name, group: g, binding: (j * 3) as u32, kind });
                            i += 1;
                        }
                    }
                    src.push_str("@compute @workgroup_size(1) fn main() {\n}\n@fragment fn fs_main() {\n}\n");
                    out.push(Prog { key: format!("twins|k={k}|per={per}|kinds={kind_off}|odd={odd:?}"), vars, src });
                }
            }
        }
    }
    // large binding indices (byte, u16 and i32 boundaries): every ordered pair in one group, and spread over two groups
    let big: [u32; 8] = [0, 255, 256, 257, 1000, 65535, 65536, 2147483647];
    for (i, a) in big.iter().enumerate() {
        for (j, b) in big.iter().enumerate() {
            if a == b {
                continue;
            }
            out.push(build(&[(0, *a), (0, *b)], i + j, format!("big|one-group|{a}|{b}")));
            if i < j {
                out.push(build(&[(1, *a), (0, *b), (1, *b)], i * 3 + j, format!("big|two-groups|{a}|{b}")));
            }
        }
    }
    // wide: 70 variables in one group (shuffled binding order) and 70 groups of one variable
    {
        let order: Vec<(u32, u32)> = (0..70u32).map(|i| (0, (i * 37) % 70)).collect();
        out.push(build(&order, 1, "wide|one-group|70".to_string()));
        let groups: Vec<(u32, u32)> = (0..70u32).rev().map(|g| (g, g % 3)).collect();
        out.push(build(&groups, 2, "wide|70-groups".to_string()));
    }
    // rarely used resource types next to ordinary ones: in the middle of a group, alone in the last group, alone in a
    // middle group
    for rare in [Kind::AtomicArray, Kind::AtomicTop] {
        let layouts: [&[(u32, u32, Option<Kind>)]; 4] = [
            &[(0, 0, Some(Kind::Uniform)), (0, 1, None), (0, 2, Some(Kind::Texture))],
            &[(0, 0, Some(Kind::Uniform)), (1, 0, None)],
            &[(0, 0, Some(Kind::Uniform)), (1, 0, None), (2, 0, Some(Kind::Sampler))],
            &[(0, 3, None), (0, 1, Some(Kind::Storage))],
        ];
        for (li, l) in layouts.iter().enumerate() {
            let mut vars = vec![];
            let mut src = String::new();
            for (i, (g, b, k)) in l.iter().enumerate() {
                let kind = k.unwrap_or(rare);
                let name = format!("{}_{}", NAME_POOL[(i * 5 + li) % NAME_POOL.len()], i);
                src.push_str(&kind.decl(&name, *g, *b));
                vars.push(Var { name, group: *g, binding: *b, kind });
            }
            src.push_str("@compute @workgroup_size(1) fn main() {\n}\n@fragment fn fs_main() {\n}\n");
            out.push(Prog { key: format!("rare|{rare:?}|layout={li}"), vars, src });
        }
    }
    // up to 8 groups, one variable each, every rotation and the reversed declaration order
    for g in 4..=8u32 {
        let base: Vec<(u32, u32)> = (0..g).map(|i| (i, (i * 3) % 7)).collect();
        for r in 0..g as usize {
            let mut v = base.clone();
            v.rotate_left(r);
            out.push(build(&v, r, format!("g{g}|rot{r}")));
            v.reverse();
            out.push(build(&v, r + 1, format!("g{g}|rot{r}rev")));
        }
    }
    // counts: n variables in one group / n groups, around the powers of two
    for n in [15u32, 16, 17, 31, 32, 33, 63, 64, 65, 129] {
        let order: Vec<(u32, u32)> = (0..n).map(|i| (0, (i * 7) % n)).collect();
        out.push(build(&order, n as usize, format!("count|one-group|{n}")));
        let groups: Vec<(u32, u32)> = (0..n).map(|g| (g, g % 2)).collect();
        out.push(build(&groups, n as usize + 1, format!("count|groups|{n}")));
    }
    out
}

pub fn run(tier: &str) -> i32 {
    let mut rep = Report::new("C04", tier);
    let thorough = rep.thorough();
    let mut progs = space(thorough);
    // declarations-only modules (no entry point at all): the bind groups are owed all the same (every 4th program)
    {
        let n0 = progs.len();
        for i in 0..n0 {
            if thorough || i % 4 == 2 {
                if let Some(src) = without_entry_points(&progs[i].src) {
                    if naga_check(&src).is_ok() {
                        let mut q = progs[i].clone();
                        q.key = format!("{}|no-entry-points", q.key);
                        q.src = src;
                        progs.push(q);
                    }
                }
            }
        }
    }
    // resource variable types written through `alias` declarations (every 3rd program)
    {
        let n0 = progs.len();
        for i in 0..n0 {
            if thorough || i % 3 == 1 {
                if let Some(src) = alias_types(&progs[i].src) {
                    if naga_check(&src).is_ok() {
                        let mut q = progs[i].clone();
                        q.key = format!("{}|aliased-types", q.key);
                        q.src = src;
                        progs.push(q);
                    }
                }
            }
        }
    }
    let cfg = Config::default();
    // omodel over the whole space
    let outcomes: Vec<Outcome> = par_map(&progs, |p| generate(&p.src, &cfg));
    let texts: Vec<Option<String>> = outcomes.iter().map(|o| o.ok().map(|s| s.to_string())).collect();
    let model_results: Vec<Vec<String>> = {
        let pairs: Vec<(&Prog, &Option<String>)> = progs.iter().zip(texts.iter()).collect();
        par_map(&pairs, |(p, t)| match t {
            Some(t) => check_model(p, t),
            None => vec!["<generator not Ok>".to_string()],
        })
    };
    for ((p, t), viols) in progs.iter().zip(texts.iter()).zip(model_results.iter()) {
        rep.states += 1;
        rep.transitions += p.vars.len() as u64;
        rep.max_depth = rep.max_depth.max(p.vars.len() as u64);
        rep.evaluations += 1;
        if t.is_none() {
            let class = outcomes.iter().zip(progs.iter()).find(|(_, q)| q.key == p.key).map(|(o, _)| o.class()).unwrap_or_default();
            rep.generation_failed(p.key.clone(), &class, &p.src, &cfg);
            continue;
        }
        rep.nontrivial.insert(hash64(&p.src));
        for v in viols {
            rep.violation(p.key.clone(), format!("model: {v}"), json!({"wgsl": p.src, "config": cfg.key(), "observed": v}));
        }
    }
    // executed subset: evenly spread, plus all programs with >= 4 groups
    let stride = if thorough { (progs.len() / 700).max(1) } else { (progs.len() / 40).max(1) };
    let chosen: Vec<usize> = (0..progs.len()).filter(|i| i % stride == 0 || progs[*i].key.starts_with("g8") || (progs[*i].key.starts_with("big|") && (thorough || *i % 5 == 0)) || (progs[*i].key.starts_with("twins|") && (thorough || progs[*i].key.contains("kinds=0"))) || (thorough && progs[*i].vars.iter().map(|v| v.group).max().unwrap_or(0) >= 3)).collect();
    let cases: Vec<ProbeCase> = chosen
        .iter()
        .filter(|i| texts[**i].is_some())
        .map(|i| ProbeCase { name: format!("c_{i:05}"), generated: texts[*i].clone().unwrap(), probe_body: probe_code(&progs[*i]), probe_items: String::new(), files: vec![] })
        .collect();
    let results = probe::run_batch("C04", &cases, true);
    let mut outcomes = std::collections::BTreeSet::new();
    for r in &results {
        let i: usize = r.name[2..].parse().unwrap();
        let p = &progs[i];
        let detail = |obs: String| json!({"wgsl": p.src, "config": cfg.key(), "observed": obs, "probe": probe_code(p)});
        match &r.check {
            Verdict::Accepted => {}
            Verdict::Rejected(e) => {
                rep.violation(p.key.clone(), format!("exec: generated module does not compile against wgpu 24: {} {}", e[0].0, e[0].1.chars().take(80).collect::<String>()), detail(format!("{e:?}")));
                continue;
            }
            Verdict::ProbeMismatch(e) => {
                rep.violation(p.key.clone(), format!("exec: the documented API of the bind groups cannot be used as specified: {} {}", e[0].0, e[0].1.chars().take(80).collect::<String>()), detail(format!("{e:?}")));
                continue;
            }
        }
        if let Some(pm) = &r.panic {
            rep.violation(p.key.clone(), format!("exec: generated code panicked: {pm}"), detail(pm.clone()));
            continue;
        }
        let (viols, exec_layouts) = check_exec(p, &r.records);
        for v in viols {
            rep.violation(p.key.clone(), format!("exec: {v}"), detail(v.clone()));
        }
        // conformance omodel <-> compiled program: layout entries field by field
        let m = omodel::parse(texts[i].as_ref().unwrap()).unwrap();
        let bg = match m.bind_groups() {
            Ok(b) => b,
            Err(_) => continue, // already reported by the model check
        };
        for g in &bg.groups {
            let model: Vec<String> = g.layout_entries.iter().map(|e| format!("{e:?}")).collect();
            match exec_layouts.get(&g.index) {
                Some(x) if *x == model => rep.traces_validated += 1,
                Some(x) => machinery(&format!("C04: omodel and the compiled program disagree on the layout of group {} in {}:\n model {model:?}\n exec  {x:?}", g.index, p.key)),
                None => {}
            }
        }
        outcomes.insert(format!("{:?}", r.records.iter().find(|x| x["op"] == "passes")));
        rep.counters.entry("executed modules".into()).and_modify(|x| *x += 1).or_insert(1);
    }
    for s in outcomes {
        rep.outcomes.insert(s);
    }
    for i in [0, progs.len() / 3, progs.len() - 1] {
        rep.sample(json!({"key": progs[i].key, "wgsl": progs[i].src}));
    }
    rep.rule = "declaration sequences (order is state): one group with every repetition-free sequence of 1..3 bindings over {0,1,2,5,9}; two groups with per-group sequences of <=2 bindings over {0,2,5} in every interleaving of declaration order; three groups likewise over {1,4}; 4..8 groups in every rotation and reversed; 2..4 groups of identical shape (and with one odd group out); binding indices at the byte / u16 / i32 boundaries; resource kinds rotate (uniform/storage buffer, texture, storage texture, sampler); names chosen so that alphabetical, declaration and index order differ. Whole space through omodel; an evenly spread subset executed on the recording wgpu stand-in (each also type-checked against real wgpu 24.0.5) with tagged resources per field. traces_validated = bind group layouts whose omodel reading equals the compiled program's descriptor.".into();
    rep.finish()
}
