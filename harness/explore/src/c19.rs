//! C19 — formatter choice and formatter failure never change the program (engine E4).
//! The generator runs in a child process whose PATH resolves `rustfmt` to a scripted stub (this
//! binary under another name); ordering hooks turn the parent/child race into an enumerated choice.
use crate::common::*;
use serde_json::{json, Value};
use std::io::{Read, Write};
use std::path::{Path, PathBuf};
use std::process::{Command, Stdio};

// ---------------------------------------------------------------------------------------------
// the stub (`argv[0]` ends in `rustfmt`)

pub fn stub_main() -> ! {
    let script = std::env::var("VERIF_FMT_SCRIPT").unwrap_or_default();
    if let Ok(pidfile) = std::env::var("VERIF_FMT_PIDFILE") {
        let _ = std::fs::write(&pidfile, std::process::id().to_string());
    }
    let mut input: Vec<u8> = vec![];
    let mut stdin = Some(std::io::stdin());
    for op in script.split(';').filter(|s| !s.is_empty()) {
        let (name, arg) = op.split_once(':').unwrap_or((op, ""));
        match name {
            "read" => {
                if let Some(si) = stdin.as_mut() {
                    match arg {
                        "all" => {
                            let _ = si.lock().read_to_end(&mut input);
                        }
                        "none" => {}
                        k => {
                            let n: usize = k.parse().unwrap_or(0);
                            let mut buf = vec![0u8; n];
                            let mut got = 0;
                            let mut l = si.lock();
                            while got < n {
                                match l.read(&mut buf[got..]) {
                                    Ok(0) | Err(_) => break,
                                    Ok(m) => got += m,
                                }
                            }
                            input.extend_from_slice(&buf[..got]);
                        }
                    }
                }
            }
            "close-stdin" => {
                stdin = None;
                unsafe {
                    libc::close(0);
                }
            }
            "write" => match arg {
                "none" => {}
                "partial" => {
                    let _ = std::io::stdout().write_all(b"pub mod bind_groups {\n    #[derive(Debug)]\n");
                    let _ = std::io::stdout().flush();
                }
                "half" => {
                    let real = std::env::var("VERIF_REAL_RUSTFMT").unwrap_or_else(|_| "rustfmt".into());
                    if let Ok(mut ch) = Command::new(real).arg("--emit=stdout").stdin(Stdio::piped()).stdout(Stdio::piped()).stderr(Stdio::null()).spawn() {
                        let _ = ch.stdin.take().map(|mut s| s.write_all(&input));
                        if let Ok(o) = ch.wait_with_output() {
                            let _ = std::io::stdout().write_all(&o.stdout[..o.stdout.len() / 2]);
                            let _ = std::io::stdout().flush();
                        }
                    }
                }
                "real" => {
                    let real = std::env::var("VERIF_REAL_RUSTFMT").unwrap_or_else(|_| "rustfmt".into());
                    if let Ok(mut ch) = Command::new(real).arg("--emit=stdout").stdin(Stdio::piped()).stdout(Stdio::piped()).stderr(Stdio::null()).spawn() {
                        let _ = ch.stdin.take().map(|mut s| s.write_all(&input));
                        if let Ok(o) = ch.wait_with_output() {
                            let _ = std::io::stdout().write_all(&o.stdout);
                            let _ = std::io::stdout().flush();
                        }
                    }
                }
                _ => {}
            },
            "stderr" => {
                // what real formatters print when they fail: several lines, with backticks, quotes and code excerpts
                let lines: Vec<String> = match arg {
                    "1" => vec!["error: 'rustfmt' is not installed for the toolchain".into()],
                    "2" => vec!["error: 'rustfmt' is not installed for the toolchain 'stable-x86_64'".into(), "To install, run `rustup component add rustfmt`".into()],
                    "rust" => vec!["error: expected one of `!` or `::`, found `}`".into(), " --> <stdin>:1:10".into(), "  |".into(), "1 | pub mod bind_groups { pub struct X ; }".into(), "pub const LEAKED: u32 = 1;".into()],
                    _ => (0..4000).map(|i| format!("warning: line {i} of a very long diagnostic \" ' ` {{ }} //")).collect(),
                };
                let mut e = std::io::stderr();
                for l in lines {
                    let _ = writeln!(e, "{l}");
                }
                let _ = e.flush();
            }
            "sleep" => std::thread::sleep(std::time::Duration::from_millis(arg.parse().unwrap_or(0))),
            "exit" => std::process::exit(arg.parse().unwrap_or(0)),
            "kill" => unsafe {
                let sig = arg.parse().unwrap_or(9);
                libc::signal(sig, libc::SIG_DFL);
                libc::kill(libc::getpid(), sig);
                libc::pause();
            },
            _ => {}
        }
    }
    std::process::exit(0);
}

// ---------------------------------------------------------------------------------------------
// the child that runs the generator

fn source_with_padding(pad: usize) -> String {
    // the padding sits in a comment of the embedded source, so it lengthens the token string 1:1
    format!(
        "// {}\n// text-sensitive content: 6\" grid; spacing {{ a }} b; 'q' \\n c:\\dir {{ }} ; \"x; y\" }} z\nstruct U {{ a: vec4<f32>, m: mat4x4<f32> }};\n@group(0) @binding(0) var<uniform> u: U;\n@group(0) @binding(1) var t: texture_2d<f32>;\n@group(0) @binding(2) var s: sampler;\nconst K: f32 = 2.0;\noverride scale: f32 = 1.0;\n@vertex fn vs_main(@builtin(vertex_index) i: u32) -> @builtin(position) vec4<f32> {{ return u.m * u.a * K * scale; }}\n@fragment fn fs_main() -> @location(0) vec4<f32> {{ return textureSample(t, s, vec2<f32>(0.5)); }}\n@compute @workgroup_size(4) fn cs_main() {{ var acc = 0u; for (var i = 0u; i < 4u; i++) {{ if i > 1u {{ acc += i; }} else {{ acc += 2u; }} }} }}\n",
        "x".repeat(pad)
    )
}

static ORDER_WAIT: std::sync::atomic::AtomicBool = std::sync::atomic::AtomicBool::new(false);

fn order_hook(label: &'static str) {
    if label == "fmt:spawned" && ORDER_WAIT.load(std::sync::atomic::Ordering::SeqCst) {
        // hold the parent until the formatter process has terminated (zombie: nobody has waited yet)
        let pidfile = std::env::var("VERIF_FMT_PIDFILE").unwrap_or_default();
        let t0 = std::time::Instant::now();
        while t0.elapsed().as_secs() < 10 {
            if let Ok(pid) = std::fs::read_to_string(&pidfile) {
                if let Ok(stat) = std::fs::read_to_string(format!("/proc/{}/stat", pid.trim())) {
                    // field 3 (after the parenthesised command) is the state
                    if let Some(rest) = stat.rsplit_once(')') {
                        if rest.1.trim_start().starts_with('Z') {
                            return;
                        }
                    }
                } else {
                    return; // already gone
                }
            }
            std::thread::sleep(std::time::Duration::from_millis(2));
        }
    }
}

pub fn child_main(pad: usize, order: &str, use_shader_file: Option<&str>) -> i32 {
    let src = match use_shader_file {
        Some(f) => std::fs::read_to_string(f).unwrap(),
        None => source_with_padding(pad),
    };
    if order == "child-first" {
        ORDER_WAIT.store(true, std::sync::atomic::Ordering::SeqCst);
    }
    wgsl_to_wgpu::verif::set_hook(Some(order_hook));
    let on = generate(&src, &Config { rustfmt: true, ..Config::default() });
    let (kind, text) = match &on {
        Outcome::Ok(t) => ("ok", t.clone()),
        Outcome::Err(v, m) => ("err", format!("{v}: {m}")),
        Outcome::Panic(m) => ("panic", m.clone()),
    };
    let body = json!({"outcome": kind, "text": text}).to_string();
    match std::env::var("VERIF_C19_OUT") {
        Ok(f) => std::fs::write(f, body).unwrap(),
        Err(_) => println!("{body}"),
    }
    0
}

// ---------------------------------------------------------------------------------------------
// the explorer

#[derive(Clone, Debug)]
pub struct Scenario {
    pub key: String,
    /// None = no stub (genuine / absent / not executable handled by `path_kind`)
    pub script: Option<String>,
    pub path_kind: &'static str,
    pub order: &'static str,
    pub size: usize,
    pub fault: bool,
}

pub fn find_real_rustfmt() -> Option<PathBuf> {
    let path = std::env::var("PATH").unwrap_or_default();
    for d in path.split(':') {
        let p = Path::new(d).join("rustfmt");
        if p.is_file() {
            return Some(p);
        }
    }
    None
}

struct Env {
    stub_dir: PathBuf,
    noexec_dir: PathBuf,
    empty_dir: PathBuf,
    real: Option<PathBuf>,
    orig_path: String,
    work: PathBuf,
}

fn prepare_env() -> Env {
    let work = root().join("target").join("c19");
    let _ = std::fs::remove_dir_all(&work);
    std::fs::create_dir_all(&work).unwrap();
    let stub_dir = work.join("stub");
    let noexec_dir = work.join("noexec");
    let empty_dir = work.join("empty");
    for d in [&stub_dir, &noexec_dir, &empty_dir] {
        std::fs::create_dir_all(d).unwrap();
    }
    let exe = std::env::current_exe().unwrap();
    std::fs::copy(&exe, stub_dir.join("rustfmt")).unwrap();
    std::fs::write(noexec_dir.join("rustfmt"), "#!/bin/sh\nexit 0\n").unwrap();
    #[cfg(unix)]
    {
        use std::os::unix::fs::PermissionsExt;
        std::fs::set_permissions(noexec_dir.join("rustfmt"), std::fs::Permissions::from_mode(0o644)).unwrap();
    }
    Env { stub_dir, noexec_dir, empty_dir, real: find_real_rustfmt(), orig_path: std::env::var("PATH").unwrap_or_default(), work }
}

fn run_scenario(env: &Env, sc: &Scenario, pad: usize, idx: usize) -> Result<Value, String> {
    let exe = std::env::current_exe().unwrap();
    let mut cmd = Command::new(exe);
    cmd.args(["c19-child", &pad.to_string(), sc.order]);
    let path = match sc.path_kind {
        "genuine" => env.orig_path.clone(),
        "absent" => env.empty_dir.display().to_string(),
        "noexec" => env.noexec_dir.display().to_string(),
        _ => format!("{}:{}", env.stub_dir.display(), env.orig_path),
    };
    let pidfile = env.work.join(format!("pid-{idx}"));
    let _ = std::fs::remove_file(&pidfile);
    let outfile = env.work.join(format!("out-{idx}"));
    let _ = std::fs::remove_file(&outfile);
    cmd.env("PATH", path).env("VERIF_FMT_PIDFILE", &pidfile).env("VERIF_ROOT", root()).env("VERIF_C19_OUT", &outfile);
    if let Some(s) = &sc.script {
        cmd.env("VERIF_FMT_SCRIPT", s);
    }
    if let Some(r) = &env.real {
        cmd.env("VERIF_REAL_RUSTFMT", r);
    }
    cmd.stdout(Stdio::null()).stderr(Stdio::null()).stdin(Stdio::null());
    let mut ch = cmd.spawn().map_err(|e| e.to_string())?;
    let t0 = std::time::Instant::now();
    let cap = 20;
    loop {
        match ch.try_wait() {
            Ok(Some(_)) => break,
            Ok(None) => {
                if t0.elapsed().as_secs() >= cap {
                    let _ = ch.kill();
                    let _ = ch.wait();
                    return Ok(json!({"outcome": "hang", "text": format!("no result within {cap}s")}));
                }
                std::thread::sleep(std::time::Duration::from_millis(3));
            }
            Err(e) => return Err(e.to_string()),
        }
    }
    let status = ch.wait().map_err(|e| e.to_string())?;
    let line = std::fs::read_to_string(&outfile).unwrap_or_default();
    match serde_json::from_str::<Value>(line.trim()) {
        Ok(v) => Ok(v),
        Err(_) => Ok(json!({"outcome": "crash", "text": format!("child exited with {status:?} without a result")})),
    }
}

pub fn scenarios(thorough: bool) -> Vec<Scenario> {
    let mut v = vec![];
    let sizes: Vec<usize> = if thorough { vec![0, 65535, 65536, 65537, 300_000] } else { vec![0, 65536, 65537] };
    for &size in &sizes {
        let mut add = |key: &str, script: Option<&str>, path_kind: &'static str, order: &'static str, fault: bool| {
            v.push(Scenario { key: format!("{key}|size={size}|order={order}"), script: script.map(|s| s.to_string()), path_kind, order, size, fault });
        };
        add("genuine", None, "genuine", "default", false);
        add("absent", None, "absent", "default", true);
        add("not-executable", None, "noexec", "default", true);
        add("read-all-exit1", Some("read:all;exit:1"), "stub", "default", true);
        add("read-all-close-exit3", Some("read:all;close-stdin;exit:3"), "stub", "default", true);
        for order in ["default", "child-first"] {
            add("read-none-exit1", Some("exit:1"), "stub", order, true);
            add("read-none-exit0", Some("exit:0"), "stub", order, true);
            add("killed-before-reading", Some("kill:9"), "stub", order, true);
            add("close-stdin-then-exit1", Some("close-stdin;sleep:30;exit:1"), "stub", order, true);
        }
        add("read-100-exit1", Some("read:100;exit:1"), "stub", "default", true);
        add("read-100-sleep-exit1", Some("read:100;sleep:50;exit:1"), "stub", "default", true);
        add("read-all-sigkill", Some("read:all;kill:9"), "stub", "default", true);
        add("read-all-sigsegv", Some("read:all;kill:11"), "stub", "default", true);
        add("read-all-exit0-nothing", Some("read:all;exit:0"), "stub", "default", true);
        add("read-all-sleep-exit0-nothing", Some("read:all;sleep:100;exit:0"), "stub", "default", true);
        add("partial-output-sigkill", Some("read:all;write:partial;kill:9"), "stub", "default", true);
        add("partial-output-sigterm", Some("read:all;write:partial;kill:15"), "stub", "default", true);
        add("partial-output-exit1", Some("read:all;write:partial;exit:1"), "stub", "default", true);
        add("half-output-sigkill", Some("read:all;write:half;kill:9"), "stub", "default", true);
        add("half-output-sigsegv", Some("read:all;write:half;kill:11"), "stub", "default", true);
        add("partial-output-without-reading-sigkill", Some("write:partial;kill:9"), "stub", "default", true);
        add("partial-output-without-reading-exit1", Some("write:partial;exit:1"), "stub", "child-first", true);
        // a formatter that explains itself on stderr (one line, two lines, code-like lines, ~200 KB) before failing
        add("stderr1-exit1", Some("read:all;stderr:1;exit:1"), "stub", "default", true);
        add("stderr2-exit1", Some("read:all;stderr:2;exit:1"), "stub", "default", true);
        add("stderr2-without-reading-exit1", Some("stderr:2;exit:1"), "stub", "child-first", true);
        add("stderr-code-exit1", Some("read:all;stderr:rust;exit:1"), "stub", "default", true);
        add("stderr-code-exit0-nothing", Some("read:all;stderr:rust;exit:0"), "stub", "default", true);
        add("stderr2-sigkill", Some("read:all;stderr:2;kill:9"), "stub", "default", true);
        add("stderr-big-exit1", Some("read:all;stderr:big;exit:1"), "stub", "default", true);
        add("stderr-big-before-reading-exit1", Some("stderr:big;read:all;exit:1"), "stub", "default", true);
        add("stderr2-then-genuine", Some("read:all;stderr:2;write:real;exit:0"), "stub", "default", false);
        add("slow-genuine", Some("read:all;sleep:300;write:real;exit:0"), "stub", "default", false);
        // a formatter that is merely slow (just above 1 s, 2 s, 5 s; thorough: 10 s - the scenario runner's own hang cap is 20 s): still a success
        add("slow-genuine-1200ms", Some("read:all;sleep:1200;write:real;exit:0"), "stub", "default", false);
        add("slow-genuine-2500ms", Some("read:all;sleep:2500;write:real;exit:0"), "stub", "default", false);
        add("slow-genuine-5500ms", Some("read:all;sleep:5500;write:real;exit:0"), "stub", "default", false);
        add("slow-before-reading-2500ms", Some("sleep:2500;read:all;write:real;exit:0"), "stub", "default", false);
        if thorough {
            add("slow-genuine-11000ms", Some("read:all;sleep:11000;write:real;exit:0"), "stub", "default", false);
        }
        add("genuine-via-stub", Some("read:all;write:real;exit:0"), "stub", "default", false);
        if thorough {
            add("read-1-exit1", Some("read:1;exit:1"), "stub", "default", true);
            add("read-65536-exit1", Some("read:65536;exit:1"), "stub", "default", true);
            add("read-all-sigterm", Some("read:all;kill:15"), "stub", "default", true);
            add("sleep-then-exit1", Some("sleep:100;exit:1"), "stub", "default", true);
            add("genuine-then-exit1", Some("read:all;write:real;exit:1"), "stub", "default", true);
        }
    }
    v
}

pub fn run(tier: &str) -> i32 {
    let mut rep = Report::new("C19", tier);
    rep.level = "fault_enumeration".into();
    let thorough = rep.thorough();
    let env = prepare_env();
    if env.real.is_none() {
        machinery("C19: no genuine rustfmt on PATH");
    }
    // token string length as a function of the padding: measured once through the fallback path
    let absent = Scenario { key: "measure".into(), script: None, path_kind: "absent", order: "default", size: 0, fault: true };
    let base = match run_scenario(&env, &absent, 0, 9999) {
        Ok(v) if v["outcome"] == "ok" => v["text"].as_str().unwrap().len(),
        other => machinery(&format!("C19: cannot measure the token string length: {other:?}")),
    };
    let scs = scenarios(thorough);
    let pad_for = |size: usize| if size == 0 { 0 } else { size.saturating_sub(base) };
    // references: the unformatted program per padding
    let mut reference: std::collections::BTreeMap<usize, Vec<String>> = std::collections::BTreeMap::new();
    for sc in &scs {
        let pad = pad_for(sc.size);
        reference.entry(pad).or_insert_with(|| match generate(&source_with_padding(pad), &Config::default()) {
            Outcome::Ok(t) => norm_tokens(&t).unwrap_or_else(|e| machinery(&e)),
            o => machinery(&format!("C19 reference generation failed: {}", o.class())),
        });
    }
    let idx: Vec<usize> = (0..scs.len()).collect();
    let results = par_map(&idx, |i| run_scenario(&env, &scs[*i], pad_for(scs[*i].size), *i));
    for (sc, r) in scs.iter().zip(results.iter()) {
        rep.states += 1;
        rep.transitions += sc.script.as_ref().map(|s| s.split(';').count() as u64).unwrap_or(1);
        rep.evaluations += 1;
        let v = match r {
            Ok(v) => v,
            Err(e) => machinery(&format!("C19 scenario {} could not run: {e}", sc.key)),
        };
        let pad = pad_for(sc.size);
        let detail = json!({"script": sc.script, "path": sc.path_kind, "order": sc.order, "token_string_bytes": base + pad, "observed": v["text"].as_str().map(|s| s.chars().take(300).collect::<String>())});
        let outcome = v["outcome"].as_str().unwrap_or("?");
        rep.outcomes.insert(format!("{outcome}:{}", sc.key.split('|').next().unwrap()));
        rep.nontrivial.insert(hash64(&sc.key));
        match outcome {
            "ok" => {
                let text = v["text"].as_str().unwrap();
                match norm_tokens(text) {
                    Ok(toks) if toks == reference[&pad] => {
                        // on a fault the text must be the unformatted token string itself, not something partial: token equality covers it
                    }
                    Ok(toks) => {
                        rep.violation(sc.key.clone(), format!("returned text is a different program ({} tokens vs {} in the unformatted program)", toks.len(), reference[&pad].len()), detail);
                    }
                    Err(e) => rep.violation(sc.key.clone(), format!("returned text is not Rust: {e}"), detail),
                }
            }
            "panic" => rep.violation(sc.key.clone(), format!("panic: {}", v["text"].as_str().unwrap_or("").chars().take(90).collect::<String>()), detail),
            "hang" => rep.violation(sc.key.clone(), "hang (no result within 20 s)".to_string(), detail),
            other => rep.violation(sc.key.clone(), format!("{other}: {}", v["text"].as_str().unwrap_or("").chars().take(90).collect::<String>()), detail),
        }
    }
    // formatter on vs off over a corpus of programs (genuine rustfmt)
    let mut corpus: Vec<(String, String)> = crate::c17::BASES.iter().map(|(n, s)| (format!("base|{n}"), s.to_string())).collect();
    for p in crate::c09::programs().into_iter().take(if thorough { 100 } else { 12 }) {
        corpus.push((format!("roles|{}", p.key), p.src));
    }
    for (i, p) in crate::c14::space(false).into_iter().enumerate() {
        if i % if thorough { 7 } else { 60 } == 0 {
            corpus.push((format!("entries|{}", p.key), p.src));
        }
    }
    // a spread of C01's declaration atoms (every resource kind, constants, overrides, entry and bind group shapes)
    for (i, (key, src, _)) in crate::c18::corpus().into_iter().enumerate() {
        if i % if thorough { 2 } else { 6 } == 0 {
            corpus.push((format!("atom|{key}"), src));
        }
    }
    // sources whose embedded literal is sensitive to text normalisation (CRLF, CR, tabs, controls, non-ASCII,
    // long multi-byte runs across pipe-read boundaries)
    for (i, inp) in crate::c16::inputs(false).into_iter().enumerate() {
        let n = inp.key.split('|').nth(1).map(|s| s.split('.').filter(|x| !x.is_empty()).count()).unwrap_or(0);
        if inp.key.starts_with("long-run") || (inp.key.starts_with("block|") && (n <= 1 || (thorough && i % 5 == 0))) || inp.key == "block|000d.000a" {
            if naga_check(&inp.src).is_ok() {
                corpus.push((format!("text|{}", inp.key), inp.src));
            }
        }
    }
    let cfgs = [Config::default(), Config { encase: true, ..Config::default() }, Config { bytemuck_vertex: true, bytemuck_host: true, encase: true, serde: true, repr: Repr::Glam, ..Config::default() }];
    let items: Vec<(usize, usize)> = (0..corpus.len()).flat_map(|i| (0..cfgs.len()).map(move |c| (i, c))).collect();
    let pairs = par_map(&items, |(i, c)| (generate(&corpus[*i].1, &cfgs[*c]), generate(&corpus[*i].1, &Config { rustfmt: true, ..cfgs[*c] })));
    for ((i, c), (off, on)) in items.iter().zip(pairs.iter()) {
        rep.states += 1;
        rep.evaluations += 1;
        let key = format!("onoff|{}|{}", corpus[*i].0, cfgs[*c].key());
        match (off, on) {
            (Outcome::Ok(a), Outcome::Ok(b)) => {
                rep.traces_validated += 1;
                match (norm_tokens(a), norm_tokens(b)) {
                    (Ok(x), Ok(y)) if x == y => {}
                    (Ok(x), Ok(y)) => {
                        // Every difference is reported; an extra empty statement between the `if let Some(value) = self.<override>`
                        // blocks of OverrideConstants::constants (consts.rs `#(#insert_optional_entries);*`) is reported under its
                        // own signature and skipped, so that any other difference in the same text is still found.
                        let (mut a, mut b, mut empties) = (0usize, 0usize, 0usize);
                        let mut other = None;
                        while a < x.len() || b < y.len() {
                            if a < x.len() && b < y.len() && x[a] == y[b] {
                                a += 1;
                                b += 1;
                                continue;
                            }
                            let ctx = ["if", "let", "Some", "(", "value", ")", "=", "self", "."];
                            if b < y.len() && y[b] == ";" && b > 0 && y[b - 1] == "}" && y[b + 1..].iter().zip(ctx.iter()).filter(|(p, q)| p == q).count() == ctx.len() {
                                b += 1;
                                empties += 1;
                                continue;
                            }
                            other = Some((a, b));
                            break;
                        }
                        let detail = json!({"wgsl": corpus[*i].1, "config": cfgs[*c].key()});
                        if empties > 0 {
                            rep.violation(key.clone(), "formatter on keeps the empty statement `;` between the `if let Some(value) = self.<override>` blocks of OverrideConstants::constants, formatter off drops it".to_string(), detail.clone());
                        }
                        if let Some((a, b)) = other {
                            rep.violation(key, format!("formatter on/off differ at token #{a}: `{}` vs `{}`", x.get(a).cloned().unwrap_or_default(), y.get(b).cloned().unwrap_or_default()), detail);
                        }
                    }
                    _ => rep.violation(key, "output is not tokenisable Rust".to_string(), json!({"wgsl": corpus[*i].1, "config": cfgs[*c].key()})),
                }
            }
            (Outcome::Ok(_), other) => rep.violation(key, format!("with the formatter on the call gives {}", other.class()), json!({"wgsl": corpus[*i].1, "config": cfgs[*c].key()})),
            _ => rep.filtered("generator not Ok with the formatter off"),
        }
    }
    rep.set("token_string_base_bytes", json!(base));
    rep.sample(json!({"scenario": scs[3].key, "script": scs[3].script}));
    rep.sample(json!({"scenario": scs[scs.len() - 1].key, "script": scs[scs.len() - 1].script}));
    rep.rule = format!("{} formatter scenarios = behaviours {{genuine, absent, not executable, read all->exit 1/3, exit 0/1 without reading, killed before reading, close stdin early, read 1/100/65536 bytes->exit 1, read all->SIGKILL/SIGSEGV/SIGTERM, read all->exit 0 printing nothing (immediately / after a delay), partial or half of the formatted output followed by SIGKILL/SIGTERM/SIGSEGV/exit 1, stderr output of 1 / 2 / code-like / ~200 KB lines before failing (and before succeeding), slow genuine, genuine then exit 1}} x token-string sizes {:?} (exact, by padding a comment of the embedded source) x order {{default race, formatter terminated before the parent's write (ordering hook waits for the zombie)}}; plus formatter on vs off on {} program/configuration pairs with the genuine rustfmt. Oracle: always Ok, no panic, no hang (20 s cap), returned text token-equal to the unformatted program (a trailing comma before a closing delimiter is not a token difference). A case is non-trivial when the child produced a verdict.", scs.len(), if thorough { vec![1400, 65535, 65536, 65537, 300000] } else { vec![1400, 65537] }, items.len());
    rep.assumptions.push("a genuine rustfmt is on PATH".into());
    rep.finish()
}
