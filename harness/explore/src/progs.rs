//! Program-building blocks shared by several explorers: placement contexts, call forms,
//! resource kinds with their access forms, entry-point templates.

#[derive(Clone, Copy, Debug, PartialEq, Eq, Hash, PartialOrd, Ord)]
pub enum Stage {
    V,
    F,
    C,
}
impl Stage {
    pub const ALL: [Stage; 3] = [Stage::V, Stage::F, Stage::C];
    pub fn bit(self) -> wgpu_types::ShaderStages {
        match self {
            Stage::V => wgpu_types::ShaderStages::VERTEX,
            Stage::F => wgpu_types::ShaderStages::FRAGMENT,
            Stage::C => wgpu_types::ShaderStages::COMPUTE,
        }
    }
    pub fn naga(self) -> naga::ShaderStage {
        match self {
            Stage::V => naga::ShaderStage::Vertex,
            Stage::F => naga::ShaderStage::Fragment,
            Stage::C => naga::ShaderStage::Compute,
        }
    }
    /// Entry point text with the given name and body statements.
    pub fn entry(self, name: &str, body: &str) -> String {
        match self {
            Stage::V => format!("@vertex fn {name}() -> @builtin(position) vec4<f32> {{\n{PRELUDE}{body}    return vec4<f32>(acc);\n}}\n"),
            Stage::F => format!("@fragment fn {name}() -> @location(0) vec4<f32> {{\n{PRELUDE}{body}    return vec4<f32>(acc);\n}}\n"),
            Stage::C => format!("@compute @workgroup_size(1) fn {name}() {{\n{PRELUDE}{body}}}\n"),
        }
    }
}

/// Local declarations available to every generated function body.
pub const PRELUDE: &str = "    var acc: f32 = 0.0;\n    var cnd: bool = false;\n    var sel: i32 = 0;\n";

/// Helper function text: value helpers return f32.
pub fn helper(name: &str, value: bool, body: &str) -> String {
    if value {
        format!("fn {name}() -> f32 {{\n{PRELUDE}{body}    return acc;\n}}\n")
    } else {
        format!("fn {name}() {{\n{PRELUDE}{body}}}\n")
    }
}

/// A statement to be placed; `simple` is the variant usable in a `for` header (no trailing `;`).
#[derive(Clone, Debug)]
pub struct Stmt {
    pub full: String,
    pub simple_init: Option<String>,
    pub simple_update: Option<String>,
}

#[derive(Clone, Copy, Debug, PartialEq, Eq, Hash, PartialOrd, Ord)]
pub enum Ctx {
    Top,
    IfAccept,
    IfReject,
    ElseIf,
    SwitchCase,
    SwitchDefault,
    LoopBody,
    LoopContinuing,
    ForInit,
    ForUpdate,
    ForBody,
    WhileBody,
    Block,
    /// branches a constant condition never takes (a static access all the same)
    IfLiteralFalse,
    IfLiteralTrueElse,
    IfLocalConstFalse,
    WhileLiteralFalse,
}

impl Ctx {
    pub const ALL: [Ctx; 17] = [
        Ctx::Top,
        Ctx::IfAccept,
        Ctx::IfReject,
        Ctx::ElseIf,
        Ctx::SwitchCase,
        Ctx::SwitchDefault,
        Ctx::LoopBody,
        Ctx::LoopContinuing,
        Ctx::ForInit,
        Ctx::ForUpdate,
        Ctx::ForBody,
        Ctx::WhileBody,
        Ctx::Block,
        Ctx::IfLiteralFalse,
        Ctx::IfLiteralTrueElse,
        Ctx::IfLocalConstFalse,
        Ctx::WhileLiteralFalse,
    ];
    /// Wraps a statement; `None` when the statement has no form this context can hold.
    pub fn wrap(self, s: &Stmt) -> Option<Stmt> {
        let f = &s.full;
        let full = match self {
            Ctx::Top => f.clone(),
            Ctx::IfAccept => format!("if cnd {{ {f} }}"),
            Ctx::IfReject => format!("if cnd {{ }} else {{ {f} }}"),
            Ctx::ElseIf => format!("if cnd {{ }} else if !cnd {{ {f} }}"),
            Ctx::SwitchCase => format!("switch sel {{ case 1 {{ {f} }} default {{ }} }}"),
            Ctx::SwitchDefault => format!("switch sel {{ case 1 {{ }} default {{ {f} }} }}"),
            Ctx::LoopBody => format!("loop {{ {f} break; }}"),
            Ctx::LoopContinuing => format!("loop {{ if !cnd {{ break; }} continuing {{ {f} }} }}"),
            Ctx::ForInit => format!("for ({}; cnd; ) {{ }}", s.simple_init.as_ref()?),
            Ctx::ForUpdate => format!("for (; cnd; {}) {{ }}", s.simple_update.as_ref()?),
            Ctx::ForBody => format!("for (var fi = 0; fi < 1; fi++) {{ {f} }}"),
            Ctx::WhileBody => format!("while cnd {{ {f} }}"),
            Ctx::Block => format!("{{ {f} }}"),
            Ctx::IfLiteralFalse => format!("if false {{ {f} }}"),
            Ctx::IfLiteralTrueElse => format!("if true {{ }} else {{ {f} }}"),
            Ctx::IfLocalConstFalse => format!("{{ const k_never = false; if k_never {{ {f} }} }}"),
            Ctx::WhileLiteralFalse => format!("while false {{ {f} }}"),
        };
        Some(Stmt { full, simple_init: None, simple_update: None })
    }
}

#[derive(Clone, Copy, Debug, PartialEq, Eq, Hash, PartialOrd, Ord)]
pub enum CallForm {
    Stmt,
    Let,
    Nested,
    Arg,
    IfCond,
    WhileCond,
    ForCond,
    SwitchSel,
    BreakIf,
}

impl CallForm {
    pub const ALL: [CallForm; 9] = [
        CallForm::Stmt,
        CallForm::Let,
        CallForm::Nested,
        CallForm::Arg,
        CallForm::IfCond,
        CallForm::WhileCond,
        CallForm::ForCond,
        CallForm::SwitchSel,
        CallForm::BreakIf,
    ];
    pub const BASIC: [CallForm; 4] = [CallForm::Stmt, CallForm::Let, CallForm::Nested, CallForm::Arg];
    pub fn is_value(self) -> bool {
        self != CallForm::Stmt
    }
    /// The statement that calls `callee` in this form. `uid` makes local names unique.
    pub fn stmt(self, callee: &str, uid: usize) -> Stmt {
        match self {
            CallForm::Stmt => Stmt { full: format!("{callee}();"), simple_init: Some(format!("{callee}()")), simple_update: Some(format!("{callee}()")) },
            CallForm::Let => Stmt { full: format!("let v{uid} = {callee}();"), simple_init: Some(format!("var v{uid} = {callee}()")), simple_update: None },
            CallForm::Nested => {
                let e = format!("acc = {callee}() + 1.0");
                Stmt { full: format!("{e};"), simple_init: Some(e.clone()), simple_update: Some(e) }
            }
            CallForm::Arg => {
                let e = format!("acc = max({callee}(), 2.0)");
                Stmt { full: format!("{e};"), simple_init: Some(e.clone()), simple_update: Some(e) }
            }
            CallForm::IfCond => Stmt { full: format!("if {callee}() > 0.5 {{ }}"), simple_init: None, simple_update: None },
            CallForm::WhileCond => Stmt { full: format!("while {callee}() > 0.5 {{ break; }}"), simple_init: None, simple_update: None },
            CallForm::ForCond => Stmt { full: format!("for (var fc{uid} = 0; {callee}() > 0.5; ) {{ break; }}"), simple_init: None, simple_update: None },
            CallForm::SwitchSel => Stmt { full: format!("switch i32({callee}()) {{ default {{ }} }}"), simple_init: None, simple_update: None },
            CallForm::BreakIf => Stmt { full: format!("loop {{ continuing {{ break if {callee}() < 0.5; }} }}"), simple_init: None, simple_update: None },
        }
    }
}

/// Resource kinds with the declaration and the statements that statically access them.
#[derive(Clone, Copy, Debug, PartialEq, Eq, Hash, PartialOrd, Ord)]
pub enum ResKind {
    Uniform,
    StorageRead,
    StorageRw,
    StorageAtomic,
    StorageRuntime,
    Texture,
    TextureSampled,
    StorageTexture,
    PushConstant,
}

impl ResKind {
    pub const BINDABLE: [ResKind; 8] = [
        ResKind::Uniform,
        ResKind::StorageRead,
        ResKind::StorageRw,
        ResKind::StorageAtomic,
        ResKind::StorageRuntime,
        ResKind::Texture,
        ResKind::TextureSampled,
        ResKind::StorageTexture,
    ];
    /// Shared type declarations needed by some kinds (emit once per module).
    pub const TYPES: &'static str = "struct RtData { n: u32, data: array<vec4<f32>> };\nstruct AtData { counter: atomic<u32> };\n";

    /// Declarations. Returns (text, number of binding slots used, names of the variables declared).
    /// `TextureSampled` declares a texture and a sampler (two bindings).
    pub fn decl(self, name: &str, group: u32, binding: u32) -> (String, Vec<(String, u32)>) {
        let at = |b: u32| format!("@group({group}) @binding({b})");
        match self {
            ResKind::Uniform => (format!("{} var<uniform> {name}: vec4<f32>;\n", at(binding)), vec![(name.to_string(), binding)]),
            ResKind::StorageRead => (format!("{} var<storage, read> {name}: vec4<f32>;\n", at(binding)), vec![(name.to_string(), binding)]),
            ResKind::StorageRw => (format!("{} var<storage, read_write> {name}: vec4<f32>;\n", at(binding)), vec![(name.to_string(), binding)]),
            ResKind::StorageAtomic => (format!("{} var<storage, read_write> {name}: AtData;\n", at(binding)), vec![(name.to_string(), binding)]),
            ResKind::StorageRuntime => (format!("{} var<storage, read> {name}: RtData;\n", at(binding)), vec![(name.to_string(), binding)]),
            ResKind::Texture => (format!("{} var {name}: texture_2d<f32>;\n", at(binding)), vec![(name.to_string(), binding)]),
            ResKind::TextureSampled => (
                format!("{} var {name}: texture_2d<f32>;\n{} var {name}_s: sampler;\n", at(binding), at(binding + 1)),
                vec![(name.to_string(), binding), (format!("{name}_s"), binding + 1)],
            ),
            ResKind::StorageTexture => (format!("{} var {name}: texture_storage_2d<rgba8unorm, write>;\n", at(binding)), vec![(name.to_string(), binding)]),
            ResKind::PushConstant => (format!("var<push_constant> {name}: vec4<f32>;\n"), vec![(name.to_string(), u32::MAX)]),
        }
    }
    pub fn slots(self) -> u32 {
        if self == ResKind::TextureSampled {
            2
        } else {
            1
        }
    }
    /// Access forms: (form name, statement). Every form statically accesses *all* variables of the decl.
    pub fn accesses(self, name: &str, uid: usize) -> Vec<(&'static str, Stmt)> {
        let assign = |e: String| Stmt { full: format!("{e};"), simple_init: Some(e.clone()), simple_update: Some(e) };
        let letf = |n: &str, e: String| Stmt { full: format!("let {n}{uid} = {e};"), simple_init: Some(format!("var {n}{uid} = {e}")), simple_update: None };
        // forms that name the variable without reading it: still a static access (WGSL 'statically accessed' = the
        // function contains an identifier expression resolving to the variable)
        let phony = Stmt { full: format!("_ = {name};"), simple_init: None, simple_update: None };
        let unused_ptr = |path: &str| Stmt { full: format!("let up{uid} = &{name}{path};"), simple_init: None, simple_update: None };
        let mut forms = self.accesses_core(name, uid);
        match self {
            ResKind::Uniform | ResKind::StorageRead | ResKind::PushConstant | ResKind::StorageRw => {
                forms.push(("phony-assignment", phony));
                forms.push(("unused-pointer", unused_ptr("")));
            }
            ResKind::StorageAtomic => forms.push(("unused-pointer", unused_ptr(".counter"))),
            ResKind::StorageRuntime => forms.push(("unused-pointer", unused_ptr(".data"))),
            ResKind::Texture | ResKind::StorageTexture => forms.push(("phony-assignment", phony)),
            ResKind::TextureSampled => forms.push(("phony-assignment", Stmt { full: format!("_ = {name}; _ = {name}_s;"), simple_init: None, simple_update: None })),
        }
        forms
    }
    fn accesses_core(self, name: &str, uid: usize) -> Vec<(&'static str, Stmt)> {
        let assign = |e: String| Stmt { full: format!("{e};"), simple_init: Some(e.clone()), simple_update: Some(e) };
        let letf = |n: &str, e: String| Stmt { full: format!("let {n}{uid} = {e};"), simple_init: Some(format!("var {n}{uid} = {e}")), simple_update: None };
        match self {
            ResKind::Uniform | ResKind::StorageRead | ResKind::PushConstant => vec![
                ("load-component", assign(format!("acc = {name}.x"))),
                ("load-whole", letf("w", name.to_string())),
                ("load-in-call", assign(format!("acc = length({name})"))),
                ("load-through-pointer", Stmt { full: format!("let p{uid} = &{name}; acc = (*p{uid}).y;"), simple_init: None, simple_update: None }),
                ("load-in-condition", Stmt { full: format!("if {name}.z > 0.5 {{ acc = 1.0; }}"), simple_init: None, simple_update: None }),
            ],
            ResKind::StorageRw => vec![
                ("store", assign(format!("{name}.x = 1.0"))),
                ("load-component", assign(format!("acc = {name}.y"))),
                ("compound-assign", assign(format!("{name}.z += 1.0"))),
                ("store-through-pointer", Stmt { full: format!("let p{uid} = &{name}; (*p{uid}).w = 2.0;"), simple_init: None, simple_update: None }),
            ],
            ResKind::StorageAtomic => vec![
                ("atomic-add", letf("a", format!("atomicAdd(&{name}.counter, 1u)"))),
                ("atomic-load", letf("al", format!("atomicLoad(&{name}.counter)"))),
            ],
            ResKind::StorageRuntime => vec![
                ("array-length", letf("n", format!("arrayLength(&{name}.data)"))),
                ("load-element", assign(format!("acc = {name}.data[0].x"))),
            ],
            ResKind::Texture => vec![
                ("texture-load", assign(format!("acc = textureLoad({name}, vec2<i32>(0, 0), 0).x"))),
                ("texture-dimensions", letf("d", format!("textureDimensions({name})"))),
                ("texture-num-levels", letf("l", format!("textureNumLevels({name})"))),
            ],
            ResKind::TextureSampled => vec![
                ("texture-sample-level", assign(format!("acc = textureSampleLevel({name}, {name}_s, vec2<f32>(0.5, 0.5), 0.0).x"))),
                ("texture-gather", assign(format!("acc = textureGather(1, {name}, {name}_s, vec2<f32>(0.5, 0.5)).x"))),
                ("texture-sample-grad", assign(format!("acc = textureSampleGrad({name}, {name}_s, vec2<f32>(0.5, 0.5), vec2<f32>(0.0), vec2<f32>(0.0)).x"))),
            ],
            ResKind::StorageTexture => vec![(
                "texture-store",
                Stmt {
                    full: format!("textureStore({name}, vec2<i32>(0, 0), vec4<f32>(1.0));"),
                    simple_init: Some(format!("textureStore({name}, vec2<i32>(0, 0), vec4<f32>(1.0))")),
                    simple_update: Some(format!("textureStore({name}, vec2<i32>(0, 0), vec4<f32>(1.0))")),
                },
            )],
        }
    }
}

pub fn indent(stmt: &str) -> String {
    format!("    {stmt}\n")
}
