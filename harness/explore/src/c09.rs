//! C09 — derives and repr follow the write options exactly; no option changes anything else.
use crate::common::*;
use crate::probe::{self, ProbeCase, Verdict};
use serde_json::json;
use std::collections::{BTreeMap, BTreeSet};

#[derive(Clone, Debug)]
pub struct RoleStruct {
    pub name: &'static str,
    pub host: bool,
    pub rts: bool,
}

pub struct Prog {
    pub key: String,
    pub src: String,
    pub structs: Vec<RoleStruct>,
}

/// Components: V vertex-only, H host-only, B both, F fragment-input-only, N nested host, R runtime-array host, W workgroup/private host.
pub fn programs() -> Vec<Prog> {
    let mut out = vec![];
    let comps = ["V", "H", "B", "F", "N", "W", "L", "P"];
    let mut masks: Vec<(usize, bool, bool, bool)> = vec![];
    for m in 1..(1usize << comps.len()) {
        // every single component, every pair, the full set, and a few triples
        let c = m.count_ones();
        if c <= 2 || m == (1 << comps.len()) - 1 || m % 7 == 0 {
            masks.push((m, false, m % 3 == 0, false));
        }
    }
    // runtime-array variants
    for m in [0usize, 1, 2, 9, 63, 127, 255] {
        masks.push((m, true, m % 2 == 1, false));
    }
    // the runtime-array struct declared before all other structs (derive lists are per struct, whatever precedes)
    for m in [1usize, 2, 3, 4, 9, 16, 63, 255] {
        masks.push((m, true, m % 2 == 0, true));
    }
    for (m, with_r, extras, r_first) in masks {
        let has = |c: &str| m & (1 << comps.iter().position(|x| *x == c).unwrap()) != 0;
        let mut src = String::new();
        let mut structs = vec![];
        let mut vparams = vec![];
        let mut fparams = vec![];
        let mut binding = 0;
        let mut body = String::new();
        if with_r && r_first {
            src.push_str(&format!("struct RData {{ n: vec4<u32>, items: array<vec4<f32>> }};\n@group(0) @binding({binding}) var<storage, read> r_data: RData;\n"));
            binding += 1;
            structs.push(RoleStruct { name: "RData", host: true, rts: true });
        }
        if has("V") {
            src.push_str("struct VOnly { @location(0) pos: vec4<f32>, @builtin(vertex_index) vi: u32, @location(1) uv: vec2<f32> };\n");
            structs.push(RoleStruct { name: "VOnly", host: false, rts: false });
            vparams.push("a: VOnly");
        }
        if has("H") {
            src.push_str(&format!("struct HOnly {{ a: vec4<f32>, m: mat4x4<f32> }};\n@group(0) @binding({binding}) var<uniform> h_only: HOnly;\n"));
            binding += 1;
            structs.push(RoleStruct { name: "HOnly", host: true, rts: false });
            body.push_str("    acc += h_only.a.x;\n");
        }
        if has("B") {
            src.push_str(&format!("struct Both {{ @location(2) q: vec4<f32> }};\n@group(0) @binding({binding}) var<storage, read> both_var: Both;\n"));
            binding += 1;
            structs.push(RoleStruct { name: "Both", host: true, rts: false });
            vparams.push("b: Both");
        }
        if has("F") {
            src.push_str("struct FOnly { @location(0) c: vec4<f32>, @builtin(position) fpos: vec4<f32> };\n");
            structs.push(RoleStruct { name: "FOnly", host: false, rts: false });
            fparams.push("f: FOnly");
        }
        if has("N") {
            src.push_str(&format!("struct NInner {{ x: vec4<f32> }};\nstruct NOuter {{ inner: NInner, k: vec4<f32>, arr: array<NInner, 2> }};\n@group(0) @binding({binding}) var<storage, read_write> nested: NOuter;\n"));
            binding += 1;
            structs.push(RoleStruct { name: "NInner", host: true, rts: false });
            structs.push(RoleStruct { name: "NOuter", host: true, rts: false });
        }
        if has("W") {
            src.push_str("struct WData { w: vec4<f32> };\nvar<workgroup> wg_data: WData;\nstruct PData { p: vec4<u32> };\nvar<private> pv_data: PData;\n");
            structs.push(RoleStruct { name: "WData", host: true, rts: false });
            structs.push(RoleStruct { name: "PData", host: true, rts: false });
        }
        if has("P") {
            // a struct-typed push constant: host-shareable struct that also feeds create_pipeline_layout
            src.push_str("struct PushConsts { tint: vec4<f32>, offset: vec4<f32> };\nvar<push_constant> push_consts: PushConsts;\n");
            structs.push(RoleStruct { name: "PushConsts", host: true, rts: false });
            body.push_str("    acc += push_consts.tint.x;\n");
        }
        if has("L") {
            // member shapes must not influence the derive list: long arrays, nested long arrays
            src.push_str(&format!("struct LInner {{ big: array<vec4<f32>, 33> }};\nstruct LOuter {{ inner: LInner, grid: array<array<u32, 40>, 2>, small: array<f32, 32> }};\n@group(0) @binding({binding}) var<storage, read> long_arrays: LOuter;\n"));
            binding += 1;
            structs.push(RoleStruct { name: "LInner", host: true, rts: false });
            structs.push(RoleStruct { name: "LOuter", host: true, rts: false });
        }
        if with_r && !r_first {
            src.push_str(&format!("struct RData {{ n: vec4<u32>, items: array<vec4<f32>> }};\n@group(0) @binding({binding}) var<storage, read> r_data: RData;\n"));
            binding += 1;
            structs.push(RoleStruct { name: "RData", host: true, rts: true });
        }
        if extras {
            let (pc_decl, pc_use) = if has("P") { ("", "1.0") } else { ("var<push_constant> pc: vec4<f32>;\n", "pc.x") };
            src.push_str(&format!("const SCALE: f32 = 2.0;\noverride gain: f32 = 1.0;\n@id(4) override on: bool;\n{pc_decl}@group(0) @binding({binding}) var tex: texture_2d<f32>;\n@group(0) @binding({}) var smp: sampler;\n", binding + 1));
            body.push_str(&format!("    acc += {pc_use} * gain * SCALE;\n    if on {{ acc += textureSampleLevel(tex, smp, vec2<f32>(0.0), 0.0).x; }}\n"));
        }
        let _ = binding;
        src.push_str(&format!("@vertex fn vs_main({}) -> @builtin(position) vec4<f32> {{\n    var acc: f32 = 0.0;\n{body}    return vec4<f32>(acc);\n}}\n", vparams.join(", ")));
        src.push_str(&format!("@fragment fn fs_main({}) -> @location(0) vec4<f32> {{\n    return vec4<f32>(1.0);\n}}\n", fparams.join(", ")));
        src.push_str("@compute @workgroup_size(2, 3) fn cs_main() {\n}\n");
        let key = format!("roles={}{}{}", comps.iter().filter(|c| has(c)).cloned().collect::<String>(), if with_r && r_first { "R1st" } else if with_r { "R" } else { "" }, if extras { "+extras" } else { "" });
        out.push(Prog { key, src, structs });
    }
    // every vector / matrix shape as a member (directly and in arrays) of a host-only and of a vertex-only struct: the
    // field types are a function of the representation alone, never of the derive switches
    {
        let mut members = vec![];
        let mut i = 0;
        for t in ["vec2<f32>", "vec3<f32>", "vec4<f32>", "vec3<u32>", "vec2<i32>", "mat2x2<f32>", "mat3x3<f32>", "mat4x4<f32>", "mat2x3<f32>", "mat4x3<f32>", "mat3x4<f32>", "array<mat3x3<f32>, 2>", "array<vec3<f32>, 3>", "array<mat2x2<f32>, 2>"] {
            members.push(format!("m{i}: {t}"));
            i += 1;
        }
        let src = format!("struct MatHost {{ {} }};\n@group(0) @binding(0) var<uniform> mat_host: MatHost;\nstruct VecVertex {{ @location(0) a: vec2<f32>, @location(1) b: vec3<f32>, @location(2) c: vec4<f32>, @location(3) d: vec3<u32> }};\n@vertex fn vs_main(v: VecVertex) -> @builtin(position) vec4<f32> {{\n    return vec4<f32>(mat_host.m0.x);\n}}\n@fragment fn fs_main() -> @location(0) vec4<f32> {{\n    return vec4<f32>(1.0);\n}}\n@compute @workgroup_size(2, 3) fn cs_main() {{\n}}\n", members.join(", "));
        out.push(Prog { key: "roles=matrix-members".into(), src, structs: vec![RoleStruct { name: "MatHost", host: true, rts: false }, RoleStruct { name: "VecVertex", host: false, rts: false }] });
    }
    // host structs by kind of member (atomics directly / nested / in arrays / under a runtime array, 64-bit floats,
    // arrays of structs, bool in a workgroup struct): the truth table does not depend on what the members are
    {
        let kinds: [(&'static str, &'static str, &'static str, bool); 12] = [
            ("bool-private", "struct KHost { on: bool, level: f32 };\n", "PRIVATE", false),
            ("bool-workgroup", "struct KHost { mask: vec3<bool>, level: f32 };\n", "WORKGROUP", false),
            ("bool-nested-private", "struct KInner { flag: bool };\nstruct KHost { inner: KInner, k: vec2<f32> };\n", "PRIVATE", false),
            ("bool-array-workgroup", "struct KInner { flags: array<bool, 3> };\nstruct KHost { items: array<KInner, 2>, n: u32 };\n", "WORKGROUP", false),
            ("atomic-direct", "struct KHost { hits: atomic<u32>, misses: atomic<i32>, scale: f32 };\n", "var<storage, read_write> k_host: KHost;", false),
            ("atomic-nested", "struct KInner { n: atomic<u32> };\nstruct KHost { head: vec4<f32>, inner: KInner };\n", "var<storage, read_write> k_host: KHost;", false),
            ("atomic-array", "struct KHost { slots: array<atomic<u32>, 4>, tail: u32 };\n", "var<storage, read_write> k_host: KHost;", false),
            ("atomic-runtime", "struct KInner { n: atomic<i32>, w: f32 };\nstruct KHost { count: u32, items: array<KInner> };\n", "var<storage, read_write> k_host: KHost;", true),
            ("atomic-workgroup", "struct KHost { n: atomic<u32>, v: vec2<f32> };\n", "WORKGROUP", false),
            ("f64-members", "struct KHost { a: f64, b: vec2<f64>, c: f32 };\n", "var<storage, read> k_host: KHost;", false),
            ("array-of-structs", "struct KInner { p: vec3<f32>, q: f32 };\nstruct KHost { items: array<KInner, 3>, n: u32 };\n", "var<uniform> k_host: KHost;", false),
            ("nested-three-deep", "struct KLeaf { x: vec4<f32> };\nstruct KInner { leaf: KLeaf, y: vec4<f32> };\nstruct KHost { inner: KInner, z: vec4<f32> };\n", "var<uniform> k_host: KHost;", false),
        ];
        for (kind, decls, var, rts) in kinds {
            let binding = if var == "WORKGROUP" { "var<workgroup> k_host: KHost;".to_string() } else if var == "PRIVATE" { "var<private> k_host: KHost;".to_string() } else { format!("@group(0) @binding(0) {var}") };
            let src = format!("{decls}{binding}\nstruct KVertex {{ @location(0) a: vec4<f32>, @location(1) b: vec2<u32> }};\n@vertex fn vs_main(v: KVertex) -> @builtin(position) vec4<f32> {{\n    return v.a;\n}}\n@compute @workgroup_size(2, 3) fn cs_main() {{\n    _ = &k_host;\n}}\n");
            let mut structs = vec![RoleStruct { name: "KHost", host: true, rts }, RoleStruct { name: "KVertex", host: false, rts: false }];
            if decls.contains("struct KInner") {
                structs.push(RoleStruct { name: "KInner", host: true, rts: false });
            }
            if decls.contains("struct KLeaf") {
                structs.push(RoleStruct { name: "KLeaf", host: true, rts: false });
            }
            out.push(Prog { key: format!("roles=member-kinds-{kind}"), src, structs });
        }
    }
    // entry-input structs made only of builtins (no field survives): the derive switches apply to them like to any struct
    {
        let src = "struct VBuiltins { @builtin(vertex_index) vi: u32, @builtin(instance_index) ii: u32 };\nstruct FBuiltins { @builtin(position) fpos: vec4<f32>, @builtin(front_facing) ff: bool };\nstruct CBuiltins { @builtin(global_invocation_id) gid: vec3<u32>, @builtin(local_invocation_index) li: u32 };\nstruct HostToo { k: vec4<f32> };\n@group(0) @binding(0) var<uniform> host_too: HostToo;\n@vertex fn vs_main(v: VBuiltins) -> @builtin(position) vec4<f32> {\n    return host_too.k;\n}\n@fragment fn fs_main(f: FBuiltins) -> @location(0) vec4<f32> {\n    return vec4<f32>(1.0);\n}\n@compute @workgroup_size(2, 3) fn cs_main(c: CBuiltins) {\n}\n".to_string();
        out.push(Prog { key: "roles=builtin-only".into(), src, structs: vec![RoleStruct { name: "VBuiltins", host: false, rts: false }, RoleStruct { name: "FBuiltins", host: false, rts: false }, RoleStruct { name: "CBuiltins", host: false, rts: false }, RoleStruct { name: "HostToo", host: true, rts: false }] });
    }
    // modules without a vertex entry point (fragment stage only / compute only / no entry at all): the switches apply to the
    // structs of the module, whatever stages its entry points belong to
    {
        let decls = "struct FragIn { @location(0) c: vec4<f32>, @builtin(position) fpos: vec4<f32>, @location(1) uv: vec2<f32> };\nstruct CompIn { @builtin(global_invocation_id) gid: vec3<u32> };\nstruct HostOnly2 { k: vec4<f32>, m: mat4x4<f32> };\n@group(0) @binding(0) var<uniform> host_only2: HostOnly2;\n";
        let fs = "@fragment fn fs_main(f: FragIn) -> @location(0) vec4<f32> {\n    return host_only2.k;\n}\n";
        let cs = "@compute @workgroup_size(2, 3) fn cs_main(c: CompIn) {\n}\n";
        let role = |name: &'static str, host: bool| RoleStruct { name, host, rts: false };
        out.push(Prog { key: "roles=stage-mix-fragment-only".into(), src: format!("{decls}{fs}"), structs: vec![role("FragIn", false), role("HostOnly2", true)] });
        out.push(Prog { key: "roles=stage-mix-compute-only".into(), src: format!("{decls}{cs}"), structs: vec![role("CompIn", false), role("HostOnly2", true)] });
        out.push(Prog { key: "roles=stage-mix-fragment-compute".into(), src: format!("{decls}{fs}{cs}"), structs: vec![role("FragIn", false), role("CompIn", false), role("HostOnly2", true)] });
        out.push(Prog { key: "roles=stage-mix-no-entry".into(), src: decls.to_string(), structs: vec![role("HostOnly2", true)] });
    }
    // a struct nested in a host struct at each member position, with members of repeated types around it; the nested
    // struct is also a vertex input / only nested
    for pos in 0..3usize {
        for also_vertex in [false, true] {
            for second_global in [false, true] {
                let mut members = vec!["t: f32", "dt: f32"];
                members.insert(pos, "first: NestedBoth");
                let mut src = format!("struct NestedBoth {{ @location(0) v: vec4<f32> }};\nstruct SceneHost {{ {} }};\n", members.join(", "));
                let mut binding = 0;
                if second_global {
                    // a global declared earlier whose type is seen again inside the struct
                    src.push_str("@group(0) @binding(0) var<uniform> earlier_time: f32;\n");
                    binding = 1;
                }
                src.push_str(&format!("@group(0) @binding({binding}) var<storage, read> scene_host: SceneHost;\n"));
                let vparam = if also_vertex { "nb: NestedBoth" } else { "" };
                src.push_str(&format!("@vertex fn vs_main({vparam}) -> @builtin(position) vec4<f32> {{\n    return vec4<f32>(scene_host.t);\n}}\n@fragment fn fs_main() -> @location(0) vec4<f32> {{\n    return vec4<f32>(1.0);\n}}\n@compute @workgroup_size(2, 3) fn cs_main() {{\n}}\n"));
                let structs = vec![RoleStruct { name: "NestedBoth", host: true, rts: false }, RoleStruct { name: "SceneHost", host: true, rts: false }];
                out.push(Prog { key: format!("roles=nested-both|pos={pos}|vertex={}|earlier={}", also_vertex as u8, second_global as u8), src, structs });
            }
        }
    }
    out
}

pub fn expected_derives(s: &RoleStruct, c: &Config) -> BTreeSet<String> {
    let mut d: BTreeSet<String> = ["Debug", "Clone", "PartialEq"].iter().map(|x| x.to_string()).collect();
    if !s.rts {
        d.insert("Copy".into());
    }
    if (c.bytemuck_vertex && !s.host) || (c.bytemuck_host && s.host) {
        d.insert("bytemuck::Pod".into());
        d.insert("bytemuck::Zeroable".into());
    }
    if c.encase && s.host {
        d.insert("encase::ShaderType".into());
    }
    if c.serde {
        d.insert("serde::Serialize".into());
        d.insert("serde::Deserialize".into());
    }
    d
}

struct Split {
    /// struct name -> (derives, repr, field list "name:type", attrs per field)
    structs: BTreeMap<String, (BTreeSet<String>, Vec<String>, Vec<String>)>,
    asserted: BTreeSet<String>,
    /// normalised tokens of everything that is not a user struct item or a layout assertion
    rest: Vec<String>,
}

fn split(text: &str, user: &[&str]) -> Result<Split, String> {
    use quote::ToTokens;
    let file = syn::parse_file(text).map_err(|e| e.to_string())?;
    let m = omodel::parse(text)?;
    let mut structs = BTreeMap::new();
    for s in &m.top.structs {
        if user.contains(&s.name.as_str()) {
            if structs
                .insert(
                    s.name.clone(),
                    (s.derives.iter().cloned().collect(), s.repr.clone(), s.fields.iter().map(|f| format!("{}:{}:{}", f.name, f.ty, f.attrs.join(" "))).collect()),
                )
                .is_some()
            {
                return Err(format!("struct {} emitted twice", s.name));
            }
        }
    }
    let asserted = m.top.assertions.iter().map(|a| a.struct_name.clone()).collect();
    let mut rest_ts = proc_macro2::TokenStream::new();
    for item in &file.items {
        let skip = match item {
            syn::Item::Struct(s) => user.contains(&s.ident.to_string().as_str()),
            syn::Item::Const(c) => c.ident == "_",
            _ => false,
        };
        if !skip {
            item.to_tokens(&mut rest_ts);
        }
    }
    Ok(Split { structs, asserted, rest: norm_tokens(&rest_ts.to_string())? })
}

pub fn run(tier: &str) -> i32 {
    let mut rep = Report::new("C09", tier);
    let thorough = rep.thorough();
    let mut progs = programs();
    if !thorough {
        // quick: every single component and the full set, plus runtime-array variants
        progs.retain(|p| p.key.len() <= "roles=XX".len() || p.key.contains("VHBFNW") || p.key.contains('R') || p.key.contains("nested-both") || p.key.contains("matrix-members") || p.key.contains("builtin-only") || p.key.contains("stage-mix") || p.key.contains("member-kinds"));
        let _ = 0;
    }
    let configs = all_configs_192();
    let items: Vec<(usize, usize)> = (0..progs.len()).flat_map(|p| (0..configs.len()).map(move |c| (p, c))).collect();
    // quick: the formatter-on half of the configurations only for the single-component programs and the full set
    let fmt_too = |key: &str| thorough || key.len() <= "roles=XX".len() || key.contains("VHBFNW") || key.contains("member-kinds") || key.contains("stage-mix") || key.contains("builtin-only");
    let outs = par_map(&items, |(p, c)| {
        if configs[*c].rustfmt && !fmt_too(&progs[*p].key) {
            return None;
        }
        let o = generate(&progs[*p].src, &configs[*c]);
        // the output is read here (in parallel); the verdicts are drawn below
        let user: Vec<&str> = progs[*p].structs.iter().map(|s| s.name).collect();
        let sp = match &o {
            Outcome::Ok(t) => Some(split(t, &user)),
            _ => None,
        };
        Some((o, sp))
    });
    // per program: reference = the first Ok configuration's `rest`
    let mut texts: BTreeMap<(usize, usize), String> = BTreeMap::new();
    for (pi, p) in progs.iter().enumerate() {
        if let Err(e) = naga_check(&p.src) {
            machinery(&format!("C09 program {} is not valid WGSL: {e}\n{}", p.key, p.src));
        }
        let user: Vec<&str> = p.structs.iter().map(|s| s.name).collect();
        let mut reference: Option<(usize, Vec<String>)> = None;
        let mut fields_by_repr: BTreeMap<Repr, BTreeMap<String, Vec<String>>> = BTreeMap::new();
        for (ci, c) in configs.iter().enumerate() {
            rep.states += 1;
            rep.transitions += 1;
            rep.evaluations += 1;
            let case = format!("{}|{}", p.key, c.key());
            let (out, pre_split) = match &outs[pi * configs.len() + ci] {
                Some((o, sp)) => (o, sp),
                None => continue,
            };
            let text = match out {
                Outcome::Ok(t) => t,
                // documented rejections: a struct ending in a runtime-sized array needs encase and cannot take the bytemuck
                // derives; such a struct is always host-shareable (it is a storage variable's type), so only the
                // host-shareable bytemuck switch can ask for Pod on it - the vertex switch never applies to it
                Outcome::Panic(m) if p.structs.iter().any(|s| s.rts) && m.contains("Runtime-sized array") && (!c.encase || c.bytemuck_host) => {
                    rep.filtered("documented panic: runtime-sized array with an unsupported option combination");
                    continue;
                }
                other => {
                    // every program here is valid WGSL inside the feature set: a switch may only change the part it documents,
                    // it may not make generation fail
                    rep.violation(case, format!("an option combination that only selects derives makes generation fail: {}", other.class().chars().take(100).collect::<String>()), json!({"wgsl": p.src, "config": c.key()}));
                    continue;
                }
            };
            texts.insert((pi, ci), text.clone());
            let detail = |obs: String| json!({"wgsl": p.src, "config": c.key(), "observed": obs});
            let sp = match pre_split.as_ref().unwrap_or_else(|| machinery("C09: output not read")) {
                Ok(s) => s,
                Err(e) => {
                    rep.violation(case, format!("output not readable: {e}"), detail(e.clone()));
                    continue;
                }
            };
            rep.nontrivial.insert(hash64(&format!("{}{}", p.src, c.key())));
            // 1. truth table
            for s in &p.structs {
                match sp.structs.get(s.name) {
                    None => rep.violation(case.clone(), format!("struct {} not emitted", s.name), detail(String::new())),
                    Some((derives, repr, _)) => {
                        let exp = expected_derives(s, c);
                        if *derives != exp {
                            let extra: Vec<_> = derives.difference(&exp).collect();
                            let missing: Vec<_> = exp.difference(derives).collect();
                            rep.violation(case.clone(), format!("derives of {} ({}): unexpected {extra:?}, missing {missing:?}", s.name, if s.host { "host-shareable" } else { "not host-shareable" }), detail(format!("{derives:?}")));
                        }
                        let want_repr: Vec<String> = if s.rts { vec![] } else { vec!["C".to_string()] };
                        if *repr != want_repr {
                            rep.violation(case.clone(), format!("repr of {}: {repr:?} expected {want_repr:?}", s.name), detail(format!("{repr:?}")));
                        }
                        let want_assert = c.bytemuck_host && s.host;
                        if sp.asserted.contains(s.name) != want_assert {
                            rep.violation(case.clone(), format!("layout assertions for {} {}", s.name, if want_assert { "missing" } else { "present although the bytemuck host-shareable switch is off or the struct is not host-shareable" }), detail(String::new()));
                        }
                        rep.outcomes.insert(format!("{derives:?}{repr:?}"));
                    }
                }
            }
            // 2. non-interference outside the struct items
            match &reference {
                None => reference = Some((ci, sp.rest.clone())),
                Some((rci, r)) => {
                    if *r != sp.rest {
                        let pos = r.iter().zip(sp.rest.iter()).position(|(a, b)| a != b).unwrap_or(r.len().min(sp.rest.len()));
                        rep.violation(
                            case.clone(),
                            format!("output outside the struct items differs from configuration {} (first differing token #{pos}: `{}` vs `{}`)", configs[*rci].key(), r.get(pos).cloned().unwrap_or_default(), sp.rest.get(pos).cloned().unwrap_or_default()),
                            detail(String::new()),
                        );
                    }
                }
            }
            // 3. fields depend only on the representation
            let f: BTreeMap<String, Vec<String>> = sp.structs.iter().map(|(k, v)| (k.clone(), v.2.clone())).collect();
            match fields_by_repr.get(&c.repr) {
                None => {
                    fields_by_repr.insert(c.repr, f);
                }
                Some(prev) => {
                    if *prev != f {
                        rep.violation(case.clone(), "struct fields differ between configurations with the same representation".to_string(), detail(format!("{f:?}")));
                    }
                }
            }
        }
    }
    if std::env::var("VERIF_TIMING").is_ok() { eprintln!("C09 timing: model phase done at {:.1}s", rep.start.elapsed().as_secs_f64()); }
    // ---- compiled subset: trait-implementation probes
    let mut cases = vec![];
    let mut index: BTreeMap<String, (usize, usize)> = BTreeMap::new();
    let wanted_progs: Vec<usize> = (0..progs.len()).filter(|i| thorough || progs[*i].key.contains("VHBFNW") || progs[*i].key == "roles=R" || progs[*i].key == "roles=V" || progs[*i].key == "roles=H").collect();
    for pi in wanted_progs {
        for (ci, c) in configs.iter().enumerate() {
            if c.rustfmt || c.validate != Validate::Off {
                continue;
            }
            // quick: Rust + Glam, thorough: all three
            if !thorough && c.repr == Repr::Nalgebra {
                continue;
            }
            // the nalgebra stand-in has no encase impls (encase's nalgebra feature needs the real crate)
            if c.repr == Repr::Nalgebra && c.encase {
                continue;
            }
            if let Some(t) = texts.get(&(pi, ci)) {
                let name = format!("c_{pi:03}_{ci:03}");
                let mut body = String::new();
                for s in &progs[pi].structs {
                    let n = s.name;
                    body.push_str(&format!(
                        "    out.push(format!(\"{{{{\\\"op\\\":\\\"traits\\\",\\\"struct\\\":\\\"{n}\\\",\\\"Debug\\\":{{}},\\\"Clone\\\":{{}},\\\"PartialEq\\\":{{}},\\\"Copy\\\":{{}},\\\"bytemuck::Pod\\\":{{}},\\\"bytemuck::Zeroable\\\":{{}},\\\"encase::ShaderType\\\":{{}},\\\"serde::Serialize\\\":{{}},\\\"serde::Deserialize\\\":{{}}}}}}\", implements!(generated::{n}: std::fmt::Debug), implements!(generated::{n}: Clone), implements!(generated::{n}: PartialEq), implements!(generated::{n}: Copy), implements!(generated::{n}: bytemuck::Pod), implements!(generated::{n}: bytemuck::Zeroable), implements!(generated::{n}: encase::ShaderType), implements!(generated::{n}: serde::Serialize), implements!(generated::{n}: for<'de> serde::Deserialize<'de>)));\n"
                    ));
                }
                index.insert(name.clone(), (pi, ci));
                cases.push(ProbeCase { name, generated: t.clone(), probe_body: body, probe_items: String::new(), files: vec![] });
            }
        }
    }
    let results = probe::run_batch("C09", &cases, true);
    if std::env::var("VERIF_TIMING").is_ok() { eprintln!("C09 timing: probes done at {:.1}s", rep.start.elapsed().as_secs_f64()); }
    for cr in &results {
        let (pi, ci) = index[&cr.name];
        let (p, c) = (&progs[pi], &configs[ci]);
        let case = format!("{}|{}", p.key, c.key());
        match &cr.check {
            Verdict::Accepted => {}
            Verdict::Rejected(_) => {
                rep.filtered("compiled subset: module rejected by rustc (C01/C05's domain)");
                continue;
            }
            Verdict::ProbeMismatch(e) => machinery(&format!("C09 probe does not compile for {case}: {e:?}")),
        }
        rep.traces_validated += 1;
        for rec in cr.records.iter().filter(|r| r["op"] == "traits") {
            let s = p.structs.iter().find(|s| s.name == rec["struct"].as_str().unwrap()).unwrap();
            let exp = expected_derives(s, c);
            for t in ["Debug", "Clone", "PartialEq", "Copy", "bytemuck::Pod", "bytemuck::Zeroable", "encase::ShaderType", "serde::Serialize", "serde::Deserialize"] {
                let has = rec[t].as_bool().unwrap();
                if has != exp.contains(t) {
                    rep.violation(case.clone(), format!("exec: {} {} {t}", s.name, if has { "implements" } else { "does not implement" }), json!({"wgsl": p.src, "config": c.key()}));
                }
            }
        }
    }
    // ---- non-interference over the other properties' program spaces: whatever a shader contains (every resource kind,
    // constants, overrides, push constants, entry shapes, vertex inputs, call graphs), the tokens outside the user struct
    // items are the same under every option set
    {
        let mut corpus: Vec<(String, String)> = crate::c18::corpus().into_iter().filter(|(k, _, _)| !k.starts_with("name|")).map(|(k, s, _)| (format!("atoms|{k}"), s)).collect(); // (user items named like generated items cannot be told apart in the split)
        for (i, p) in crate::c14::space(false).into_iter().enumerate() {
            if thorough || i % 5 == 0 {
                corpus.push((format!("c14|{}", p.key), p.src));
            }
        }
        for p in crate::c12::space(false) {
            corpus.push((format!("c12|{}", p.key), p.src));
        }
        for (i, p) in crate::c07::space(false).into_iter().enumerate() {
            if thorough || i % 9 == 0 {
                corpus.push((format!("c07|{}", p.key), p.src));
            }
        }
        for (i, p) in crate::c03::space_c(false).into_iter().chain(crate::c03::space_a_k(false, 2)).enumerate() {
            if thorough || i % 8 == 0 {
                corpus.push((format!("c03|{}", p.key), p.src));
            }
        }
        let alts = [
            Config::default(),
            Config { encase: true, ..Config::default() },
            Config { bytemuck_vertex: true, serde: true, encase: true, repr: Repr::Nalgebra, ..Config::default() },
            Config { bytemuck_host: true, encase: true, repr: Repr::Glam, ..Config::default() },
            Config { validate: Validate::All, encase: true, serde: true, ..Config::default() },
            Config { bytemuck_vertex: true, bytemuck_host: true, ..Config::default() },
        ];
        let alts: Vec<Config> = if thorough { alts.to_vec() } else { vec![alts[0], alts[2], alts[3], alts[4]] };
        let res = par_map(&corpus, |(key, src)| {
            let module = match naga::front::wgsl::parse_str(src) {
                Ok(m) => m,
                Err(_) => return (key.clone(), vec![], 0usize),
            };
            let user: Vec<String> = module.types.iter().filter(|(_, t)| matches!(t.inner, naga::TypeInner::Struct { .. })).filter_map(|(_, t)| t.name.clone()).collect();
            let user_ref: Vec<&str> = user.iter().map(|s| s.as_str()).collect();
            let mut reference: Option<(String, Vec<String>)> = None;
            let mut diffs = vec![];
            let mut n_ok = 0;
            for c in alts.iter() {
                if let Outcome::Ok(t) = generate(src, c) {
                    match split(&t, &user_ref) {
                        Ok(sp) => {
                            n_ok += 1;
                            match &reference {
                                None => reference = Some((c.key(), sp.rest)),
                                Some((rk, r)) => {
                                    if *r != sp.rest {
                                        let pos = r.iter().zip(sp.rest.iter()).position(|(a, b)| a != b).unwrap_or(r.len().min(sp.rest.len()));
                                        diffs.push((c.key(), format!("tokens outside the struct items differ from {rk} at #{pos}: `{}` vs `{}`", r.get(pos).cloned().unwrap_or_default(), sp.rest.get(pos).cloned().unwrap_or_default())));
                                    }
                                }
                            }
                        }
                        Err(e) => diffs.push((c.key(), format!("output not readable: {e}"))),
                    }
                }
            }
            (key.clone(), diffs, n_ok)
        });
        for ((key, diffs, n_ok), (_, src)) in res.into_iter().zip(corpus.iter()) {
            rep.states += 1;
            rep.evaluations += alts.len() as u64;
            if n_ok >= 2 {
                rep.count("corpus programs compared across option sets");
            }
            for (ck, d) in diffs {
                rep.violation(format!("corpus|{key}|{ck}"), format!("non-interference: {d}"), json!({"wgsl": src, "config": ck}));
            }
        }
    }
    rep.set("compiled_modules", json!(index.len()));
    rep.sample(json!({"key": progs[0].key, "wgsl": progs[0].src}));
    rep.sample(json!({"key": progs[progs.len() - 1].key, "wgsl": progs[progs.len() - 1].src}));
    rep.rule = format!("{} role shaders (vertex-only, host-only, both, fragment-input-only, nested host, workgroup/private host, runtime-array-terminated; with/without consts, overrides, push constant, textures; entries of all three stages) x all 192 configurations (16 derive masks x 3 representations x formatter x validation). Oracle: derive/repr/assertion truth table per (role, options); differential non-interference (tokens outside user struct items identical across all configurations of a shader; fields depend only on the representation). The same differential over ~1 500 programs of the other properties' spaces under 6 option sets. Trait-implementation probes on compiled modules confirm that the derives mean what they say.", progs.len());
    rep.finish()
}
