//! C06 — struct fields keep WGSL order, names and element types.
use crate::common::*;
use crate::probe::{self, ProbeCase, Verdict};
use crate::structspace::*;
use serde_json::json;
use std::collections::BTreeMap;
use wgslgen::{Member, Scalar, Ty};

/// 64-bit integer members (naga accepts them; the unchanged generator refuses them - if a tree emits them,
/// kind / width / counts / layout are checked like every other member).
pub fn int64_space() -> Vec<StructProg> {
    let mut out = vec![];
    for s64 in [Scalar::I64, Scalar::U64] {
        let shapes: Vec<(String, Ty)> = vec![
            ("scalar".into(), Ty::Scalar(s64)),
            ("vec2".into(), Ty::Vec(2, s64)),
            ("vec3".into(), Ty::Vec(3, s64)),
            ("vec4".into(), Ty::Vec(4, s64)),
            ("array-vec2".into(), Ty::Array(Box::new(Ty::Vec(2, s64)), 3)),
            ("array-scalar".into(), Ty::Array(Box::new(Ty::Scalar(s64)), 2)),
            ("rt-vec4".into(), Ty::RtArray(Box::new(Ty::Vec(4, s64)))),
        ];
        for (label, t) in shapes {
            let mut members = vec![Member::plain("narrow", Ty::Vec(2, Scalar::U32))];
            members.push(Member::plain("wide", t));
            out.push(make_prog(members, "storage", format!("int64|{}|{label}", s64.wgsl())));
        }
    }
    out
}

/// Extra programs beyond C05's space: IO structs with builtins interleaved, runtime arrays, bools.
pub fn extra_space() -> Vec<StructProg> {
    let mut out = struct_space(false, false, false, true);
    out.retain(|p| p.key.starts_with("rt"));
    let f = Scalar::F32;
    // private / workgroup structs with bool members
    for space in ["private", "workgroup"] {
        out.push(make_prog(vec![Member::plain("flag", Ty::Scalar(Scalar::Bool)), Member::plain("v", Ty::Vec(3, f))], space, format!("bool|{space}|scalar")));
        out.push(make_prog(vec![Member::plain("v", Ty::Vec(2, Scalar::Bool)), Member::plain("w", Ty::Array(Box::new(Ty::Scalar(Scalar::Bool)), 3))], space, format!("bool|{space}|vec-array")));
    }
    out.extend(int64_space());
    // vertex / fragment input structs with builtins at every position
    let attr_types = [Ty::Scalar(f), Ty::Vec(2, f), Ty::Vec(3, f), Ty::Vec(4, f), Ty::Scalar(Scalar::U32), Ty::Vec(2, Scalar::I32), Ty::Vec(4, Scalar::U32), Ty::Vec(3, Scalar::F64)];
    for (i, a) in attr_types.iter().enumerate() {
        for (j, b) in attr_types.iter().enumerate() {
            for pos in 0..=2usize {
                let mut members = vec![Member::located("second", a.clone(), 4), Member::located("first", b.clone(), 1)];
                members.insert(pos, Member::builtin("vi", Ty::Scalar(Scalar::U32), "vertex_index"));
                if (i + j) % 2 == 0 {
                    members.push(Member::builtin("ii", Ty::Scalar(Scalar::U32), "instance_index"));
                }
                let mut env = base_env();
                env.add(wgslgen::StructDef { name: "Root".into(), members });
                let mut src = env.get("Root").wgsl(false);
                src.push_str("@vertex fn vs_main(input: Root) -> @builtin(position) vec4<f32> {\n    return vec4<f32>(0.0);\n}\n");
                out.push(StructProg { key: format!("vertex|{}|{}|builtin@{pos}", a.wgsl(), b.wgsl()), env, root: "Root".into(), space: "vertex-input", src });
            }
        }
    }
    for a in [Ty::Scalar(f), Ty::Vec(4, f), Ty::Vec(2, Scalar::U32)] {
        let members = vec![Member::builtin("pos", Ty::Vec(4, f), "position"), Member::located("colour", a.clone(), 0), Member::builtin("front", Ty::Scalar(Scalar::Bool), "front_facing"), Member::located("uv", Ty::Vec(2, f), 2)];
        let mut env = base_env();
        env.add(wgslgen::StructDef { name: "Root".into(), members });
        let mut src = env.get("Root").wgsl(true);
        src.push_str("@fragment fn fs_main(input: Root) -> @location(0) vec4<f32> {\n    return vec4<f32>(0.0);\n}\n");
        out.push(StructProg { key: format!("fragment|{}", a.wgsl()), env, root: "Root".into(), space: "fragment-input", src });
    }
    out
}

fn scalar_code(s: Scalar) -> &'static str {
    match s {
        Scalar::F32 => "f4",
        Scalar::F64 => "f8",
        Scalar::I32 => "i4",
        Scalar::U32 => "u4",
        Scalar::Bool => "b1",
        Scalar::I64 => "i8",
        Scalar::U64 => "u8",
    }
}

/// The structural denotations a field of WGSL type `t` may have under `repr` (several when the
/// statement leaves a freedom: matrix orientation of plain arrays).
pub fn expected_structural(t: &Ty, repr: Repr) -> Vec<String> {
    match t {
        Ty::Scalar(s) | Ty::Atomic(s) => vec![scalar_code(*s).to_string()],
        Ty::Vec(n, s) => {
            let typed = match repr {
                Repr::Rust => false,
                Repr::Glam => wgslgen::glam_has_type(t),
                Repr::Nalgebra => true,
            };
            if matches!(s, Scalar::I64 | Scalar::U64) && repr == Repr::Glam {
                // glam has I64VecN / U64VecN; the statement permits the typed form or the array fall-back
                vec![format!("vec({},{n})", scalar_code(*s)), format!("arr({},{n})", scalar_code(*s))]
            } else if typed {
                vec![format!("vec({},{n})", scalar_code(*s))]
            } else {
                vec![format!("arr({},{n})", scalar_code(*s))]
            }
        }
        Ty::Mat(c, r, s) => {
            let typed = match repr {
                Repr::Rust => false,
                Repr::Glam => wgslgen::glam_has_type(t),
                Repr::Nalgebra => true,
            };
            if typed {
                vec![format!("mat({},cols={c},rows={r})", scalar_code(*s))]
            } else {
                let mut v = vec![format!("arr(arr({},{r}),{c})", scalar_code(*s))];
                if c != r {
                    v.push(format!("arr(arr({},{c}),{r})", scalar_code(*s)));
                }
                v
            }
        }
        Ty::Array(e, n) => expected_structural(e, repr).into_iter().map(|x| format!("arr({x},{n})")).collect(),
        Ty::RtArray(e) => expected_structural(e, repr).into_iter().map(|x| format!("rt({x})")).collect(),
        Ty::Struct(n) => vec![format!("struct({n})")],
    }
}

/// Structural denotation of a Rust type string (same grammar as `probe_support::Denote`).
pub fn structural_of_rust(ty: &str) -> Result<String, String> {
    let d = wgslgen::denote_rust(ty)?;
    let mut s = match &d.strukt {
        Some(n) => format!("struct({n})"),
        None => format!("{}{}", d.kind, d.width),
    };
    let family_typed = ty.contains("glam::") || ty.contains("nalgebra::");
    if family_typed {
        // the innermost named type carries the shape; recover (cols, rows) from the name
        s = shape_of_named(ty)?;
    }
    // array dims apply from the inside out
    let dims: Vec<u32> = if family_typed { d.array_dims.clone() } else { d.array_dims.clone() };
    for n in dims.iter().rev() {
        s = format!("arr({s},{n})");
    }
    if d.runtime {
        s = format!("rt({s})");
    }
    Ok(s)
}

fn shape_of_named(ty: &str) -> Result<String, String> {
    // strip array / Vec wrappers
    let mut t = ty;
    loop {
        if let Some(inner) = t.strip_prefix("Vec<").and_then(|s| s.strip_suffix('>')) {
            t = inner;
        } else if t.starts_with('[') {
            let inner = &t[1..t.len() - 1];
            let mut depth = 0;
            let mut split = 0;
            for (i, c) in inner.char_indices() {
                match c {
                    '[' | '<' => depth += 1,
                    ']' | '>' => depth -= 1,
                    ';' if depth == 0 => split = i,
                    _ => {}
                }
            }
            t = &inner[..split];
        } else {
            break;
        }
    }
    let d = wgslgen::denote_rust(t)?;
    let sc = format!("{}{}", d.kind, d.width);
    if let Some(args) = t.strip_prefix("nalgebra::SMatrix<").and_then(|s| s.strip_suffix('>')) {
        let p: Vec<&str> = args.split(',').collect();
        return Ok(format!("mat({sc},cols={},rows={})", p[2], p[1]));
    }
    match d.shape.len() {
        1 => Ok(format!("vec({sc},{})", d.shape[0])),
        2 => Ok(format!("mat({sc},cols={},rows={})", d.shape[0], d.shape[1])), // glam matrices are square
        _ => Err(format!("no shape in {t}")),
    }
}

fn cfg_for(p: &StructProg, repr: Repr) -> Config {
    // encase on: runtime arrays are only supported with it
    Config { encase: p.key.starts_with("rt") || p.key.contains("|rt-"), repr, ..Config::default() }
}

pub fn check_model(p: &StructProg, repr: Repr, text: &str) -> Vec<String> {
    let m = omodel::parse(text).unwrap_or_else(|e| machinery(&format!("C06: {e}")));
    let mut out = vec![];
    for name in p.emitted() {
        let def = p.env.get(&name);
        let st = match m.top.structs.iter().find(|s| s.name == name) {
            Some(s) => s,
            None => {
                out.push(format!("struct {name} not emitted"));
                continue;
            }
        };
        let want: Vec<&Member> = def.members.iter().filter(|m| m.attrs.builtin.is_none()).collect();
        let got_names: Vec<&str> = st.fields.iter().map(|f| f.name.as_str()).collect();
        let want_names: Vec<&str> = want.iter().map(|m| m.name.as_str()).collect();
        if got_names != want_names {
            out.push(format!("{name}: fields {got_names:?}, WGSL non-builtin members {want_names:?}"));
            continue;
        }
        for (f, m) in st.fields.iter().zip(want.iter()) {
            let exp = expected_structural(&m.ty, repr);
            match structural_of_rust(&f.ty) {
                Ok(s) => {
                    if !exp.contains(&s) {
                        out.push(format!("{name}.{}: Rust type `{}` denotes {s}, WGSL `{}` needs {}", f.name, f.ty, m.ty.wgsl(), exp.join(" or ")));
                    }
                }
                Err(e) => out.push(format!("{name}.{}: Rust type `{}` is not a type of the selected representation ({e})", f.name, f.ty)),
            }
            let is_rt = matches!(m.ty, Ty::RtArray(_));
            let marked = f.attrs.iter().any(|a| a == "#[size(runtime)]");
            if is_rt != marked {
                out.push(format!("{name}.{}: runtime-size marker {} but member is {}a runtime array", f.name, if marked { "present" } else { "absent" }, if is_rt { "" } else { "not " }));
            }
            if !f.is_pub {
                out.push(format!("{name}.{} is not public", f.name));
            }
        }
    }
    out
}

pub fn denote_probe(p: &StructProg) -> (String, String) {
    let mut items = String::new();
    let mut body = String::new();
    for name in p.emitted() {
        items.push_str(&format!("impl Denote for generated::{name} {{ fn denote() -> String {{ \"struct({name})\".to_string() }} }}\n"));
        let def = p.env.get(&name);
        for m in def.members.iter().filter(|m| m.attrs.builtin.is_none()) {
            body.push_str(&format!(
                "    out.push(format!(\"{{{{\\\"op\\\":\\\"denote\\\",\\\"struct\\\":\\\"{name}\\\",\\\"field\\\":\\\"{}\\\",\\\"d\\\":{{}},\\\"offset\\\":{{}}}}}}\", jstr(&probe_support::field_denote::<generated::{name}, _>(|s| &s.{})), std::mem::offset_of!(generated::{name}, {})));\n",
                m.name, m.name, m.name
            ));
        }
    }
    (items, body)
}

pub fn run(tier: &str) -> i32 {
    let mut rep = Report::new("C06", tier);
    let thorough = rep.thorough();
    let mut progs = struct_space(true, thorough, false, false);
    progs.extend(extra_space());
    progs.extend(crate::c05::io_host_space());
    progs.extend(lookalike_space());
    progs.extend(named_members_space());
    // declarations-only modules (no entry point): structs reachable from variables are emitted and checked all the same
    {
        let n0 = progs.len();
        for i in 0..n0 {
            if (thorough || i % 9 == 0) && !progs[i].src.contains("@vertex") && !progs[i].src.contains("@fragment") {
                if let Some(src) = without_entry_points(&progs[i].src) {
                    let mut q = progs[i].clone();
                    q.key = format!("no-entry|{}", q.key);
                    q.src = src;
                    progs.push(q);
                }
            }
        }
    }
    // the bound struct (or a struct nested in it) shared with a var<private> / var<workgroup> declared before or after
    {
        let n0 = progs.len();
        for i in 0..n0 {
            if (thorough && i % 5 == 0) || i % 37 == 0 || progs[i].key == "s1|Inner" || progs[i].key == "s1|Deep" {
                let v = sibling_variants(&progs[i]);
                progs.extend(v);
            }
        }
    }
    // member / element types written through `alias` declarations (every 3rd program in quick)
    {
        let n0 = progs.len();
        for i in 0..n0 {
            if thorough || i % 3 == 0 || progs[i].key.starts_with("rt") {
                let v = alias_variants(&progs[i]);
                progs.extend(v);
            }
        }
    }
    let reprs = [Repr::Rust, Repr::Glam, Repr::Nalgebra];
    let items: Vec<(usize, Repr)> = (0..progs.len()).flat_map(|i| reprs.iter().map(move |r| (i, *r))).collect();
    let res = par_map(&items, |(i, r)| {
        let p = &progs[*i];
        match generate(&p.src, &cfg_for(p, *r)) {
            Outcome::Ok(t) => {
                let mut v = check_model(p, *r, &t);
                // field lists do not depend on the derive switches: the same check under other option sets
                // (every 3rd program in quick; all structs that are shader IO and host-shareable at once)
                if thorough || *i % 3 == 0 || p.key.contains("io-host|") || p.key.starts_with("bool|") || p.key.contains("atomic") {
                    let has_rt = Ty::Struct(p.root.clone()).has_rt_array(&p.env);
                    let mut alts = vec![Config { encase: true, bytemuck_vertex: true, serde: true, repr: *r, ..Config::default() }];
                    if !has_rt {
                        alts.push(Config { encase: true, bytemuck_host: true, repr: *r, ..Config::default() });
                    }
                    for alt in alts {
                        match generate(&p.src, &alt) {
                            Outcome::Ok(t2) => v.extend(check_model(p, *r, &t2).into_iter().map(|x| format!("[{}] {x}", alt.key()))),
                            other => v.push(format!("[{}] generation fails: {}", alt.key(), other.class().chars().take(80).collect::<String>())),
                        }
                    }
                }
                (Some(t), v)
            }
            other => {
                let valid = naga_check(&p.src).is_ok();
                let _ = valid;
                (None, vec![format!("<generator not Ok>{}", other.class())])
            }
        }
    });
    for ((i, r), (text, viols)) in items.iter().zip(res.iter()) {
        let p = &progs[*i];
        rep.states += 1;
        rep.transitions += p.env.get(&p.root).members.len() as u64;
        rep.evaluations += 1;
        if text.is_none() {
            match viols[0].strip_prefix("<generator not Ok>") {
                Some(class) => rep.generation_failed(format!("{}|{r:?}", p.key), class, &p.src, &cfg_for(p, *r)),
                None => rep.filtered(&viols[0]),
            }
            continue;
        }
        rep.nontrivial.insert(hash64(&format!("{}{r:?}", p.src)));
        for v in viols {
            rep.violation(format!("{}|{r:?}", p.key), format!("model: {v}"), json!({"wgsl": p.src, "config": cfg_for(p, *r).key(), "observed": v}));
        }
    }
    // compiled subset: structural denotation as resolved by rustc against the linked crates
    let stride = if thorough { (items.len() / 1500).max(1) } else { (items.len() / 220).max(1) };
    let mut cases = vec![];
    let mut index: BTreeMap<String, (usize, Repr)> = BTreeMap::new();
    for (k, ((i, r), (text, _))) in items.iter().zip(res.iter()).enumerate() {
        let p = &progs[*i];
        let special = !p.key.starts_with('s');
        if !(k % stride == 0 || (special && k % 7 == 0)) {
            continue;
        }
        if let Some(t) = text {
            let (pi, body) = denote_probe(p);
            let name = format!("c_{i:05}_{}", format!("{r:?}").to_lowercase());
            index.insert(name.clone(), (*i, *r));
            cases.push(ProbeCase { name, generated: t.clone(), probe_body: body, probe_items: pi, files: vec![] });
        }
    }
    let results = probe::run_batch("C06", &cases, true);
    for cr in &results {
        let (i, r) = index[&cr.name];
        let p = &progs[i];
        let case = format!("{}|{r:?}", p.key);
        let detail = |obs: String| json!({"wgsl": p.src, "config": cfg_for(p, r).key(), "observed": obs});
        match &cr.check {
            Verdict::Accepted => {}
            Verdict::Rejected(e) => {
                // the nalgebra stand-in has no encase impls (a limit of the stand-in, not of the module); anything else that
                // keeps a module of plain structs from compiling is a field whose type does not denote what it should
                if e.iter().all(|x| x.0 == "E0277" && (x.1.contains("SMatrix") || x.1.contains("SVector"))) {
                    rep.filtered("compiled subset: nalgebra stand-in types have no encase implementation");
                } else {
                    rep.violation(format!("{}|{r:?}", p.key), format!("exec: the emitted structs do not compile: {} {}", e[0].0, e[0].1.chars().take(90).collect::<String>()), json!({"wgsl": p.src, "config": cfg_for(p, r).key(), "observed": format!("{e:?}")}));
                }
                continue;
            }
            Verdict::ProbeMismatch(e) => {
                rep.violation(case, format!("exec: a WGSL member cannot be reached under its name/type: {} {}", e[0].0, e[0].1.chars().take(90).collect::<String>()), detail(format!("{e:?}")));
                continue;
            }
        }
        rep.traces_validated += 1;
        let mut last_off: BTreeMap<String, i64> = BTreeMap::new();
        for rec in cr.records.iter().filter(|x| x["op"] == "denote") {
            let s = rec["struct"].as_str().unwrap();
            let f = rec["field"].as_str().unwrap();
            let d = rec["d"].as_str().unwrap();
            let member = p.env.get(s).members.iter().find(|m| m.name == f).unwrap();
            let exp = expected_structural(&member.ty, r);
            if !exp.contains(&d.to_string()) {
                rep.violation(case.clone(), format!("exec: {s}.{f} has Rust type denoting {d}; WGSL `{}` needs {}", member.ty.wgsl(), exp.join(" or ")), detail(d.to_string()));
            }
            // conformance: the omodel reading of the same field agrees with rustc's resolution
            let off = rec["offset"].as_i64().unwrap();
            let e = last_off.entry(s.to_string()).or_insert(-1);
            if off <= *e && !p.key.starts_with("rt") {
                rep.violation(case.clone(), format!("exec: field {s}.{f} is not laid out after the preceding WGSL member (declaration order lost)"), detail(format!("offset {off}")));
            }
            *e = off;
            rep.outcomes.insert(d.to_string());
        }
    }
    rep.set("compiled_modules", json!(index.len()));
    for i in [5usize, progs.len() / 2, progs.len() - 3] {
        rep.sample(json!({"key": progs[i].key, "wgsl": progs[i].src}));
    }
    rep.rule = format!("C05's struct space (1- and 2-field structs over the {}-entry leaf table{}) plus trailing runtime arrays of 10 element types, bool members in private/workgroup structs, vertex/fragment input structs with builtins at every position; x Rust/Glam/Nalgebra. Oracle: field name sequence = non-builtin members in order; structural denotation (scalar kind, width, counts, array lengths, runtime marker, nested struct name) of every field type = that of the WGSL member under the representation (plain-array matrices may use either orientation). omodel on every state; a spread subset compiled and the denotation resolved by rustc against the linked glam / nalgebra stand-in.", leaf_table(true).len(), if thorough { ", 3-field structs over 8 representatives" } else { "" });
    rep.finish()
}
