//! C18 — output is a pure function of source and options (engine E3).
//!  (1) histories: every sequence of calls up to depth d over a colliding alphabet, one fresh process each;
//!  (2) schedules: real threads running real calls under a controlled, preemption-bounded scheduler
//!      driven by the `verif-hooks` yield points;
//!  (3) process boundary: enumerated hash seeds (getrandom interposer), working directories, environments;
//!  (4) syscall monitor (strace) and a syntactic audit of cross-call state.
use crate::common::*;
use serde_json::{json, Value};
use std::collections::{BTreeMap, BTreeSet};
use std::process::{Command, Stdio};
use std::sync::{Arc, Condvar, Mutex};

// ---------------------------------------------------------------------------------------------
// alphabet: inputs built to collide (same names, different stages / types / groups)

pub const SHADER_A: &str = "struct Data { a: vec4<f32>, b: f32 };\nstruct Extra { m: mat4x4<f32> };\nstruct VIn { @location(0) p: vec3<f32> };\n@group(0) @binding(0) var<uniform> data: Data;\n@group(0) @binding(1) var<storage, read> extra: Extra;\n@group(1) @binding(0) var tex: texture_2d<f32>;\nconst K: f32 = 1.0;\noverride ov: f32 = 2.0;\nfn helper() -> f32 { return data.b; }\n@vertex fn main(v: VIn) -> @builtin(position) vec4<f32> { return vec4<f32>(v.p * helper() * ov, K) + extra.m[0]; }\n@fragment fn shade() -> @location(0) vec4<f32> { return textureLoad(tex, vec2<i32>(0), 0); }\n";
pub const SHADER_B: &str = "struct Data { a: vec2<u32>, c: array<vec4<f32>, 3> };\nstruct Extra { m: vec3<f32>, k: f32 };\nstruct VIn { @location(3) q: vec2<f32>, @location(1) r: vec4<u32> };\n@group(0) @binding(4) var<storage, read_write> data: Data;\n@group(0) @binding(2) var<uniform> extra: Extra;\n@group(0) @binding(0) var tex: texture_storage_2d<rgba8unorm, write>;\nconst K: u32 = 7u;\noverride ov: bool;\nfn helper() -> u32 { return data.a.x; }\n@compute @workgroup_size(4) fn main() { data.a.y = helper() + K; textureStore(tex, vec2<i32>(0), vec4<f32>(extra.k)); }\n@vertex fn shade(v: VIn) -> @builtin(position) vec4<f32> { if ov { return vec4<f32>(v.q, 0.0, 1.0); } return vec4<f32>(0.0); }\n";
pub const SHADER_TYPES: &str = "struct T0 { a: f32 };\nstruct T1 { a: vec2<f32> };\nstruct T2 { a: vec4<f32> };\nstruct T3 { a: mat2x2<f32> };\nstruct T4 { a: T0, b: T1 };\n@group(0) @binding(0) var<uniform> v0: T0;\n@group(0) @binding(1) var<uniform> v1: T1;\n@group(0) @binding(2) var<uniform> v2: T2;\n@group(0) @binding(3) var<uniform> v3: T3;\n@group(0) @binding(4) var<uniform> v4: T4;\n@compute @workgroup_size(1) fn main() { let x = v0.a + v1.a.x + v2.a.x + v3.a[0].x + v4.a.a; }\n";
/// Several of everything, with ties on every plausible sort key (same first @location, same sizes, same prefixes).
pub const SHADER_MULTI: &str = "struct VA { @location(0) p: vec4<f32>, @location(1) q: vec2<f32> };\nstruct VB { @location(0) p: vec4<f32> };\nstruct VC { @location(0) r: vec3<f32>, @location(2) s: f32 };\nstruct VD { @location(0) t: vec2<u32> };\nstruct HA { a: vec4<f32> };\nstruct HB { a: vec4<f32> };\nstruct HC { a: vec4<f32>, b: vec4<f32> };\nstruct HD { x: HA, y: HB };\nstruct FO { @location(0) c0: vec4<f32>, @location(1) c1: vec4<f32> };\n@group(0) @binding(0) var<uniform> ha: HA;\n@group(0) @binding(1) var<uniform> hb: HB;\n@group(1) @binding(0) var<storage, read> hc: HC;\n@group(1) @binding(1) var<storage, read_write> hd: HD;\n@group(2) @binding(0) var ta: texture_2d<f32>;\n@group(2) @binding(1) var tb: texture_2d<f32>;\n@group(2) @binding(2) var sa: sampler;\n@group(2) @binding(3) var sb: sampler;\nvar<push_constant> pc: HA;\nconst CA: f32 = 1.0;\nconst CB: f32 = 1.0;\nconst CC: u32 = 1u;\noverride oa: f32 = 1.0;\noverride ob: f32 = 1.0;\n@id(3) override oc: bool = true;\nfn fa() -> f32 { return ha.a.x; }\nfn fb() -> f32 { return hb.a.x + fa(); }\n@vertex fn vs_a(i: VA) -> @builtin(position) vec4<f32> { return i.p * fa() * oa; }\n@vertex fn vs_b(i: VB) -> @builtin(position) vec4<f32> { return i.p * fb() * ob; }\n@vertex fn vs_c(i: VC, j: VD) -> @builtin(position) vec4<f32> { return vec4<f32>(i.r, i.s) + pc.a; }\n@vertex fn vs_d(j: VD, i: VA) -> @builtin(position) vec4<f32> { return i.p; }\n@fragment fn fs_a() -> FO { var o: FO; o.c0 = textureSample(ta, sa, vec2<f32>(0.5)); return o; }\n@fragment fn fs_b() -> @location(0) vec4<f32> { if oc { return textureSample(tb, sb, vec2<f32>(0.5)) * hc.a; } return hc.b; }\n@compute @workgroup_size(1) fn cs_a() { hd.x.a = hc.a * CA; }\n@compute @workgroup_size(2) fn cs_b() { hd.y.a = hc.b * CB * f32(CC); }\n";
const SHADER_PARSE_ERROR: &str = "struct Data { a: vec4<f32> \n@compute fn main( {}\n";
const SHADER_NONCONSECUTIVE: &str = "@group(0) @binding(0) var<uniform> data: vec4<f32>;\n@group(2) @binding(0) var<uniform> extra: vec4<f32>;\n@compute @workgroup_size(1) fn main() { let x = data.x + extra.x; }\n";
const SHADER_PC: &str = "struct Pc { tint: vec4<f32>, k: f32 };\nvar<push_constant> pc: Pc;\n@group(0) @binding(0) var<uniform> u: vec4<f32>;\n@vertex fn vs_main() -> @builtin(position) vec4<f32> { return u; }\n@fragment fn fs_main() -> @location(0) vec4<f32> { return pc.tint * pc.k; }\n";
const SHADER_TWO_PC: &str = "var<push_constant> vs_consts: vec4<f32>;\nvar<push_constant> fs_consts: vec4<f32>;\n@vertex fn vs_main() -> @builtin(position) vec4<f32> { return vs_consts; }\n@fragment fn fs_main() -> @location(0) vec4<f32> { return fs_consts; }\n";
const SHADER_KEYWORD: &str = "struct Dispatch { static_count: u32, dyn: u32 };\n@group(0) @binding(0) var<uniform> dispatch: Dispatch;\n@compute @workgroup_size(1) fn main() { let x = dispatch.dyn; }\n";
const SHADER_PANICS: &str = "struct Data { n: u32, items: array<f32> };\n@group(0) @binding(0) var<storage, read> data: Data;\n@compute @workgroup_size(1) fn main() { let x = data.n; }\n";

#[derive(Clone, Debug)]
pub struct Call {
    pub name: &'static str,
    pub src: &'static str,
    pub cfg: Config,
    /// `Some(path)`: the include variant `create_shader_module(src, path, ..)`
    pub include: Option<&'static str>,
}

impl Call {
    fn run(&self) -> Outcome {
        // under the controlled scheduler the call must run on the registered thread itself (the watchdog of
        // `generate_with` would move it to an unregistered thread whose yield points the scheduler cannot see)
        if TID.with(|t| t.get()).is_some() {
            generate_with_unguarded(self.src, self.include, self.cfg.options())
        } else {
            generate_with(self.src, self.include, self.cfg.options())
        }
    }
}

/// include path used by the include-variant call; the seed sweep runs some children in a directory where it exists
pub const INCLUDE_PATH: &str = "shaders/shader.wgsl";

pub fn alphabet() -> Vec<Call> {
    let full = Config { bytemuck_vertex: true, encase: true, serde: true, repr: Repr::Glam, ..Config::default() };
    vec![
        Call { name: "A", src: SHADER_A, cfg: full, include: None },
        Call { name: "B", src: SHADER_B, cfg: Config { bytemuck_host: true, ..Config::default() }, include: None },
        Call { name: "parse-error", src: SHADER_PARSE_ERROR, cfg: Config::default(), include: None },
        Call { name: "non-consecutive", src: SHADER_NONCONSECUTIVE, cfg: Config { validate: Validate::All, ..Config::default() }, include: None },
        Call { name: "panics", src: SHADER_PANICS, cfg: Config::default(), include: None },
        Call { name: "A-rustfmt", src: SHADER_A, cfg: Config { rustfmt: true, ..full }, include: None },
        Call { name: "types", src: SHADER_TYPES, cfg: Config { bytemuck_host: true, encase: true, repr: Repr::Nalgebra, ..Config::default() }, include: None },
        Call { name: "multi", src: SHADER_MULTI, cfg: full, include: None },
        Call { name: "A-include", src: SHADER_A, cfg: full, include: Some(INCLUDE_PATH) },
        // one source under several option sets whose outcomes differ (accepted / rejected by the validator)
        Call { name: "PC-validate-all", src: SHADER_PC, cfg: Config { validate: Validate::All, ..Config::default() }, include: None },
        Call { name: "PC-validate-empty", src: SHADER_PC, cfg: Config { validate: Validate::Empty, ..Config::default() }, include: None },
        Call { name: "PC-default", src: SHADER_PC, cfg: Config::default(), include: None },
        Call { name: "PC-full-rustfmt", src: SHADER_PC, cfg: Config { rustfmt: true, validate: Validate::All, ..full }, include: None },
        // identifiers that are Rust keywords (naga accepts them): whatever the call does with them - on this tree it
        // panics while printing - it must do the same everywhere, and with the formatter off it must not look for one
        Call { name: "keyword-ident", src: SHADER_KEYWORD, cfg: Config::default(), include: None },
        // two different modules whose token text exceeds 64 KiB, formatter on (pipe-buffer sized hand-offs to the formatter)
        Call { name: "two-push-constants", src: SHADER_TWO_PC, cfg: Config::default(), include: None },
        Call { name: "BIG1-rustfmt", src: big_source(0), cfg: Config { rustfmt: true, ..Config::default() }, include: None },
        Call { name: "BIG2-rustfmt", src: big_source(1), cfg: Config { rustfmt: true, ..full }, include: None },
    ]
}

/// A and B with a 70 KB comment (leaked once: the alphabet is built a handful of times per process).
fn big_source(which: usize) -> &'static str {
    let (base, ch) = if which == 0 { (SHADER_A, "a") } else { (SHADER_B, "b") };
    Box::leak(format!("// {}\n{base}", ch.repeat(70_000)).into_boxed_str())
}

fn outcome_digest(o: &Outcome) -> String {
    match o {
        Outcome::Ok(t) => format!("ok:{:016x}:{}", hash64(t), t.len()),
        Outcome::Err(v, _) => format!("err:{v}"),
        Outcome::Panic(m) => format!("panic:{}", m.split(" @ ").next().unwrap_or("").chars().take(50).collect::<String>()),
    }
}

/// Child: runs the given sequence of alphabet indices in this (fresh) process, prints one digest per call.
pub fn history_child(seq: &str) -> i32 {
    let a = alphabet();
    let mut out = vec![];
    for i in seq.split(',').filter(|s| !s.is_empty()) {
        let c = &a[i.parse::<usize>().unwrap()];
        out.push(outcome_digest(&c.run()));
    }
    // replica of a HashSet over type handles: shows which iteration orders this process' hash keys realise
    let m = naga::front::wgsl::parse_str(SHADER_TYPES).unwrap();
    let set: std::collections::HashSet<naga::Handle<naga::Type>> = m.types.iter().filter(|(_, t)| matches!(t.inner, naga::TypeInner::Struct { .. })).map(|(h, _)| h).take(4).collect();
    let order: Vec<usize> = set.iter().map(|h| h.index()).collect();
    println!("{}", json!({"digests": out, "set_order": order}));
    0
}

fn run_child(args: &[&str], env: &[(&str, String)], clear_env: bool, cwd: Option<&std::path::Path>) -> Result<Value, String> {
    let exe = std::env::current_exe().unwrap();
    let mut cmd = Command::new(exe);
    cmd.args(args);
    if clear_env {
        let path = std::env::var("PATH").unwrap_or_default();
        let home = std::env::var("HOME").unwrap_or_default();
        cmd.env_clear();
        // the formatter must stay findable (its absence is C19's subject, not C18's)
        cmd.env("PATH", path).env("HOME", home);
    }
    cmd.env("VERIF_ROOT", root());
    for (k, v) in env {
        cmd.env(k, v);
    }
    if let Some(d) = cwd {
        cmd.current_dir(d);
    }
    let out = cmd.stdin(Stdio::null()).stderr(Stdio::piped()).output().map_err(|e| e.to_string())?;
    let s = String::from_utf8_lossy(&out.stdout);
    // the child prints exactly one line (its JSON result); anything else on stdout / stderr was written by the calls
    let lines: Vec<&str> = s.lines().filter(|l| !l.trim().is_empty()).collect();
    let last = lines.last().copied().unwrap_or("");
    let mut v: Value = serde_json::from_str(last.trim()).map_err(|e| format!("child {:?} gave no result ({e}); status {:?}", args, out.status))?;
    let extra: Vec<String> = lines[..lines.len().saturating_sub(1)].iter().map(|l| l.chars().take(200).collect()).collect();
    let err: Vec<String> = String::from_utf8_lossy(&out.stderr).lines().filter(|l| !l.trim().is_empty()).map(|l| l.chars().take(200).collect()).collect();
    if let Some(o) = v.as_object_mut() {
        o.insert("extra_stdout".into(), json!(extra));
        o.insert("extra_stderr".into(), json!(err));
    }
    Ok(v)
}

/// Lines a child wrote besides its result: a call that prints is a call that modifies state outside its return value.
fn printed(v: &Value) -> Vec<String> {
    let mut out = vec![];
    for k in ["extra_stdout", "extra_stderr"] {
        if let Some(a) = v[k].as_array() {
            for l in a {
                out.push(format!("{k}: {}", l.as_str().unwrap_or("")));
            }
        }
    }
    out
}

// ---------------------------------------------------------------------------------------------
// controlled scheduler

#[derive(Clone, Debug, PartialEq)]
enum TStatus {
    NotStarted,
    Waiting(&'static str),
    Running,
    Finished,
}

#[derive(Clone, Debug)]
pub struct Decision {
    pub enabled: Vec<usize>,
    pub chosen: usize,
    /// the thread that was running when the decision was taken and is still enabled (a switch away from it is a preemption)
    pub running: Option<usize>,
    pub label: String,
}

struct SchedState {
    status: Vec<TStatus>,
    current: Option<usize>,
    prefix: Vec<usize>,
    trace: Vec<Decision>,
    diverged: Option<String>,
}

pub struct Sched {
    st: Mutex<SchedState>,
    cv: Condvar,
}

thread_local! {
    static TID: std::cell::Cell<Option<usize>> = const { std::cell::Cell::new(None) };
}
static CURRENT_SCHED: Mutex<Option<Arc<Sched>>> = Mutex::new(None);

impl Sched {
    /// Takes one scheduling decision (called with the lock held by the thread that yields / finishes).
    fn decide(st: &mut SchedState, me: Option<usize>, label: &str) {
        let mut enabled: Vec<usize> = vec![];
        let running = me.filter(|m| matches!(st.status[*m], TStatus::Waiting(_)));
        if let Some(m) = running {
            enabled.push(m);
        }
        for (i, s) in st.status.iter().enumerate() {
            if Some(i) != running && matches!(s, TStatus::NotStarted | TStatus::Waiting(_)) {
                enabled.push(i);
            }
        }
        if enabled.is_empty() {
            st.current = None;
            return;
        }
        let k = st.trace.len();
        let idx = if k < st.prefix.len() { st.prefix[k] } else { 0 };
        if idx >= enabled.len() {
            st.diverged = Some(format!("decision {k}: prefix asks for alternative {idx} but only {} threads are enabled", enabled.len()));
        }
        let idx = idx.min(enabled.len() - 1);
        let chosen = enabled[idx];
        st.trace.push(Decision { enabled: enabled.clone(), chosen: idx, running, label: label.to_string() });
        st.current = Some(chosen);
    }

    fn yield_point(&self, me: usize, label: &'static str) {
        let mut st = self.st.lock().unwrap();
        st.status[me] = TStatus::Waiting(label);
        Sched::decide(&mut st, Some(me), label);
        self.cv.notify_all();
        while st.current != Some(me) {
            st = self.cv.wait(st).unwrap();
        }
        st.status[me] = TStatus::Running;
    }

    fn start(&self, me: usize) {
        let mut st = self.st.lock().unwrap();
        while st.current != Some(me) {
            st = self.cv.wait(st).unwrap();
        }
        st.status[me] = TStatus::Running;
    }

    fn finish(&self, me: usize) {
        let mut st = self.st.lock().unwrap();
        st.status[me] = TStatus::Finished;
        Sched::decide(&mut st, None, "thread-finished");
        self.cv.notify_all();
    }
}

static FINE_POINTS: std::sync::atomic::AtomicBool = std::sync::atomic::AtomicBool::new(false);

fn sched_hook(label: &'static str) {
    // section boundaries always; the points inside the two recursive walks only in "fine" plans
    let fine = FINE_POINTS.load(std::sync::atomic::Ordering::Relaxed);
    if !(label.starts_with("gen:") || label.starts_with("fmt:") || (fine && label.starts_with("walk:"))) {
        return;
    }
    if let Some(me) = TID.with(|t| t.get()) {
        let s = CURRENT_SCHED.lock().unwrap().clone();
        if let Some(s) = s {
            s.yield_point(me, label);
        }
    }
}

/// Runs `programs` (one list of alphabet indices per thread) under the schedule prefix; returns the
/// decisions taken and each thread's outcome digests.
pub fn run_schedule(programs: &[Vec<usize>], prefix: &[usize], alpha: &[Call]) -> (Vec<Decision>, Vec<Vec<String>>, Option<String>) {
    let n = programs.len();
    let sched = Arc::new(Sched { st: Mutex::new(SchedState { status: vec![TStatus::NotStarted; n], current: None, prefix: prefix.to_vec(), trace: vec![], diverged: None }), cv: Condvar::new() });
    *CURRENT_SCHED.lock().unwrap() = Some(sched.clone());
    let mut handles = vec![];
    for (i, prog) in programs.iter().enumerate() {
        let sched = sched.clone();
        let calls: Vec<Call> = prog.iter().map(|k| alpha[*k].clone()).collect();
        let _ = &calls;
        handles.push(std::thread::spawn(move || {
            TID.with(|t| t.set(Some(i)));
            sched.start(i);
            let mut out = vec![];
            for c in &calls {
                out.push(outcome_digest(&c.run()));
            }
            TID.with(|t| t.set(None));
            sched.finish(i);
            out
        }));
    }
    // initial decision: nobody is running
    {
        let mut st = sched.st.lock().unwrap();
        Sched::decide(&mut st, None, "start");
        sched.cv.notify_all();
    }
    let outs: Vec<Vec<String>> = handles.into_iter().map(|h| h.join().unwrap_or_else(|_| vec!["<thread panicked>".to_string()])).collect();
    *CURRENT_SCHED.lock().unwrap() = None;
    let st = sched.st.lock().unwrap();
    (st.trace.clone(), outs, st.diverged.clone())
}

pub struct ScheduleStats {
    pub schedules: u64,
    pub decisions: u64,
    pub violations: Vec<(Vec<usize>, String)>,
    pub outcomes: BTreeSet<String>,
}

/// Deviation-bounded DFS (CHESS-style): default schedule first, then every alternative whose
/// preemption count stays within the bound.
pub fn explore_schedules(programs: &[Vec<usize>], bound: usize, alpha: &[Call], reference: &BTreeMap<usize, String>, cap: u64) -> ScheduleStats {
    let mut stats = ScheduleStats { schedules: 0, decisions: 0, violations: vec![], outcomes: BTreeSet::new() };
    let mut stack: Vec<Vec<usize>> = vec![vec![]];
    while let Some(prefix) = stack.pop() {
        if stats.schedules >= cap {
            break;
        }
        let (trace, outs, diverged) = run_schedule(programs, &prefix, alpha);
        if let Some(d) = diverged {
            machinery(&format!("C18 scheduler: replay of prefix {prefix:?} diverged: {d}"));
        }
        for (k, c) in prefix.iter().enumerate() {
            if trace.get(k).map(|d| d.chosen) != Some(*c) {
                machinery(&format!("C18 scheduler: prefix {prefix:?} not reproduced at decision {k}"));
            }
        }
        stats.schedules += 1;
        stats.decisions += trace.len() as u64;
        // oracle: every output equals the isolated reference of the same input
        for (t, prog) in programs.iter().enumerate() {
            for (j, k) in prog.iter().enumerate() {
                let got = outs[t].get(j).cloned().unwrap_or_default();
                if got != reference[k] {
                    stats.violations.push((trace.iter().map(|d| d.chosen).collect(), format!("thread {t} call {j} ({}) returned {got}, isolated reference {}", alpha[*k].name, reference[k])));
                }
            }
        }
        stats.outcomes.insert(format!("{outs:?}"));
        // children
        let choices: Vec<usize> = trace.iter().map(|d| d.chosen).collect();
        let mut preemptions_before = vec![0usize; trace.len() + 1];
        for (i, d) in trace.iter().enumerate() {
            let p = if d.running.is_some() && d.chosen != 0 { 1 } else { 0 };
            preemptions_before[i + 1] = preemptions_before[i] + p;
        }
        for i in prefix.len()..trace.len() {
            let d = &trace[i];
            for alt in 1..d.enabled.len() {
                let cost = preemptions_before[i] + if d.running.is_some() { 1 } else { 0 };
                if cost > bound {
                    continue;
                }
                let mut p = choices[..i].to_vec();
                p.push(alt);
                stack.push(p);
            }
        }
    }
    stats
}

// ---------------------------------------------------------------------------------------------

fn audit() -> Vec<String> {
    let mut found = vec![];
    let dir_buf = root().join("harness").join("subject").join("wgsl_to_wgpu").join("src");
    let dir = dir_buf.as_path();
    let pats = ["static ", "thread_local!", "lazy_static", "OnceLock", "OnceCell", "LazyLock", "Mutex", "RwLock", "AtomicU", "AtomicI", "AtomicBool", "AtomicPtr", "atomic::", "unsafe ", "std::env", "env::var", "std::fs", "fs::", "current_dir", "SystemTime", "Instant::now", "rand::", "RandomState"];
    if let Ok(rd) = std::fs::read_dir(dir) {
        for e in rd.flatten() {
            let p = e.path();
            if p.extension().map(|x| x == "rs").unwrap_or(false) && p.file_name().map(|n| n != "verif.rs").unwrap_or(false) {
                let text = std::fs::read_to_string(&p).unwrap_or_default();
                // non-test part only
                let body = text.split("#[cfg(test)]").next().unwrap_or("");
                let mut in_block_comment = false;
                for (ln, line) in body.lines().enumerate() {
                    let l = line.trim();
                    if in_block_comment {
                        if l.contains("*/") {
                            in_block_comment = false;
                        }
                        continue;
                    }
                    if l.starts_with("/*") {
                        in_block_comment = !l.contains("*/");
                        continue;
                    }
                    if l.starts_with("//") {
                        continue;
                    }
                    for pat in pats {
                        if l.contains(pat) && !l.contains("&'static") && !l.contains("'static str") && !l.contains("<'static>") {
                            found.push(format!("{}:{}: {}", p.file_name().unwrap().to_string_lossy(), ln + 1, l.chars().take(80).collect::<String>()));
                        }
                    }
                }
            }
        }
    }
    found
}

fn build_interposer() -> Option<std::path::PathBuf> {
    let src = root().join("harness").join("interpose").join("seed.c");
    let out = root().join("target").join("libverifseed.so");
    let fresh = out.exists() && std::fs::metadata(&out).and_then(|m| m.modified()).ok() >= std::fs::metadata(&src).and_then(|m| m.modified()).ok();
    if !fresh {
        let st = Command::new("gcc").args(["-shared", "-fPIC", "-O2", "-o"]).arg(&out).arg(&src).status();
        if !matches!(st, Ok(s) if s.success()) {
            return None;
        }
    }
    Some(out)
}

pub fn setup() {
    if build_interposer().is_none() {
        machinery("C18: cannot build the getrandom interposer (gcc)");
    }
}

pub fn run(tier: &str) -> i32 {
    let mut rep = Report::new("C18", tier);
    let thorough = rep.thorough();
    let alpha = alphabet();
    let n_hist_alpha = 6; // the first six inputs form the history alphabet
    // ---- isolated references: each input alone in a fresh process
    let idx: Vec<usize> = (0..alpha.len()).collect();
    let refs = par_map(&idx, |i| run_child(&["c18-history", &i.to_string()], &[], false, None));
    let mut reference: BTreeMap<usize, String> = BTreeMap::new();
    for (i, r) in refs.iter().enumerate() {
        match r {
            Ok(v) => {
                reference.insert(i, v["digests"][0].as_str().unwrap_or("").to_string());
                let p = printed(v);
                if !p.is_empty() {
                    rep.violation(format!("prints|{}", alpha[i].name), format!("the call writes to the process's standard streams: {}", p[0]), json!({"wgsl": alpha[i].src, "config": alpha[i].cfg.key(), "observed": p}));
                }
            }
            Err(e) => machinery(&format!("C18 reference run failed: {e}")),
        }
    }
    for (i, want) in [(0usize, "ok:"), (1, "ok:"), (2, "err:ParseError"), (3, "err:NonConsecutiveBindGroups"), (4, "panic:"), (5, "ok:"), (6, "ok:"), (7, "ok:"), (8, "ok:"), (9, "ok:"), (10, "err:ValidationError"), (11, "ok:"), (12, "ok:"), (14, "ok:"), (15, "ok:"), (16, "ok:")] {
        if !reference[&i].starts_with(want) {
            machinery(&format!("C18 alphabet input {} does not behave as designed: {}", alpha[i].name, reference[&i]));
        }
    }
    rep.set("reference_digests", json!(reference.iter().map(|(k, v)| (alpha[*k].name.to_string(), v.clone())).collect::<BTreeMap<_, _>>()));

    // ---- (0) one buffer, many sources: equal-length variants of the inputs written one after the other into the same
    // `String` (same address, same length, other content - what a build script looping over files does); every ordered
    // pair (and, thorough, triple). References: each variant from its own allocation while all of them are alive.
    {
        let picks = [0usize, 1, 2, 3, 6, 7, 11, 13, 14];
        let width = picks.iter().map(|i| alpha[*i].src.len()).max().unwrap() + 16;
        let padded: Vec<String> = picks.iter().map(|i| format!("{}\n//{}", alpha[*i].src, " ".repeat(width - alpha[*i].src.len() - 3))).collect();
        if padded.iter().any(|p| p.len() != width) {
            machinery("C18: padded variants differ in length");
        }
        let fresh: Vec<String> = padded.iter().map(|p| outcome_digest(&generate(p, &Config::default()))).collect();
        let mut buf = String::with_capacity(width);
        let mut seqs = wgslgen::sequences(picks.len(), 2);
        if thorough {
            seqs.extend(wgslgen::sequences(picks.len(), 3));
        }
        let mut calls = 0u64;
        for seq in &seqs {
            let mut addr = None;
            for (k, v) in seq.iter().enumerate() {
                buf.clear();
                buf.push_str(&padded[*v]);
                if let Some(a) = addr {
                    if a != buf.as_ptr() as usize {
                        machinery("C18: the reused buffer moved");
                    }
                }
                addr = Some(buf.as_ptr() as usize);
                let got = outcome_digest(&generate(&buf, &Config::default()));
                calls += 1;
                if got != fresh[*v] {
                    let names: Vec<&str> = seq.iter().map(|i| alpha[picks[*i]].name).collect();
                    rep.violation(format!("same-buffer|{}|call={k}", names.join(",")), format!("a source written into a reused buffer gives {got}, from its own allocation {}", fresh[*v]), json!({"wgsl": padded[*v], "sequence": names}));
                }
            }
        }
        rep.states += seqs.len() as u64;
        rep.evaluations += calls;
        rep.set("same_buffer_sequences", json!({"variants": picks.len(), "sequences": seqs.len(), "calls": calls, "bytes": width}));
    }
    // ---- (1) histories
    let depth = if thorough { 3 } else { 2 };
    let mut seqs: Vec<Vec<usize>> = vec![];
    for d in 1..=depth {
        seqs.extend(wgslgen::sequences(n_hist_alpha, d));
    }
    // the same source under different option sets (and one unrelated input): a call must not learn from an earlier
    // call with other options
    let opt_alpha = [9usize, 10, 11, 12, 0];
    for d in 2..=depth {
        for s in wgslgen::sequences(opt_alpha.len(), d) {
            seqs.push(s.iter().map(|i| opt_alpha[*i]).collect());
        }
    }
    let hist = par_map(&seqs, |s| run_child(&["c18-history", &s.iter().map(|x| x.to_string()).collect::<Vec<_>>().join(",")], &[], false, None));
    let mut hist_outcomes = BTreeSet::new();
    for (s, r) in seqs.iter().zip(hist.iter()) {
        rep.states += 1;
        rep.transitions += s.len() as u64;
        rep.evaluations += s.len() as u64;
        rep.max_depth = rep.max_depth.max(s.len() as u64);
        let v = match r {
            Ok(v) => v,
            Err(e) => machinery(&format!("C18 history child failed: {e}")),
        };
        let names: Vec<&str> = s.iter().map(|i| alpha[*i].name).collect();
        for (j, i) in s.iter().enumerate() {
            let got = v["digests"][j].as_str().unwrap_or("");
            hist_outcomes.insert(format!("{}={}", alpha[*i].name, got));
            if got != reference[i] {
                rep.violation(format!("history|{}|call={j}", names.join(">")), format!("call {j} ({}) returned {got} after {:?}; alone in a fresh process it returns {}", alpha[*i].name, &names[..j], reference[i]), json!({"history": names, "wgsl": alpha[*i].src, "config": alpha[*i].cfg.key(), "expected": reference[i], "observed": got}));
            }
        }
        rep.nontrivial.insert(hash64(&format!("{s:?}")));
    }
    rep.set("histories", json!(seqs.len()));

    // ---- (2) schedules
    wgsl_to_wgpu::verif::set_hook(Some(sched_hook));
    let mut sched_report = vec![];
    let plans: Vec<(Vec<Vec<usize>>, usize, u64)> = if thorough {
        vec![
            (vec![vec![0], vec![1]], 3, 200_000),
            (vec![vec![0], vec![0]], 2, 200_000),
            (vec![vec![6], vec![6]], 2, 200_000),
            (vec![vec![0, 1], vec![1, 0]], 2, 200_000),
            (vec![vec![0], vec![1], vec![6]], 2, 200_000),
            (vec![vec![0], vec![4]], 2, 200_000),
            (vec![vec![1], vec![2], vec![3]], 2, 200_000),
            (vec![vec![5], vec![1]], 2, 200_000),
            (vec![vec![7], vec![7]], 2, 200_000),
            (vec![vec![7], vec![0], vec![1]], 1, 200_000),
            (vec![vec![15], vec![16]], 2, 200_000),
            (vec![vec![5], vec![5]], 2, 200_000),
            (vec![vec![15], vec![15]], 1, 200_000),
            (vec![vec![5], vec![12]], 1, 200_000),
        ]
    } else {
        vec![(vec![vec![15], vec![16]], 1, 50_000), (vec![vec![5], vec![5]], 1, 50_000), (vec![vec![0], vec![1]], 2, 50_000), (vec![vec![0], vec![0]], 1, 50_000), (vec![vec![0, 1], vec![1]], 1, 50_000), (vec![vec![6], vec![1], vec![0]], 1, 50_000), (vec![vec![7], vec![1]], 1, 50_000), (vec![vec![5], vec![1]], 1, 50_000)]
    };
    // the same thread programs again with yield points *inside* the stage walk and the type closure
    // (state that lives only for the duration of one section is invisible at section granularity)
    let fine_plans: Vec<(Vec<Vec<usize>>, usize, u64)> = if thorough {
        vec![(vec![vec![0], vec![1]], 2, 200_000), (vec![vec![7], vec![1]], 2, 200_000), (vec![vec![0], vec![0]], 2, 200_000), (vec![vec![7], vec![0], vec![1]], 1, 200_000), (vec![vec![6], vec![7]], 2, 200_000)]
    } else {
        vec![(vec![vec![0], vec![1]], 2, 50_000), (vec![vec![7], vec![1]], 1, 50_000)]
    };
    let n_coarse = plans.len();
    let all_plans: Vec<(Vec<Vec<usize>>, usize, u64)> = plans.iter().cloned().chain(fine_plans.into_iter()).collect();
    for (pi, (programs, bound, cap)) in all_plans.iter().enumerate() {
        FINE_POINTS.store(pi >= n_coarse, std::sync::atomic::Ordering::SeqCst);
        let t0 = std::time::Instant::now();
        let st = explore_schedules(programs, *bound, &alpha, &reference, *cap);
        rep.states += st.schedules;
        rep.transitions += st.decisions;
        rep.evaluations += st.schedules * programs.iter().map(|p| p.len() as u64).sum::<u64>();
        let names: Vec<Vec<&str>> = programs.iter().map(|p| p.iter().map(|i| alpha[*i].name).collect()).collect();
        for (sched, msg) in st.violations.iter().take(5) {
            rep.violation(format!("schedule|threads={names:?}|bound={bound}"), format!("under a controlled interleaving: {msg}"), json!({"threads": names, "schedule": sched, "observed": msg}));
        }
        if st.schedules >= *cap {
            rep.exhaustive = false;
        }
        // every explored schedule is a distinct decision sequence (the DFS never repeats a prefix)
        for k in 0..st.schedules {
            rep.nontrivial.insert(hash64(&format!("schedule{pi}{names:?}#{k}")));
        }
        sched_report.push(json!({"threads": names, "yield_points": if pi >= n_coarse { "sections + walk points" } else { "sections" }, "preemption_bound": bound, "schedules": st.schedules, "decisions": st.decisions, "distinct_outcomes": st.outcomes.len(), "capped": st.schedules >= *cap, "seconds": t0.elapsed().as_secs_f64()}));
        for o in st.outcomes {
            rep.outcomes.insert(o);
        }
    }
    FINE_POINTS.store(false, std::sync::atomic::Ordering::SeqCst);
    wgsl_to_wgpu::verif::set_hook(None);
    rep.set("schedule_exploration", json!(sched_report));
    // replay determinism: the same prefix twice gives identical decisions and outputs
    {
        wgsl_to_wgpu::verif::set_hook(Some(sched_hook));
        let p = vec![vec![0usize], vec![1usize]];
        let a = run_schedule(&p, &[1, 0, 1], &alpha);
        let b = run_schedule(&p, &[1, 0, 1], &alpha);
        wgsl_to_wgpu::verif::set_hook(None);
        let la: Vec<(usize, String)> = a.0.iter().map(|d| (d.chosen, d.label.clone())).collect();
        let lb: Vec<(usize, String)> = b.0.iter().map(|d| (d.chosen, d.label.clone())).collect();
        if la != lb {
            machinery("C18 scheduler: the same schedule prefix replayed twice took different decisions (uncontrolled nondeterminism in the harness)");
        }
        if a.1 != b.1 {
            // identical schedule, identical inputs, different outputs: that is the property failing, not the scheduler
            rep.violation("schedule|replay|threads=[[A],[B]]".to_string(), format!("the same schedule run twice returned different text: {:?} vs {:?}", a.1, b.1), json!({"schedule": [1, 0, 1], "observed": format!("{:?} vs {:?}", a.1, b.1)}));
        }
        rep.set("replay_check", json!({"prefix": [1, 0, 1], "decisions": la.len(), "identical": true}));
        if la.len() < 8 {
            machinery(&format!("C18 scheduler: only {} decisions in a two-call schedule - the yield hooks are not reached (hooks feature off?)", la.len()));
        }
    }

    // ---- (3) process boundary: hash seeds x cwd x environment
    let lib = build_interposer();
    let seeds: u64 = if thorough { 256 } else { 24 };
    let base = rep.seed.unsigned_abs() * 1000;
    let mut orders = BTreeSet::new();
    match &lib {
        Some(lib) => {
            let empty_dir = root().join("target").join("c18-empty-cwd");
            let _ = std::fs::create_dir_all(&empty_dir);
            // a working directory in which the include path of the include-variant call exists
            let file_dir = root().join("target").join("c18-cwd-with-include");
            let _ = std::fs::create_dir_all(file_dir.join("shaders"));
            let _ = std::fs::write(file_dir.join(INCLUDE_PATH), SHADER_A);
            let seed_list: Vec<u64> = (0..seeds).collect();
            let seq = "0,1,6,5,7,7,7,8,13";
            let res = par_map(&seed_list, |s| {
                let seed = base + s;
                let clear = s % 2 == 1;
                let cwd = match s % 4 {
                    0 => Some(std::path::Path::new("/")),
                    1 => Some(empty_dir.as_path()),
                    2 => Some(file_dir.as_path()),
                    _ => None,
                };
                let mut env = vec![("LD_PRELOAD", lib.display().to_string()), ("VERIF_HASH_SEED", seed.to_string())];
                if s % 8 == 4 {
                    // no formatter anywhere on PATH: calls that did not ask for one must not notice
                    env.push(("PATH", empty_dir.display().to_string()));
                }
                if s % 4 == 2 {
                    // noisy environment
                    for (k, v) in [("RUST_LOG", "trace"), ("RUST_BACKTRACE", "full"), ("NO_COLOR", "1"), ("TERM", "dumb"), ("WGPU_BACKEND", "gl"), ("NAGA_DEBUG", "1"), ("RUSTFMT", "/nonexistent"), ("TMPDIR", "/nonexistent"), ("LANG", "tr_TR.UTF-8"), ("LC_ALL", "tr_TR.UTF-8"), ("SOURCE_DATE_EPOCH", "0"), ("CARGO_MANIFEST_DIR", "/nonexistent"), ("OUT_DIR", "/nonexistent")] {
                        env.push((k, v.to_string()));
                    }
                }
                run_child(&["c18-history", seq], &env, clear, cwd)
            });
            for (s, r) in seed_list.iter().zip(res.iter()) {
                rep.states += 1;
                rep.evaluations += 9;
                let v = match r {
                    Ok(v) => v,
                    Err(e) => machinery(&format!("C18 seed child failed: {e}")),
                };
                orders.insert(v["set_order"].to_string());
                for (j, i) in [0usize, 1, 6, 5, 7, 7, 7, 8, 13].iter().enumerate() {
                    let got = v["digests"][j].as_str().unwrap_or("");
                    if s % 8 == 4 && alpha[*i].cfg.rustfmt {
                        continue; // the formatter was asked for and is not there: C19's subject
                    }
                    if got != reference[i] {
                        rep.violation(format!("process|seed={}|cwd={}|env={}|input={}", base + s, s % 4, if s % 8 == 4 { "no-formatter-on-PATH" } else if s % 2 == 1 { "cleared" } else if s % 4 == 2 { "noisy" } else { "inherited" }, alpha[*i].name), format!("{} returned {got} in a process with hash seed {}; reference {}", alpha[*i].name, base + s, reference[i]), json!({"wgsl": alpha[*i].src, "config": alpha[*i].cfg.key(), "hash_seed": base + s, "expected": reference[i], "observed": got}));
                    }
                }
            }
            rep.set("hash_seeds", json!({"base": base, "count": seeds, "distinct_iteration_orders_of_4_handles": orders.len(), "of": 24}));
            if orders.len() < 4 {
                machinery("C18: the seed interposer does not vary HashSet iteration order (LD_PRELOAD ineffective?)");
            }
        }
        None => machinery("C18: getrandom interposer not built"),
    }

    // ---- (3b) repetition sweep over a program corpus, in child processes with enumerated hash seeds
    if let Some(lib) = &lib {
        let shards = 16usize;
        let sweep_seeds: Vec<u64> = if thorough { (0..8).collect() } else { (0..2).collect() };
        let jobs: Vec<(usize, u64)> = (0..shards).flat_map(|s| sweep_seeds.iter().map(move |x| (s, *x))).collect();
        let res = par_map(&jobs, |(sh, seed)| {
            run_child(&["c18-corpus", &format!("{sh}/{shards}")], &[("LD_PRELOAD", lib.display().to_string()), ("VERIF_HASH_SEED", (base + 5000 + seed).to_string()), ("VERIF_C18_REPS", if thorough { "8".to_string() } else { "4".to_string() })], false, None)
        });
        let mut across: BTreeMap<String, BTreeSet<String>> = BTreeMap::new();
        let mut programs = 0u64;
        for ((sh, seed), r) in jobs.iter().zip(res.iter()) {
            let v = match r {
                Ok(v) => v,
                Err(e) => machinery(&format!("C18 corpus child failed: {e}")),
            };
            for u in v["unstable"].as_array().unwrap() {
                rep.violation(format!("repeat|{}|seed={}", u["key"].as_str().unwrap(), base + 5000 + seed), format!("the same call repeated in one process returned different text (repetition {})", u["repetition"]), json!({"corpus_key": u["key"], "hash_seed": base + 5000 + seed, "shard": sh, "expected": u["first"], "observed": u["again"]}));
            }
            for (k, d) in v["digests"].as_object().unwrap() {
                across.entry(k.clone()).or_default().insert(d.as_str().unwrap().to_string());
                programs += 1;
            }
        }
        for (k, set) in &across {
            rep.nontrivial.insert(hash64(&format!("corpus|{k}")));
            if set.len() > 1 {
                rep.violation(format!("repeat-across-processes|{k}"), format!("{} different outputs across processes with different hash seeds", set.len()), json!({"corpus_key": k, "observed": set}));
            }
        }
        rep.states += across.len() as u64;
        rep.evaluations += programs * if thorough { 8 } else { 4 };
        rep.set("corpus_repetition", json!({"programs": across.len(), "processes": jobs.len(), "repetitions_per_process": if thorough { 8 } else { 4 }}));
    }

    // ---- (3c) a formatter that answers late (the result does not depend on how long the formatter takes): the genuine
    // formatter behind a stub that waits 8 s (thorough: also 40 s) before it prints
    {
        let stub_dir = root().join("target").join("c18-slowfmt");
        let _ = std::fs::remove_dir_all(&stub_dir);
        std::fs::create_dir_all(&stub_dir).unwrap();
        std::fs::copy(std::env::current_exe().unwrap(), stub_dir.join("rustfmt")).unwrap();
        let real = crate::c19::find_real_rustfmt().unwrap_or_else(|| machinery("C18: no genuine rustfmt on PATH"));
        let path = format!("{}:{}", stub_dir.display(), std::env::var("PATH").unwrap_or_default());
        let delays: Vec<u64> = if thorough { vec![8_000, 40_000] } else { vec![8_000] };
        let res = par_map(&delays, |d| run_child(&["c18-history", "5,0"], &[("PATH", path.clone()), ("VERIF_FMT_SCRIPT", format!("read:all;sleep:{d};write:real;exit:0")), ("VERIF_REAL_RUSTFMT", real.display().to_string())], false, None));
        for (d, r) in delays.iter().zip(res.iter()) {
            rep.states += 1;
            rep.evaluations += 2;
            let v = match r {
                Ok(v) => v,
                Err(e) => machinery(&format!("C18 slow-formatter child failed: {e}")),
            };
            for (j, i) in [5usize, 0].iter().enumerate() {
                let got = v["digests"][j].as_str().unwrap_or("");
                if got != reference[i] {
                    rep.violation(format!("slow-formatter|delay={d}ms|input={}", alpha[*i].name), format!("{} returned {got} when the formatter took {d} ms to answer; reference {}", alpha[*i].name, reference[i]), json!({"wgsl": alpha[*i].src, "config": alpha[*i].cfg.key(), "expected": reference[i], "observed": got}));
                }
            }
        }
        rep.set("slow_formatter_delays_ms", json!(delays));
    }
    // ---- (4) syscall monitor
    let strace_note = syscall_monitor(&mut rep);
    rep.set("syscall_monitor", json!(strace_note));
    let strace_fmt_note = syscall_monitor_fmt(&mut rep);
    rep.set("syscall_monitor_formatter_on", json!(strace_fmt_note));

    // ---- audit
    let a = audit();
    rep.set("cross_call_state_audit", json!({"constructs_found": a, "section_granularity_complete": a.is_empty()}));
    if a.is_empty() {
        rep.assumptions.push("syntactic audit found no static / thread_local / lazy / lock / atomic / unsafe / env / fs construct in the non-test sources: between two yield points only thread-local data is touched, so section granularity is complete".into());
    } else {
        rep.assumptions.push("the audit found constructs that can carry state across calls; the schedule result is the bounded exploration at section granularity only".into());
    }
    for o in hist_outcomes {
        rep.outcomes.insert(o);
    }
    rep.traces_validated = rep.evaluations;
    rep.sample(json!({"history": ["A", "B", "A-rustfmt"], "inputs": {"A": SHADER_A, "B": SHADER_B}}));
    rep.sample(json!({"schedule_threads": [["A"], ["B"]], "yield_points": ["gen:parsed", "gen:validated", "gen:groups", "gen:stages", "gen:structs", "gen:consts", "gen:bindgroups", "gen:vertex", "gen:compute", "gen:entries", "gen:overrides", "gen:assembled"]}));
    rep.rule = format!("(1) all call sequences of length <= {depth} over a 6-input alphabet and over one source under 4 option sets (validator accepts / rejects / off / everything on) built to collide (shaders A and B declare the same struct / variable / entry names with different types, stages and groups; a parse error; non-consecutive groups; an input that panics inside generation; A with rustfmt) in one fresh process each, every result compared with the same input alone in a fresh process; (2) real threads running real calls under a controlled scheduler (12 section yield points per call), all schedules within the stated preemption bound per thread program; (3) {seeds} enumerated hash seeds (getrandom interposer) x working directory {{/, empty dir, a dir where the include path exists, inherited}} x environment {{inherited, cleared, noisy, no formatter on PATH}}; a genuine formatter that answers after 8 s (thorough: 40 s); (4) strace monitors (formatter off: no file/process/network call at all; formatter on: the calling process creates / writes / removes no file) and source audit. Oracle: byte-identical text / same error variant as the isolated reference.");
    rep.finish()
}

/// The program corpus for the repetition sweep: many shapes, several of each kind of item.
pub fn corpus() -> Vec<(String, String, Config)> {
    let full = Config { bytemuck_vertex: true, encase: true, serde: true, repr: Repr::Glam, ..Config::default() };
    let mut v: Vec<(String, String, Config)> = vec![];
    for a in crate::c01::atoms(false) {
        // (naming atoms included: colliding / generator-owned / keyword identifiers make the generator rename, refuse
        // or panic - whatever it does must not depend on what the process did before)
        v.push((a.id.clone(), a.src.clone(), if a.structs { full } else { Config::default() }));
    }
    for p in crate::c08::space(false).into_iter().step_by(40) {
        v.push((format!("roles|{}", p.key), p.src, Config { encase: true, ..Config::default() }));
    }
    v.push(("multi".into(), SHADER_MULTI.into(), full));
    // keys must be unique: the parent compares digests per key across processes
    let mut seen = BTreeSet::new();
    v.retain(|(k, _, _)| seen.insert(k.clone()));
    v
}

/// Child: every corpus program of the shard is generated R times in this process; prints the keys whose
/// outputs differ between repetitions and a digest per key (compared across processes by the parent).
pub fn corpus_child(spec: &str) -> i32 {
    let (shard, n) = spec.split_once('/').map(|(a, b)| (a.parse::<usize>().unwrap(), b.parse::<usize>().unwrap())).unwrap();
    let reps = std::env::var("VERIF_C18_REPS").ok().and_then(|s| s.parse().ok()).unwrap_or(4usize);
    let mut digests = serde_json::Map::new();
    let mut unstable = vec![];
    for (i, (key, src, cfg)) in corpus().into_iter().enumerate() {
        if i % n != shard {
            continue;
        }
        let first = outcome_digest(&generate(&src, &cfg));
        for r in 1..reps {
            let again = outcome_digest(&generate(&src, &cfg));
            if again != first {
                unstable.push(json!({"key": key, "repetition": r, "first": first, "again": again}));
                break;
            }
        }
        digests.insert(key, json!(first));
    }
    println!("{}", json!({"digests": digests, "unstable": unstable}));
    0
}

/// Child for the syscall monitor: marker, calls with rustfmt off, marker.
pub fn trace_child() -> i32 {
    let a = alphabet();
    // warm-up: the first metadata call makes std probe statx support; keep that outside the markers
    let _ = std::fs::metadata("/VERIF_WARMUP");
    let _ = generate(a[0].src, &a[0].cfg);
    let _ = std::fs::metadata("/VERIF_MARK_BEGIN");
    for i in [0usize, 1, 6, 2, 3, 8, 4, 13, 14, 9, 10] {
        let _ = a[i].run();
    }
    let _ = std::fs::metadata("/VERIF_MARK_END");
    0
}

/// Child for the second syscall monitor: marker, calls with the formatter ON (small and > 64 KiB modules), marker.
pub fn trace_fmt_child() -> i32 {
    let a = alphabet();
    let _ = std::fs::metadata("/VERIF_WARMUP");
    // on the main thread itself (strace -f labels every line with the thread id; only the main thread's are judged)
    let _ = generate_with_unguarded(a[5].src, a[5].include, a[5].cfg.options());
    let _ = std::fs::metadata("/VERIF_MARK_BEGIN");
    for i in [5usize, 15, 12, 16] {
        let _ = generate_with_unguarded(a[i].src, a[i].include, a[i].cfg.options());
    }
    let _ = std::fs::metadata("/VERIF_MARK_END");
    0
}

/// With the formatter on, the calling process may spawn the formatter and talk to it through pipes - nothing else:
/// no file is created, written, renamed or removed by the calling process itself (the formatter's own accesses, in
/// its own process, are its business).
fn syscall_monitor_fmt(rep: &mut Report) -> Value {
    let log = root().join("target").join("c18-strace-fmt.log");
    let _ = std::fs::remove_file(&log);
    let exe = std::env::current_exe().unwrap();
    let st = Command::new("strace").args(["-f", "-e", "trace=file", "-o"]).arg(&log).arg(&exe).args(["c18-trace-fmt", "x"]).env("VERIF_ROOT", root()).stdout(Stdio::null()).stderr(Stdio::null()).status();
    match st {
        Ok(s) if s.success() => {}
        other => return json!({"ran": false, "reason": format!("strace unavailable here: {other:?}")}),
    }
    let text = std::fs::read_to_string(&log).unwrap_or_default();
    let main_pid = text.lines().next().and_then(|l| l.split_whitespace().next()).unwrap_or("").to_string();
    let (mut inside, mut seen_begin) = (false, false);
    let mut calls = vec![];
    for line in text.lines() {
        if line.contains("/VERIF_MARK_BEGIN") {
            inside = true;
            seen_begin = true;
            continue;
        }
        if line.contains("/VERIF_MARK_END") {
            inside = false;
            continue;
        }
        if !inside || !line.starts_with(&main_pid) {
            continue;
        }
        // threads of the calling process share its pid prefix only if they are the main thread: std::process::Command
        // forks from the calling thread, so lines of the fork child carry another pid and are skipped above
        let writes = line.contains("O_WRONLY") || line.contains("O_RDWR") || line.contains("O_CREAT") || line.contains("O_TRUNC") || line.contains("O_APPEND");
        let mutating = ["unlink(", "unlinkat(", "rename(", "renameat(", "renameat2(", "mkdir(", "mkdirat(", "rmdir(", "creat(", "symlink(", "symlinkat(", "link(", "linkat(", "chmod(", "fchmodat(", "truncate(", "mknod("].iter().any(|s| line.contains(s));
        if (writes && !line.contains("\"/dev/null\"")) || mutating {
            calls.push(line.chars().take(180).collect::<String>());
        }
    }
    if !seen_begin {
        return json!({"ran": false, "reason": "markers not found in the strace log"});
    }
    rep.states += 1;
    rep.evaluations += 4;
    if !calls.is_empty() {
        rep.violation("syscalls|rustfmt=on".to_string(), format!("generation with the formatter on creates / writes / removes files in the calling process: {}", calls[0]), json!({"observed": calls.iter().take(10).collect::<Vec<_>>()}));
    }
    json!({"ran": true, "file_mutating_syscalls_of_the_calling_process_between_markers": calls.len(), "calls_traced": 4})
}

fn syscall_monitor(rep: &mut Report) -> Value {
    let log = root().join("target").join("c18-strace.log");
    let _ = std::fs::remove_file(&log);
    let exe = std::env::current_exe().unwrap();
    let st = Command::new("strace").args(["-f", "-e", "trace=file,process,network,write,writev,pwrite64,sendfile", "-o"]).arg(&log).arg(&exe).args(["c18-trace", "x"]).env("VERIF_ROOT", root()).stdout(Stdio::null()).stderr(Stdio::null()).status();
    match st {
        Ok(s) if s.success() => {}
        other => return json!({"ran": false, "reason": format!("strace unavailable here: {other:?}")}),
    }
    let text = std::fs::read_to_string(&log).unwrap_or_default();
    let mut inside = false;
    let mut seen_begin = false;
    let mut calls = vec![];
    for line in text.lines() {
        if line.contains("/VERIF_MARK_BEGIN") {
            inside = true;
            seen_begin = true;
            continue;
        }
        if line.contains("/VERIF_MARK_END") {
            inside = false;
            continue;
        }
        if inside && !line.contains("+++ exited") && !line.contains("--- SIG") {
            calls.push(line.chars().take(160).collect::<String>());
        }
    }
    if !seen_begin {
        return json!({"ran": false, "reason": "markers not found in the strace log"});
    }
    rep.states += 1;
    rep.evaluations += 11;
    if !calls.is_empty() {
        rep.violation("syscalls|rustfmt=off".to_string(), format!("generation with the formatter off performs file / process / network system calls or writes to a file descriptor: {}", calls[0]), json!({"observed": calls.iter().take(10).collect::<Vec<_>>()}));
    }
    json!({"ran": true, "file_process_network_syscalls_between_markers": calls.len(), "calls_traced": 11})
}
