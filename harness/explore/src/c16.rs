//! C16 — embedded shader source is byte-identical to the input.
use crate::common::*;
use crate::probe::{self, ProbeCase, Verdict};
use omodel::Val;
use serde_json::json;
use std::collections::BTreeMap;

/// Escaping-relevant alphabet.
pub fn alphabet() -> Vec<char> {
    let mut v: Vec<char> = vec![
        '"', '\\', '{', '}', '\'', '\r', '\n', '\t', '\0', '\u{1}', '\u{7}', '\u{8}', '\u{b}', '\u{c}', '\u{1b}', '\u{1f}', '\u{7f}', '\u{85}', '\u{a0}', '\u{2028}', '\u{2029}', '\u{feff}', '\u{202e}', '\u{2066}',
        '\u{200b}', '\u{200d}', '\u{301}', 'e', '\u{e9}', '\u{4e2d}', '\u{1F600}', '\u{10ffff}', '0', '7', 'x', 'u', 'n', 'r', ' ', '*', '/', '#', '$', '%', '`', '~', '!', ';',
    ];
    v.dedup();
    v
}

fn core_alphabet() -> Vec<char> {
    vec!['"', '\\', '{', '}', '\r', '\n', '\0', '\u{7f}', '\u{202e}', '\u{301}', '\u{1F600}', 'u', '0', '\'', '#', '\u{feff}']
}

pub fn payloads(thorough: bool) -> Vec<String> {
    let a = alphabet();
    let mut out = vec![String::new()];
    for x in &a {
        out.push(x.to_string());
    }
    for x in &a {
        for y in &a {
            out.push(format!("{x}{y}"));
        }
    }
    if thorough {
        let c = core_alphabet();
        for x in &c {
            for y in &c {
                for z in &c {
                    out.push(format!("{x}{y}{z}"));
                }
            }
        }
    }
    out
}

#[derive(Clone)]
pub struct Input {
    pub key: String,
    pub src: String,
}

fn esc(s: &str) -> String {
    s.chars().map(|c| format!("{:04x}", c as u32)).collect::<Vec<_>>().join(".")
}

pub fn inputs(thorough: bool) -> Vec<Input> {
    let mut v = vec![];
    for p in payloads(thorough) {
        v.push(Input { key: format!("block|{}", esc(&p)), src: format!("/*{p}*/\n@compute @workgroup_size(1) fn main() {{}}\n") });
        if p.chars().count() <= 1 || thorough {
            v.push(Input { key: format!("line-eof|{}", esc(&p)), src: format!("@compute @workgroup_size(1) fn main() {{}}\n//{p}") });
            v.push(Input { key: format!("lead|{}", esc(&p)), src: format!("{p}@compute @workgroup_size(1) fn main() {{}}") });
        }
    }
    // the same payloads inside longer, multi-line sources (any width- or size-dependent treatment of the literal:
    // line splitting, chunking, thresholds): ~160 characters for every payload, ~5 KB and ~70 KB for single characters
    // and the core pairs. The payload appears mid-line, at a line start and at the very end.
    let filler = |n: usize| -> String {
        let line = "fn helper_NNN(x: f32) -> f32 { return x * 2.0 + 1.0; } // filler\n";
        let mut t = String::new();
        let mut k = 0;
        while t.len() < n {
            t.push_str(&line.replace("NNN", &k.to_string()));
            k += 1;
        }
        t
    };
    let core: Vec<char> = core_alphabet();
    for p in payloads(thorough) {
        let n = p.chars().count();
        let is_core = n <= 1 || (n == 2 && p.chars().all(|c| core.contains(&c)));
        let sizes: &[usize] = if is_core { &[160, 5_000, 70_000] } else if n == 2 || thorough { &[160] } else { &[] };
        for &sz in sizes {
            let f = filler(sz);
            v.push(Input { key: format!("long|{sz}|{}", esc(&p)), src: format!("/* a{p}b */\n{f}/*{p}*/ @compute @workgroup_size(1) fn main() {{}}\n//{p}") });
        }
    }
    // long runs of multi-byte characters: whatever chunking the output path uses (pipe reads of 4 KiB / 64 KiB),
    // some character straddles a boundary; 4 leading offsets x 3 character widths
    for (cname, ch) in [("2byte", '\u{e9}'), ("3byte", '\u{20ac}'), ("4byte", '\u{1F980}')] {
        for lead in 0..4usize {
            let run: String = std::iter::repeat(ch).take(24_000).collect();
            v.push(Input { key: format!("long-run|{cname}|lead={lead}"), src: format!("//{}{run}\n@compute @workgroup_size(1) fn main() {{}}\n", "x".repeat(lead)) });
        }
    }
    // WGSL items named like the items the generator emits around the source (type and value namespaces are separate in
    // Rust: a struct `SOURCE` and the constant `SOURCE` coexist)
    for (what, src) in [
        ("struct-SOURCE", "struct SOURCE { a: vec4<f32> };\n@group(0) @binding(0) var<uniform> u: SOURCE;\n@compute @workgroup_size(1) fn main() { let x = u.a; }\n"),
        ("struct-create_shader_module", "struct create_shader_module { a: vec4<f32> };\n@group(0) @binding(0) var<uniform> u: create_shader_module;\n@compute @workgroup_size(1) fn main() { let x = u.a; }\n"),
        ("var-SOURCE", "@group(0) @binding(0) var<uniform> SOURCE: vec4<f32>;\n@compute @workgroup_size(1) fn main() { let x = SOURCE.x; }\n"),
        ("entry-SOURCE", "@compute @workgroup_size(1) fn SOURCE() { }\n"),
        ("struct-member-SOURCE", "struct S { SOURCE: vec4<f32>, source: f32 };\n@group(0) @binding(0) var<uniform> u: S;\n@compute @workgroup_size(1) fn main() { let x = u.SOURCE; }\n"),
        ("vertex-struct-SOURCE", "struct SOURCE { @location(0) p: vec4<f32> };\n@vertex fn vs_main(v: SOURCE) -> @builtin(position) vec4<f32> { return v.p; }\n"),
    ] {
        v.push(Input { key: format!("named|{what}"), src: format!("/* \"q\" \\ {{}} */\n{src}") });
    }
    // declarations-only and empty sources (no entry point): SOURCE and create_shader_module are owed all the same
    for (what, src) in [
        ("library", "/* \"lib\" \\ */\nstruct Shared { a: vec4<f32> };\nconst K: f32 = 2.0;\nfn helper(x: f32) -> f32 { return x * K; }\n"),
        ("bindings-only", "@group(0) @binding(0) var<uniform> u: vec4<f32>;\n"),
        ("comment-only", "// nothing but a comment \"here\"\n"),
        ("empty", ""),
        ("whitespace", " \n\t\r\n"),
    ] {
        v.push(Input { key: format!("no-entry|{what}"), src: src.to_string() });
    }
    // non-ASCII identifiers
    for id in ["\u{e9}t\u{e9}", "\u{4e2d}\u{6587}", "a\u{301}b", "\u{394}x", "\u{10400}z"] {
        v.push(Input { key: format!("ident|{}", esc(id)), src: format!("struct {id}S {{ {id}: f32 }};\n@group(0) @binding(0) var<uniform> {id}_v: {id}S;\n@compute @workgroup_size(1) fn {id}_main() {{ let {id}_l = {id}_v.{id}; }}\n") });
    }
    v
}

/// Child (PATH without a formatter): every embedded input with `rustfmt: true`; prints `MISMATCH <key> <what>` lines.
pub fn nofmt_child(tier: &str) -> i32 {
    let thorough = tier == "thorough";
    let ins: Vec<_> = inputs(thorough).into_iter().filter(|i| thorough || !i.key.starts_with("long|") || i.key.starts_with("long|160|")).collect();
    let res = par_map(&ins, |i| {
        let off = generate(&i.src, &Config::default());
        if !matches!(off, Outcome::Ok(_)) {
            return None;
        }
        Some(match generate(&i.src, &Config { rustfmt: true, ..Config::default() }) {
            Outcome::Ok(t) => match source_value(&t) {
                Ok(Val::Str(s)) if s == i.src => None,
                Ok(Val::Str(s)) => {
                    let pos = s.bytes().zip(i.src.bytes()).position(|(a, b)| a != b).unwrap_or(s.len().min(i.src.len()));
                    Some(format!("SOURCE differs from the input at byte {pos} (lengths {} vs {})", s.len(), i.src.len()))
                }
                Ok(o) => Some(format!("SOURCE is not a string literal: {}", format!("{o:?}").chars().take(60).collect::<String>())),
                Err(e) => Some(format!("generated module is not readable: {}", e.chars().take(80).collect::<String>())),
            },
            other => Some(format!("the call fails: {}", other.class())),
        })
    });
    let mut checked = 0;
    for (i, r) in ins.iter().zip(res.iter()) {
        if let Some(r) = r {
            checked += 1;
            if let Some(what) = r {
                println!("MISMATCH {} {}", i.key.replace(' ', "_"), what.replace('\n', " "));
            }
        }
    }
    println!("CHECKED {checked}");
    0
}

fn source_value(text: &str) -> Result<Val, String> {
    let m = omodel::parse(text)?;
    m.top_const("SOURCE").map(|c| c.val.clone()).ok_or_else(|| "no SOURCE constant".to_string())
}

fn without_source(text: &str) -> Result<Vec<String>, String> {
    use quote::ToTokens;
    let file = syn::parse_file(text).map_err(|e| e.to_string())?;
    let mut ts = proc_macro2::TokenStream::new();
    for item in &file.items {
        if !matches!(item, syn::Item::Const(c) if c.ident == "SOURCE") {
            item.to_tokens(&mut ts);
        }
    }
    norm_tokens(&ts.to_string())
}

pub fn run(tier: &str) -> i32 {
    let mut rep = Report::new("C16", tier);
    let thorough = rep.thorough();
    let ins = inputs(thorough);
    let include_paths: Vec<String> = {
        // ordinary paths, boundary values of the path domain (empty, blank, dot, separators only, very long), and
        // every escaping-relevant character alone and inside a name
        let mut v = vec!["shader.wgsl".to_string(), "../shaders/my shader.wgsl".to_string(), "C:\\dir\\s.wgsl".to_string(), String::new(), " ".to_string(), ".".to_string(), "/".to_string(), "\\".to_string(), "\n".to_string(), format!("{}/deep.wgsl", "d".repeat(5000))];
        for p in payloads(false).into_iter().filter(|p| p.chars().count() == 1) {
            v.push(p);
        }
        for p in payloads(false).into_iter().filter(|p| !p.is_empty()) {
            if p.chars().count() == 1 || thorough {
                v.push(format!("a{p}b.wgsl"));
            }
        }
        v
    };
    // ---- embedded variant, formatter off and on
    let res = par_map(&ins, |i| {
        let off = generate(&i.src, &Config::default());
        // formatter on: everything in thorough; in quick the long variants only at the smallest size
        let with_fmt = thorough || !i.key.starts_with("long|") || i.key.starts_with("long|160|");
        let on = if matches!(off, Outcome::Ok(_)) && with_fmt { Some(generate(&i.src, &Config { rustfmt: true, ..Config::default() })) } else { None };
        (off, on)
    });
    let mut compiled: Vec<(usize, String)> = vec![];
    for (idx, (i, (off, on))) in ins.iter().zip(res.iter()).enumerate() {
        rep.states += 1;
        rep.transitions += i.src.chars().count() as u64;
        let text = match off {
            Outcome::Ok(t) => t,
            other => {
                rep.filtered(&format!("generator not Ok: {}", other.class().chars().take(40).collect::<String>()));
                continue;
            }
        };
        rep.nontrivial.insert(hash64(&i.src));
        for (fmt, t) in [(false, Some(text)), (true, on.as_ref().and_then(|o| o.ok().map(|_| match o { Outcome::Ok(t) => t, _ => unreachable!() })))] {
            if fmt && on.is_none() {
                continue; // not attempted in this tier
            }
            rep.evaluations += 1;
            let case = format!("{}|fmt={}", i.key, fmt as u8);
            let t = match t {
                Some(t) => t,
                None => {
                    rep.violation(case, format!("generation with the formatter on fails: {}", on.as_ref().map(|o| o.class()).unwrap_or_default()), json!({"wgsl": i.src, "config": "rustfmt"}));
                    continue;
                }
            };
            match source_value(t) {
                Ok(Val::Str(s)) => {
                    rep.outcomes.insert(format!("str:{}", s == i.src));
                    if s != i.src {
                        let pos = s.bytes().zip(i.src.bytes()).position(|(a, b)| a != b).unwrap_or(s.len().min(i.src.len()));
                        rep.violation(case, format!("SOURCE differs from the input at byte {pos} (lengths {} vs {})", s.len(), i.src.len()), json!({"wgsl": i.src, "config": if fmt { "rustfmt" } else { "default" }, "observed": s}));
                    }
                }
                Ok(other) => {
                    rep.violation(case, format!("SOURCE is not a string literal: {other:?}"), json!({"wgsl": i.src}));
                }
                Err(e) => {
                    rep.violation(case, format!("generated module is not readable: {e}"), json!({"wgsl": i.src, "config": if fmt { "rustfmt" } else { "default" }}));
                }
            }
        }
        let n = i.key.split('|').nth(1).map(|s| s.split('.').filter(|x| !x.is_empty()).count()).unwrap_or(0);
        if n <= 1 || thorough || i.key.starts_with("ident") {
            compiled.push((idx, text.clone()));
        }
    }
    // ---- formatter requested but not available (a process whose PATH has no rustfmt): the returned text is the
    // unformatted one, and its SOURCE must still evaluate to the input
    {
        let empty = std::path::Path::new(&std::env::var("VERIF_ROOT").unwrap_or_else(|_| ".".into())).join("target/c16-empty-path");
        let _ = std::fs::create_dir_all(&empty);
        let out = std::process::Command::new(std::env::current_exe().unwrap()).args(["c16-nofmt", tier]).env("PATH", &empty).stderr(std::process::Stdio::null()).output();
        match out {
            Ok(o) if o.status.success() => {
                let text = String::from_utf8_lossy(&o.stdout);
                let mut checked = 0u64;
                for line in text.lines() {
                    if let Some(n) = line.strip_prefix("CHECKED ") {
                        checked = n.trim().parse().unwrap_or(0);
                    } else if let Some(rest) = line.strip_prefix("MISMATCH ") {
                        let (key, what) = rest.split_once(' ').unwrap_or((rest, ""));
                        let src = ins.iter().find(|i| i.key == key).map(|i| i.src.clone()).unwrap_or_default();
                        rep.violation(format!("{key}|fmt=unavailable"), format!("formatter requested but not on PATH: {what}"), json!({"wgsl": src, "config": "rustfmt, PATH without a formatter"}));
                    }
                }
                if checked == 0 {
                    machinery("C16: the no-formatter child checked nothing");
                }
                rep.evaluations += checked;
                rep.set("inputs_checked_without_a_formatter_on_path", json!(checked));
            }
            Ok(o) => machinery(&format!("C16: no-formatter child failed: {:?}", o.status)),
            Err(e) => machinery(&format!("C16: cannot start the no-formatter child: {e}")),
        }
    }
    // ---- free-running concurrent leg (not exhaustive: real threads released together, a few rounds). Several large
    // modules are formatted at the same time; each call must still embed its own source. C18's scheduler and its
    // syscall monitors are the systematic counterpart; unhooked file-system hand-offs are only visible to a run like this
    {
        let big: Vec<&Input> = ins.iter().filter(|i| i.src.len() >= 66_000 && (i.key.starts_with("long-run|") || i.key.starts_with("long|70000|"))).take(8).collect();
        let rounds = if thorough { 6 } else { 3 };
        let cfg_on = Config { rustfmt: true, ..Config::default() };
        for round in 0..rounds {
            let barrier = std::sync::Arc::new(std::sync::Barrier::new(big.len()));
            let outs: Vec<Outcome> = std::thread::scope(|sc| {
                let hs: Vec<_> = big.iter().map(|i| {
                    let b = barrier.clone();
                    let src = i.src.clone();
                    sc.spawn(move || {
                        b.wait();
                        generate(&src, &cfg_on)
                    })
                }).collect();
                hs.into_iter().map(|h| h.join().unwrap_or(Outcome::Panic("thread panicked".into()))).collect()
            });
            for (i, o) in big.iter().zip(outs.iter()) {
                rep.evaluations += 1;
                let case = format!("concurrent|{}|round={round}", i.key);
                match o {
                    Outcome::Ok(t) => match source_value(t) {
                        Ok(Val::Str(s)) if s == i.src => {}
                        Ok(_) => rep.violation(case, "SOURCE of a module formatted concurrently with others is not its own input".to_string(), json!({"wgsl": i.src.chars().take(200).collect::<String>(), "config": cfg_on.key()})),
                        Err(e) => rep.violation(case, format!("output of a module formatted concurrently with others cannot be read: {e}"), json!({"config": cfg_on.key()})),
                    },
                    other => rep.violation(case, format!("generation fails when formatted concurrently with others: {}", other.class().chars().take(80).collect::<String>()), json!({"config": cfg_on.key()})),
                }
            }
        }
        rep.set("concurrent_leg", json!({"threads": big.len(), "rounds": rounds, "note": "free-running, not exhaustive"}));
    }
    // ---- include variant
    let base = "@group(0) @binding(0) var<uniform> u: vec4<f32>;\n@compute @workgroup_size(1) fn main() { let x = u.x; }\n";
    let embedded_rest = match generate(base, &Config::default()) {
        Outcome::Ok(t) => without_source(&t).unwrap_or_else(|e| machinery(&format!("C16: {e}"))),
        o => machinery(&format!("C16 base shader: {o:?}")),
    };
    let inc = par_map(&include_paths, |p| (generate_with(base, Some(p), Config::default().options()), generate_with(base, Some(p), Config { rustfmt: true, ..Config::default() }.options())));
    for (p, (a, b)) in include_paths.iter().zip(inc.iter()) {
        for (fmt, o) in [(false, a), (true, b)] {
            rep.states += 1;
            rep.evaluations += 1;
            let case = format!("include|{}|fmt={}", esc(p), fmt as u8);
            let t = match o {
                Outcome::Ok(t) => t,
                other => {
                    rep.violation(case, format!("include variant fails: {}", other.class()), json!({"wgsl": base, "include_path": p}));
                    continue;
                }
            };
            match source_value(t) {
                Ok(Val::Macro { name, tokens }) if name == "include_str" => match syn::parse_str::<syn::LitStr>(&tokens) {
                    Ok(l) if l.value() == *p => {
                        rep.outcomes.insert("include:true".into());
                    }
                    Ok(l) => rep.violation(case.clone(), format!("include_str! names `{}` instead of the given path", l.value().escape_debug()), json!({"wgsl": base, "include_path": p})),
                    Err(_) => rep.violation(case.clone(), format!("include_str! argument is not exactly one string literal: {tokens}"), json!({"wgsl": base, "include_path": p})),
                },
                Ok(other) => rep.violation(case.clone(), format!("SOURCE is not include_str!: {other:?}"), json!({"wgsl": base, "include_path": p})),
                Err(e) => rep.violation(case.clone(), format!("generated module is not readable: {e}"), json!({"wgsl": base, "include_path": p})),
            }
            match without_source(t) {
                Ok(r) if r == embedded_rest => {}
                Ok(_) => rep.violation(case, "the include variant differs from the embedded variant outside SOURCE".to_string(), json!({"wgsl": base, "include_path": p})),
                Err(_) => {}
            }
        }
    }
    // ---- rustc: SOURCE.as_bytes() == include_bytes!(original); create_shader_module hands over the same bytes
    let mut cases = vec![];
    let mut index: BTreeMap<String, usize> = BTreeMap::new();
    for (idx, text) in &compiled {
        let name = format!("c_{idx:05}");
        index.insert(name.clone(), *idx);
        cases.push(ProbeCase {
            name,
            generated: text.clone(),
            probe_body: "    let same = generated::SOURCE.as_bytes() == &include_bytes!(\"original.wgsl\")[..];\n    out.push(format!(\"{{\\\"op\\\":\\\"source\\\",\\\"same\\\":{same},\\\"len\\\":{}}}\", generated::SOURCE.len()));\n    let _m = generated::create_shader_module(device);".to_string(),
            probe_items: String::new(),
            files: vec![("original.wgsl".to_string(), ins[*idx].src.as_bytes().to_vec())],
        });
    }
    // include variant through rustc for well-behaved paths
    for (k, p) in ["shader.wgsl", "my shader \u{e9}.wgsl"].iter().enumerate() {
        if let Outcome::Ok(t) = generate_with(base, Some(p), Config::default().options()) {
            let name = format!("c_inc_{k}");
            index.insert(name.clone(), usize::MAX - k);
            cases.push(ProbeCase {
                name,
                generated: t,
                probe_body: "    let same = generated::SOURCE.as_bytes() == &include_bytes!(\"original.wgsl\")[..];\n    out.push(format!(\"{{\\\"op\\\":\\\"source\\\",\\\"same\\\":{same},\\\"len\\\":{}}}\", generated::SOURCE.len()));\n    let _m = generated::create_shader_module(device);".to_string(),
                probe_items: String::new(),
                files: vec![("original.wgsl".to_string(), base.as_bytes().to_vec()), (p.to_string(), base.as_bytes().to_vec())],
            });
        }
    }
    let results = probe::run_batch("C16", &cases, true);
    for cr in &results {
        let idx = index[&cr.name];
        let (key, src) = if idx > usize::MAX - 10 { (format!("include-rustc|{}", cr.name), base.to_string()) } else { (ins[idx].key.clone(), ins[idx].src.clone()) };
        match &cr.check {
            Verdict::Accepted => {}
            Verdict::Rejected(e) => {
                rep.violation(format!("{key}|rustc"), format!("rustc rejects the generated module: {} {}", e[0].0, e[0].1.chars().take(90).collect::<String>()), json!({"wgsl": src, "observed": format!("{e:?}")}));
                continue;
            }
            Verdict::ProbeMismatch(e) => {
                // the probe uses nothing but `SOURCE` and `create_shader_module(device)`: if it does not fit, one of them is
                // missing or has another shape
                rep.violation(format!("{key}|rustc"), format!("SOURCE / create_shader_module cannot be used as documented: {} {}", e[0].0, e[0].1.chars().take(90).collect::<String>()), json!({"wgsl": src, "observed": format!("{e:?}")}));
                continue;
            }
        }
        rep.traces_validated += 1;
        let same = cr.records.iter().find(|r| r["op"] == "source").map(|r| r["same"].as_bool().unwrap()).unwrap_or(false);
        if !same {
            rep.violation(format!("{key}|rustc"), "as compiled by rustc, SOURCE differs from the input bytes".to_string(), json!({"wgsl": src}));
        }
        let handed: Option<Vec<u8>> = cr.records.iter().find(|r| r["op"] == "create_shader_module").map(|r| r["source_bytes"].as_array().unwrap().iter().map(|b| b.as_u64().unwrap() as u8).collect());
        if handed.as_deref() != Some(src.as_bytes()) {
            rep.violation(format!("{key}|rustc"), "create_shader_module hands the device something other than the input string".to_string(), json!({"wgsl": src}));
        }
    }
    rep.set("compiled_modules", json!(cases.len()));
    rep.set("include_paths", json!(include_paths.len()));
    rep.sample(json!({"key": ins[7].key, "wgsl": ins[7].src}));
    rep.sample(json!({"key": ins[ins.len() / 2].key, "wgsl": ins[ins.len() / 2].src}));
    rep.rule = format!("payloads = every string of length <= 2 over a {}-character escaping alphabet (quotes, backslash, braces, CR/LF/TAB/NUL, C0 representatives, DEL, NEL, NBSP, LS/PS, BOM, bidi controls, ZW chars, combining mark, BMP and non-BMP letters, digits/letters that form escapes){} placed in a block comment, after a trailing line comment and in front of the shader; non-ASCII identifiers; {} include paths; formatter off/on. Sources naga rejects are outside the universe. Oracle: identity of SOURCE (syn literal value on every case; rustc `SOURCE.as_bytes() == include_bytes!(original)` and the bytes create_shader_module hands to the device on the compiled cases).", alphabet().len(), if thorough { " and length 3 over a 16-character core" } else { "" }, include_paths.len());
    rep.finish()
}
