//! Shared infrastructure of the explorers: running the generator (L1) under catch_unwind,
//! configuration enumeration, evidence / replay / known-finding handling.
use serde_json::{json, Value};
use std::collections::{BTreeMap, BTreeSet};
use std::path::PathBuf;
use std::time::Instant;
use wgsl_to_wgpu::{MatrixVectorTypes, ValidationOptions, WgslCapabilities, WriteOptions};
pub use wgslgen::Repr;

pub fn root() -> PathBuf {
    PathBuf::from(std::env::var("VERIF_ROOT").unwrap_or_else(|_| "/verif".to_string()))
}

#[derive(Clone, Copy, Debug, PartialEq, Eq, Hash, PartialOrd, Ord)]
pub enum Validate {
    Off,
    All,
    Empty,
}

#[derive(Clone, Copy, Debug, PartialEq, Eq, Hash, PartialOrd, Ord)]
pub struct Config {
    pub bytemuck_vertex: bool,
    pub bytemuck_host: bool,
    pub encase: bool,
    pub serde: bool,
    pub repr: Repr,
    pub rustfmt: bool,
    pub validate: Validate,
}

impl Default for Config {
    fn default() -> Self {
        Config { bytemuck_vertex: false, bytemuck_host: false, encase: false, serde: false, repr: Repr::Rust, rustfmt: false, validate: Validate::Off }
    }
}

impl Config {
    pub fn options(&self) -> WriteOptions {
        WriteOptions {
            derive_bytemuck_vertex: self.bytemuck_vertex,
            derive_bytemuck_host_shareable: self.bytemuck_host,
            derive_encase_host_shareable: self.encase,
            derive_serde: self.serde,
            matrix_vector_types: match self.repr {
                Repr::Rust => MatrixVectorTypes::Rust,
                Repr::Glam => MatrixVectorTypes::Glam,
                Repr::Nalgebra => MatrixVectorTypes::Nalgebra,
            },
            rustfmt: self.rustfmt,
            validate: match self.validate {
                Validate::Off => None,
                Validate::All => Some(ValidationOptions { capabilities: WgslCapabilities::all() }),
                Validate::Empty => Some(ValidationOptions { capabilities: WgslCapabilities::empty() }),
            },
        }
    }
    /// Stable key, e.g. `v1h0e1s0-Glam-fmt0-val0`.
    pub fn key(&self) -> String {
        format!(
            "v{}h{}e{}s{}-{:?}-fmt{}-val{}",
            self.bytemuck_vertex as u8,
            self.bytemuck_host as u8,
            self.encase as u8,
            self.serde as u8,
            self.repr,
            self.rustfmt as u8,
            match self.validate {
                Validate::Off => 0,
                Validate::All => 1,
                Validate::Empty => 2,
            }
        )
    }
    pub fn from_key(k: &str) -> Option<Config> {
        all_configs_full().into_iter().find(|c| c.key() == k)
    }
    /// 16 derive masks × 3 representations (formatter off, validation off).
    pub fn derive_space() -> Vec<Config> {
        let mut v = vec![];
        for repr in [Repr::Rust, Repr::Glam, Repr::Nalgebra] {
            for m in 0..16u8 {
                v.push(Config {
                    bytemuck_vertex: m & 1 != 0,
                    bytemuck_host: m & 2 != 0,
                    encase: m & 4 != 0,
                    serde: m & 8 != 0,
                    repr,
                    ..Default::default()
                });
            }
        }
        v
    }
    pub fn with_repr(mut self, r: Repr) -> Self {
        self.repr = r;
        self
    }
}

/// 16 × 3 × formatter × validation{off,all} = 192.
pub fn all_configs_192() -> Vec<Config> {
    let mut v = vec![];
    for c in Config::derive_space() {
        for rustfmt in [false, true] {
            for validate in [Validate::Off, Validate::All] {
                v.push(Config { rustfmt, validate, ..c });
            }
        }
    }
    v
}
pub fn all_configs_full() -> Vec<Config> {
    let mut v = vec![];
    for c in Config::derive_space() {
        for rustfmt in [false, true] {
            for validate in [Validate::Off, Validate::All, Validate::Empty] {
                v.push(Config { rustfmt, validate, ..c });
            }
        }
    }
    v
}

#[derive(Clone, Debug, PartialEq, Eq, Hash, PartialOrd, Ord)]
pub enum Outcome {
    Ok(String),
    /// variant name, Display text
    Err(String, String),
    Panic(String),
}

impl Outcome {
    pub fn class(&self) -> String {
        match self {
            Outcome::Ok(_) => "Ok".into(),
            Outcome::Err(v, _) => format!("Err({v})"),
            Outcome::Panic(m) => format!("Panic({})", m.chars().take(60).collect::<String>()),
        }
    }
    pub fn ok(&self) -> Option<&str> {
        match self {
            Outcome::Ok(s) => Some(s),
            _ => None,
        }
    }
}

thread_local! {
    static LAST_PANIC: std::cell::RefCell<String> = const { std::cell::RefCell::new(String::new()) };
}

/// Silence panic output (the explorers expect panics) but keep the message and location.
pub fn install_quiet_panic_hook() {
    std::panic::set_hook(Box::new(|info| {
        let msg = if let Some(s) = info.payload().downcast_ref::<&str>() {
            s.to_string()
        } else if let Some(s) = info.payload().downcast_ref::<String>() {
            s.clone()
        } else {
            "<non-string panic>".to_string()
        };
        let loc = info.location().map(|l| format!("{}:{}", l.file(), l.line())).unwrap_or_default();
        LAST_PANIC.with(|p| *p.borrow_mut() = format!("{msg} @ {loc}"));
    }));
}

pub fn take_panic_message() -> String {
    LAST_PANIC.with(|p| std::mem::take(&mut *p.borrow_mut()))
}

pub fn error_variant(e: &wgsl_to_wgpu::CreateModuleError) -> String {
    use wgsl_to_wgpu::CreateModuleError as E;
    match e {
        E::NonConsecutiveBindGroups => "NonConsecutiveBindGroups".into(),
        E::DuplicateBinding { binding } => format!("DuplicateBinding({binding})"),
        E::ParseError { .. } => "ParseError".into(),
        E::ValidationError { .. } => "ValidationError".into(),
        _ => "Other".into(),
    }
}

/// History leg: when on, every second formatter-off call (by hash of the source) made through `generate_with` is preceded, on the same thread, by one
/// other call (chosen by the hash of the source from `PRIOR_CALLS`: calls that panic at different depths, calls that
/// return each error, calls that succeed on wide modules). The checked call's expected result never depends on it:
/// every property quantifies over single calls whatever happened before on the thread.
pub static HISTORY_LEG: std::sync::atomic::AtomicBool = std::sync::atomic::AtomicBool::new(false);
pub static PRIOR_CALLS_MADE: std::sync::atomic::AtomicU64 = std::sync::atomic::AtomicU64::new(0);

/// (name, source, validate) of the calls used as history.
pub fn prior_calls() -> Vec<(&'static str, String, bool)> {
    let mut v = vec![];
    // panics late (struct emission) after every earlier stage of generation ran on a wide module
    let mut s = String::from("struct P0 { a: vec3<f32>, b: f32 };\n");
    for i in 1..12 {
        s.push_str(&format!("struct P{i} {{ inner: P{}, pad: vec2<u32>, arr: array<P{}, 2> }};\n", i - 1, i - 1));
    }
    s.push_str("struct PLocal { q: f32 };\nstruct POut { @builtin(position) p: vec4<f32>, @location(0) c: vec4<f32> };\nstruct PIn { @location(0) a: vec4<f32>, @location(1) b: vec2<f32> };\n");
    s.push_str("struct PRoot { head: P11, items: array<P11> };\n@group(0) @binding(0) var<storage, read> p_root: PRoot;\n@group(0) @binding(1) var<uniform> p_u: P3;\n@group(1) @binding(0) var p_tex: texture_2d<f32>;\n@group(1) @binding(1) var p_samp: sampler;\nvar<push_constant> p_pc: P1;\noverride p_scale: f32 = 1.0;\noverride p_count: u32;\n");
    s.push_str("fn p_helper() -> f32 { var l: PLocal; return l.q + p_pc.pad.x + p_u.pad.y; }\n@vertex fn p_vs(i: PIn) -> POut { var o: POut; o.p = i.a * p_root.head.pad.x * p_scale; return o; }\n@fragment fn p_fs(i: POut) -> @location(0) vec4<f32> { return textureSample(p_tex, p_samp, i.c.xy) * p_helper() * f32(p_count); }\n@compute @workgroup_size(4, 2, 1) fn p_cs() { _ = p_root.items[0].pad.x; }\n");
    v.push(("panic-runtime-array-without-encase", s.replace("pad: vec2<u32>", "pad: vec2<f32>"), false));
    // the two errors of bind group collection, on modules that declare many (group, binding) pairs
    let mut d = String::new();
    let mut n = String::new();
    for g in 0..4 {
        for b in 0..4 {
            d.push_str(&format!("@group({g}) @binding({b}) var<uniform> d_{g}_{b}: vec4<f32>;\n"));
            if g != 1 {
                n.push_str(&format!("@group({g}) @binding({b}) var<uniform> n_{g}_{b}: vec4<f32>;\n"));
            }
        }
    }
    d.push_str("@group(3) @binding(3) var<uniform> d_again: vec4<f32>;\n@compute @workgroup_size(1) fn d_cs() { _ = d_0_0.x + d_again.x; }\n");
    n.push_str("@compute @workgroup_size(1) fn n_cs() { _ = n_0_0.x; }\n");
    v.push(("err-duplicate-binding", d, false));
    v.push(("err-non-consecutive-groups", n, false));
    v.push(("err-parse", "struct Half { a: f32,\n@compute fn {".to_string(), false));
    v.push(("err-validation", "struct VE { a: f32 };\n@group(0) @binding(0) var<uniform> ve: VE;\nfn ve_f() -> f32 { return ve; }\n@compute @workgroup_size(1) fn ve_cs() { _ = ve_f(); }\n".to_string(), true));
    v.push(("panic-binding-array", "@group(0) @binding(0) var<uniform> ba_first: vec4<f32>;\n@group(0) @binding(1) var ba_arr: binding_array<texture_2d<f32>, 2>;\n@compute @workgroup_size(1) fn ba_cs() { _ = ba_first.x; }\n".to_string(), false));
    v.push(("panic-int64-member", "struct W0 { a: f32 };\nstruct W1 { w: W0, wide: vec2<i64> };\n@group(0) @binding(0) var<storage, read> w1: W1;\n@compute @workgroup_size(1) fn w_cs() { _ = w1.w.a; }\n".to_string(), false));
    // calls that succeed on wide modules
    v.push(("ok-kitchen-vertex-fragment", crate::c01::KITCHEN_VF.to_string(), false));
    v.push(("ok-wide-compute", {
        let mut s = String::new();
        for i in 0..10 {
            s.push_str(&format!("struct K{i} {{ a: vec4<f32>, n: atomic<u32>, t: array<vec2<f32>, 3> }};\n@group({}) @binding({}) var<storage, read_write> k{i}: K{i};\noverride k_ov{i}: f32 = {i}.5;\nconst K_C{i}: u32 = {i}u;\n", i / 4, i % 4));
        }
        s.push_str("var<workgroup> k_wg: array<K0, 2>;\nvar<private> k_priv: K1;\nvar<push_constant> k_pc: vec4<u32>;\nfn k_a() -> f32 { return k0.a.x + k_ov0; }\nfn k_b() -> f32 { return k_a() + k5.a.y + f32(k_pc.x); }\n@compute @workgroup_size(8, 1, 1) fn k_one() { _ = k_b(); _ = k_priv.a; }\n@compute @workgroup_size(1, 2, 3) fn k_two() { _ = k9.a.x + k_ov9; _ = k_wg[0].a; }\n");
        s
    }, false));
    v.push(("ok-fragment-only-overrides", "override f_a: f32;\noverride f_b: bool = true;\n@id(7) override f_c: i32 = -2;\nstruct FOut { @location(0) a: vec4<f32>, @location(2) b: vec4<f32> };\n@fragment fn f_main() -> FOut { var o: FOut; if f_b { o.a = vec4<f32>(f_a * f32(f_c)); } return o; }\n".to_string(), false));
    v
}

fn prior_call(h: u64) {
    static CALLS: std::sync::OnceLock<Vec<(&'static str, String, bool)>> = std::sync::OnceLock::new();
    let calls = CALLS.get_or_init(prior_calls);
    let (_, src, validate) = &calls[(h % calls.len() as u64) as usize];
    let mut options = WriteOptions::default();
    if *validate {
        options.validate = Some(ValidationOptions { capabilities: WgslCapabilities::all() });
    }
    let _ = generate_with_unguarded(src, None, options);
    PRIOR_CALLS_MADE.fetch_add(1, std::sync::atomic::Ordering::Relaxed);
}

/// Calls that start the external formatter run under a watchdog: a call that does not come back within 60 s is
/// reported as `Panic("VERIF watchdog: ...")` (the worker thread is abandoned), so that a tree on which formatting
/// can block makes the checks fail instead of hang.
pub fn generate_with(src: &str, include: Option<&str>, options: WriteOptions) -> Outcome {
    if !options.rustfmt {
        if HISTORY_LEG.load(std::sync::atomic::Ordering::Relaxed) {
            // every second source (by hash) gets a history; which one is chosen by the remaining hash bits
            let h = hash64(src);
            if h % 2 == 0 {
                prior_call(h / 2);
            }
        }
        return generate_with_unguarded(src, include, options);
    }
    let (tx, rx) = std::sync::mpsc::channel();
    let (src2, inc2) = (src.to_string(), include.map(|s| s.to_string()));
    std::thread::spawn(move || {
        let _ = tx.send(generate_with_unguarded(&src2, inc2.as_deref(), options));
    });
    match rx.recv_timeout(std::time::Duration::from_secs(60)) {
        Ok(o) => o,
        Err(_) => Outcome::Panic("VERIF watchdog: the call with the formatter on did not return within 60 s (hang)".into()),
    }
}

pub fn generate_with_unguarded(src: &str, include: Option<&str>, options: WriteOptions) -> Outcome {
    let r = std::panic::catch_unwind(std::panic::AssertUnwindSafe(|| match include {
        Some(p) => wgsl_to_wgpu::create_shader_module(src, p, options),
        None => wgsl_to_wgpu::create_shader_module_embedded(src, options),
    }));
    match r {
        Ok(Ok(s)) => Outcome::Ok(s),
        Ok(Err(e)) => Outcome::Err(error_variant(&e), e.to_string()),
        Err(_) => Outcome::Panic(take_panic_message()),
    }
}

pub fn generate(src: &str, cfg: &Config) -> Outcome {
    generate_with(src, None, cfg.options())
}

/// The generator's documented refusals, predicted from the program text and the options by reading naga's IR (not by
/// asking the generator): classes of `Outcome::class()` a call may end in. `*` = naga itself rejects the program.
pub fn expected_refusals(src: &str, cfg: &Config) -> Vec<String> {
    let mut v = vec![];
    let module = match std::panic::catch_unwind(|| naga::front::wgsl::parse_str(src)) {
        Ok(Ok(m)) => m,
        _ => return vec!["Err(ParseError)".to_string()],
    };
    if naga_check(src).is_err() {
        return vec!["*".to_string()];
    }
    let _ = take_panic_message();
    let mut pairs = BTreeSet::new();
    let mut groups = BTreeSet::new();
    for (_, g) in module.global_variables.iter() {
        if let Some(b) = &g.binding {
            if !pairs.insert((b.group, b.binding)) {
                v.push("Err(DuplicateBinding".to_string());
            }
            groups.insert(b.group);
            match &module.types[g.ty].inner {
                naga::TypeInner::Atomic(_) | naga::TypeInner::BindingArray { .. } | naga::TypeInner::AccelerationStructure | naga::TypeInner::RayQuery => v.push("Panic(Unsupported type".to_string()),
                _ => {}
            }
        }
    }
    if groups.iter().enumerate().any(|(i, g)| *g != i as u32) {
        v.push("Err(NonConsecutiveBindGroups)".to_string());
    }
    // 64-bit integers have no Rust mapping as *member or variable types* (constants and locals of those types are fine):
    // the types reachable from struct members and module-scope variables
    let mut data_types: Vec<naga::Handle<naga::Type>> = module.global_variables.iter().map(|(_, g)| g.ty).collect();
    for (_, t) in module.types.iter() {
        if let naga::TypeInner::Struct { members, .. } = &t.inner {
            data_types.extend(members.iter().map(|m| m.ty));
        }
    }
    let mut seen = BTreeSet::new();
    while let Some(h) = data_types.pop() {
        if !seen.insert(h.index()) {
            continue;
        }
        match &module.types[h].inner {
            naga::TypeInner::Array { base, .. } | naga::TypeInner::BindingArray { base, .. } => data_types.push(*base),
            naga::TypeInner::Scalar(sc) | naga::TypeInner::Vector { scalar: sc, .. } | naga::TypeInner::Atomic(sc) if sc.width == 8 && matches!(sc.kind, naga::ScalarKind::Sint | naga::ScalarKind::Uint) => v.push("Panic(not yet implemented".to_string()),
            _ => {}
        }
    }
    for (_, t) in module.types.iter() {
        if let naga::TypeInner::Array { size: naga::ArraySize::Dynamic, .. } = &t.inner {
            if !cfg.encase || cfg.bytemuck_host || cfg.bytemuck_vertex {
                v.push("Panic(Runtime-sized array fields are".to_string());
            }
        }
    }
    v.sort();
    v.dedup();
    v
}

/// naga's own verdict on a source (parse + validate with all capabilities), independent of the generator.
pub fn naga_check(src: &str) -> Result<(naga::Module, naga::valid::ModuleInfo), String> {
    let r = std::panic::catch_unwind(|| {
        let m = naga::front::wgsl::parse_str(src).map_err(|e| format!("parse: {}", e.emit_to_string(src)))?;
        let info = naga::valid::Validator::new(naga::valid::ValidationFlags::all(), naga::valid::Capabilities::all())
            .validate(&m)
            .map_err(|e| format!("validate: {:?}", e))?;
        Ok((m, info))
    });
    match r {
        Ok(x) => x,
        Err(_) => Err(format!("naga panicked: {}", take_panic_message())),
    }
}

pub fn stages_str(s: wgpu_types::ShaderStages) -> String {
    let mut v = vec![];
    if s.contains(wgpu_types::ShaderStages::VERTEX) {
        v.push("V");
    }
    if s.contains(wgpu_types::ShaderStages::FRAGMENT) {
        v.push("F");
    }
    if s.contains(wgpu_types::ShaderStages::COMPUTE) {
        v.push("C");
    }
    let rest = s.bits() & !(wgpu_types::ShaderStages::all().bits());
    if rest != 0 {
        v.push("?");
    }
    if v.is_empty() {
        "NONE".into()
    } else {
        v.join("+")
    }
}

// ---------------------------------------------------------------------------------------------

#[derive(Clone, Debug)]
pub struct Violation {
    /// stable key of the failing case (atoms, option key, indices ...): known findings match on it
    pub case: String,
    /// what is observed, in a stable short form
    pub signature: String,
    /// everything needed to replay: at least `wgsl` and `config`
    pub detail: Value,
}

#[derive(Clone, Debug, serde::Deserialize)]
pub struct KnownFinding {
    pub property: String,
    pub status: String,
    #[serde(default)]
    pub case: String,
    #[serde(default)]
    pub signature: String,
    pub note: String,
    #[serde(default)]
    pub commit: Option<String>,
}

pub fn load_known_findings() -> Vec<KnownFinding> {
    let p = root().join("known_findings.json");
    match std::fs::read_to_string(&p) {
        Ok(s) => {
            let v: Value = serde_json::from_str(&s).unwrap_or_else(|e| machinery(&format!("known_findings.json: {e}")));
            serde_json::from_value(v["findings"].clone()).unwrap_or_else(|e| machinery(&format!("known_findings.json: {e}")))
        }
        Err(_) => vec![],
    }
}

/// Tiny glob: `*` matches any run of characters; everything else literal. Anchored at both ends.
pub fn glob_match(pat: &str, s: &str) -> bool {
    let parts: Vec<&str> = pat.split('*').collect();
    if parts.len() == 1 {
        return pat == s;
    }
    let mut pos = 0usize;
    for (i, part) in parts.iter().enumerate() {
        if i == 0 {
            if !s.starts_with(part) {
                return false;
            }
            pos = part.len();
        } else if i == parts.len() - 1 {
            return s.len() >= pos + part.len() && s[pos..].ends_with(part);
        } else {
            match s[pos..].find(part) {
                Some(j) => pos += j + part.len(),
                None => return false,
            }
        }
    }
    true
}

pub fn machinery(msg: &str) -> ! {
    eprintln!("MACHINERY-ERROR: {msg}");
    println!("MACHINERY-ERROR: {msg}");
    std::process::exit(2);
}

pub struct Report {
    pub property: String,
    pub tier: String,
    pub seed: i64,
    pub level: String,
    pub start: Instant,
    pub states: u64,
    pub transitions: u64,
    pub evaluations: u64,
    pub traces_validated: u64,
    pub max_depth: u64,
    pub exhaustive: bool,
    pub rule: String,
    pub samples: Vec<Value>,
    pub assumptions: Vec<String>,
    pub outcomes: BTreeSet<String>,
    pub nontrivial: BTreeSet<u64>,
    pub extra: BTreeMap<String, Value>,
    pub violations: Vec<Violation>,
    pub filtered_out: BTreeMap<String, u64>,
    pub counters: BTreeMap<String, u64>,
}

pub fn hash64(s: &str) -> u64 {
    // FNV-1a, deterministic across runs
    let mut h: u64 = 0xcbf29ce484222325;
    for b in s.as_bytes() {
        h ^= *b as u64;
        h = h.wrapping_mul(0x100000001b3);
    }
    h
}

impl Report {
    pub fn new(property: &str, tier: &str) -> Report {
        // single-call properties: every formatter-off call is made on a thread with a history (see HISTORY_LEG).
        // C16/C18/C19 drive histories themselves, C20 counts hook points per call.
        if !matches!(property, "C16" | "C18" | "C19" | "C20") {
            HISTORY_LEG.store(true, std::sync::atomic::Ordering::Relaxed);
        }
        Report {
            property: property.to_string(),
            tier: tier.to_string(),
            seed: std::env::var("VERIF_SEED").ok().and_then(|s| s.parse().ok()).unwrap_or(0),
            level: "model_checking".into(),
            start: Instant::now(),
            states: 0,
            transitions: 0,
            evaluations: 0,
            traces_validated: 0,
            max_depth: 0,
            exhaustive: true,
            rule: String::new(),
            samples: vec![],
            assumptions: vec![],
            outcomes: BTreeSet::new(),
            nontrivial: BTreeSet::new(),
            extra: BTreeMap::new(),
            violations: vec![],
            filtered_out: BTreeMap::new(),
            counters: BTreeMap::new(),
        }
    }
    pub fn thorough(&self) -> bool {
        self.tier == "thorough"
    }
    pub fn sample(&mut self, v: Value) {
        if self.samples.len() < 6 {
            self.samples.push(v);
        }
    }
    pub fn count(&mut self, what: &str) {
        *self.counters.entry(what.to_string()).or_insert(0) += 1;
    }
    pub fn filtered(&mut self, why: &str) {
        *self.filtered_out.entry(why.to_string()).or_insert(0) += 1;
    }
    /// A call that did not return Ok: filtered when the failure is one of the generator's documented refusals *as
    /// predicted from the program and the options* (see `expected_refusals`), a violation otherwise - a program inside
    /// the supported feature set owes an output.
    pub fn generation_failed(&mut self, case: impl Into<String>, class: &str, src: &str, cfg: &Config) {
        let allowed = expected_refusals(src, cfg);
        if let Some(a) = allowed.iter().find(|a| a.as_str() == "*" || class.contains(a.as_str())) {
            self.filtered(&format!("generator refuses as documented ({})", if a == "*" { "naga itself rejects the program" } else { a.as_str() }));
        } else {
            self.violation(case, format!("generation fails on a program inside the supported feature set: {}", class.chars().take(110).collect::<String>()), json!({"wgsl": src, "config": cfg.key(), "predicted_refusals": allowed}));
        }
    }
    pub fn violation(&mut self, case: impl Into<String>, signature: impl Into<String>, detail: Value) {
        self.violations.push(Violation { case: case.into(), signature: signature.into(), detail });
    }
    pub fn set(&mut self, k: &str, v: Value) {
        self.extra.insert(k.to_string(), v);
    }
    pub fn merge(&mut self, other: Report) {
        self.states += other.states;
        self.transitions += other.transitions;
        self.evaluations += other.evaluations;
        self.traces_validated += other.traces_validated;
        self.max_depth = self.max_depth.max(other.max_depth);
        self.outcomes.extend(other.outcomes);
        self.nontrivial.extend(other.nontrivial);
        self.violations.extend(other.violations);
        for s in other.samples {
            self.sample(s);
        }
        for (k, v) in other.filtered_out {
            *self.filtered_out.entry(k).or_insert(0) += v;
        }
        for (k, v) in other.extra {
            self.extra.insert(k, v);
        }
        for (k, v) in other.counters {
            *self.counters.entry(k).or_insert(0) += v;
        }
    }

    /// Writes the evidence file, handles known findings / replays, and returns the exit code.
    pub fn finish(mut self) -> i32 {
        let known = load_known_findings();
        let id = self.property.clone();
        // de-duplicate violations by (case, signature)
        let mut seen = BTreeSet::new();
        self.violations.retain(|v| seen.insert((v.case.clone(), v.signature.clone())));
        let mut new_violations = vec![];
        let mut known_lines = BTreeMap::new();
        for v in &self.violations {
            let hit = known
                .iter()
                .find(|k| k.property == id && k.status == "known" && glob_match(&k.case, &v.case) && glob_match(&k.signature, &v.signature));
            match hit {
                Some(k) => {
                    let e = known_lines.entry(k.note.clone()).or_insert((0u64, v.case.clone(), v.signature.clone()));
                    e.0 += 1;
                }
                None => new_violations.push(v.clone()),
            }
        }
        for (note, (n, case, sig)) in &known_lines {
            println!("KNOWN-FINDING: property={id} {note} [{n} case(s), e.g. case={case} observed={sig}]");
        }
        let replay_dir = root().join("replays").join(&id);
        let mut exit = 0;
        if !new_violations.is_empty() {
            let _ = std::fs::create_dir_all(&replay_dir);
            // report at most 20 distinct, the rest is counted
            for (i, v) in new_violations.iter().enumerate().take(20) {
                let name = format!("{:02}-{:016x}.json", i, hash64(&format!("{}|{}", v.case, v.signature)));
                let path = replay_dir.join(name);
                let body = json!({"property": id, "case": v.case, "signature": v.signature, "detail": v.detail});
                std::fs::write(&path, serde_json::to_string_pretty(&body).unwrap()).unwrap();
                println!("VIOLATION property={} replay={}", id, path.display());
                println!("  case={} observed={}", v.case, v.signature);
            }
            if new_violations.len() > 20 {
                println!("  ... and {} more violations of property {}", new_violations.len() - 20, id);
            }
            // grouped summary (by signature head) so that large result sets stay readable
            let mut classes: BTreeMap<String, (u64, String)> = BTreeMap::new();
            for v in &new_violations {
                let head: String = v.signature.chars().take(70).collect();
                let e = classes.entry(head).or_insert((0, v.case.clone()));
                e.0 += 1;
            }
            for (sig, (n, case)) in &classes {
                println!("  class x{n}: {sig}  e.g. {case}");
            }
            exit = 1;
        }
        let wall = self.start.elapsed().as_secs_f64();
        let mut coverage = serde_json::Map::new();
        coverage.insert("states".into(), json!(self.states.max(1)));
        coverage.insert("transitions".into(), json!(self.transitions.max(1)));
        coverage.insert("traces_validated_against_impl".into(), json!(self.traces_validated));
        let prior = PRIOR_CALLS_MADE.load(std::sync::atomic::Ordering::Relaxed);
        if prior > 0 {
            coverage.insert("calls_preceded_by_another_call_on_the_thread".into(), json!(prior));
        }
        coverage.insert("evaluations".into(), json!(self.evaluations.max(1)));
        coverage.insert("distinct_nontrivial".into(), json!(self.nontrivial.len()));
        coverage.insert("distinct_outcomes".into(), json!(self.outcomes.len()));
        coverage.insert("max_depth".into(), json!(self.max_depth));
        coverage.insert("rule".into(), json!(self.rule));
        coverage.insert("exhaustive".into(), json!(self.exhaustive));
        if self.samples.is_empty() {
            self.samples.push(json!("(no sample recorded)"));
        }
        coverage.insert("samples".into(), json!(self.samples));
        coverage.insert("filtered_out".into(), json!(self.filtered_out));
        coverage.insert("counters".into(), json!(self.counters));
        coverage.insert("known_findings_reproduced".into(), json!(known_lines.values().map(|x| x.0).sum::<u64>()));
        for (k, v) in &self.extra {
            coverage.insert(k.clone(), v.clone());
        }
        let ev = json!({
            "property_id": id,
            "tier": self.tier,
            "seed": self.seed,
            "level": self.level,
            "coverage": coverage,
            "assumptions": self.assumptions,
            "wall_s": wall,
            "violations": new_violations.len(),
        });
        let dir = root().join("evidence");
        let _ = std::fs::create_dir_all(&dir);
        std::fs::write(dir.join(format!("{id}.json")), serde_json::to_string_pretty(&ev).unwrap()).unwrap();
        println!(
            "property={} tier={} states={} transitions={} evaluations={} validated={} outcomes={} known={} violations={} wall={:.1}s",
            id,
            self.tier,
            self.states,
            self.transitions,
            self.evaluations,
            self.traces_validated,
            self.outcomes.len(),
            known_lines.len(),
            new_violations.len(),
            wall
        );
        exit
    }
}

/// Order-preserving parallel map over cases.
pub fn par_map<T: Sync, R: Send>(items: &[T], f: impl Fn(&T) -> R + Sync + Send) -> Vec<R> {
    use rayon::prelude::*;
    items.par_iter().map(f).collect()
}

/// Token sequence of a Rust source text, with a `,` that directly precedes a closing delimiter
/// dropped (pretty-printers add/remove trailing commas by layout; that is not a change of program).
pub fn norm_tokens(text: &str) -> Result<Vec<String>, String> {
    fn walk(ts: proc_macro2::TokenStream, out: &mut Vec<String>) {
        let toks: Vec<proc_macro2::TokenTree> = ts.into_iter().collect();
        for (i, t) in toks.iter().enumerate() {
            match t {
                proc_macro2::TokenTree::Group(g) => {
                    let (o, c) = match g.delimiter() {
                        proc_macro2::Delimiter::Parenthesis => ("(", ")"),
                        proc_macro2::Delimiter::Brace => ("{", "}"),
                        proc_macro2::Delimiter::Bracket => ("[", "]"),
                        proc_macro2::Delimiter::None => ("", ""),
                    };
                    out.push(o.to_string());
                    walk(g.stream(), out);
                    out.push(c.to_string());
                }
                proc_macro2::TokenTree::Punct(p) if p.as_char() == ',' && i + 1 == toks.len() => {}
                other => out.push(other.to_string()),
            }
        }
    }
    let ts: proc_macro2::TokenStream = text.parse().map_err(|e| format!("not tokenisable: {e}"))?;
    let mut out = vec![];
    walk(ts, &mut out);
    Ok(out)
}

/// Splits a WGSL source into its module-scope declarations (text pieces whose concatenation is the source).
/// Returns None for sources the splitter does not handle (comments, directives).
pub fn split_decls(src: &str) -> Option<Vec<String>> {
    if src.contains("//") || src.contains("/*") {
        return None;
    }
    let mut out: Vec<String> = vec![];
    let mut cur = String::new();
    let (mut brace, mut paren) = (0i32, 0i32);
    for ch in src.chars() {
        cur.push(ch);
        match ch {
            '{' => brace += 1,
            '(' | '[' => paren += 1,
            ')' | ']' => paren -= 1,
            '}' => {
                brace -= 1;
                if brace == 0 && paren == 0 {
                    out.push(std::mem::take(&mut cur));
                }
            }
            ';' if brace == 0 && paren == 0 => {
                if cur.trim() == ";" {
                    // the optional `;` after a struct body belongs to the struct
                    if let Some(last) = out.last_mut() {
                        last.push_str(&cur);
                        cur.clear();
                        continue;
                    }
                }
                out.push(std::mem::take(&mut cur));
            }
            _ => {}
        }
    }
    if !cur.trim().is_empty() {
        return None;
    }
    if let Some(last) = out.last_mut() {
        last.push_str(&cur);
    }
    for d in &out {
        let t = d.trim_start();
        if t.starts_with("enable") || t.starts_with("requires") || t.starts_with("diagnostic") || t.starts_with("const_assert") {
            return None;
        }
    }
    // every piece ends in a newline so that pieces can be reordered freely
    Some(out.into_iter().map(|d| if d.ends_with('\n') { d } else { format!("{d}\n") }).collect())
}

/// The same module with its module-scope declarations in another order (WGSL: declaration order at module scope is
/// not significant). `how`: "reverse", "rotate" (first declaration last), "entries-first" (functions before the rest).
pub fn reorder_decls(src: &str, how: &str) -> Option<String> {
    let mut d = split_decls(src)?;
    if d.len() < 2 {
        return None;
    }
    match how {
        "reverse" => d.reverse(),
        "rotate" => d.rotate_left(1),
        "interleave" => {
            // entry points of the three stages taken in turns (v1, f1, c1, v2, f2, ...), everything else first
            let stage_of = |s: &String| -> Option<usize> {
                let t = s.trim_start();
                if t.starts_with("@vertex") { Some(0) } else if t.starts_with("@fragment") { Some(1) } else if t.starts_with("@compute") { Some(2) } else { None }
            };
            let mut rest = vec![];
            let mut by_stage: [Vec<String>; 3] = [vec![], vec![], vec![]];
            for x in d.drain(..) {
                match stage_of(&x) {
                    Some(k) => by_stage[k].push(x),
                    None => rest.push(x),
                }
            }
            let n = by_stage.iter().map(|v| v.len()).max().unwrap_or(0);
            for i in 0..n {
                for st in by_stage.iter() {
                    if let Some(x) = st.get(i) {
                        rest.push(x.clone());
                    }
                }
            }
            d = rest;
        }
        _ => {
            let is_fn = |s: &String| s.contains("fn ");
            let (mut f, r): (Vec<String>, Vec<String>) = d.into_iter().partition(is_fn);
            f.extend(r);
            d = f;
        }
    }
    let out: String = d.concat();
    if out == src {
        return None;
    }
    Some(out)
}

/// Renames identifiers (whole-token matches) in a WGSL source.
pub fn rename_idents(src: &str, map: &[(String, String)]) -> String {
    let mut out = String::with_capacity(src.len() + 64);
    let mut cur = String::new();
    let flush = |cur: &mut String, out: &mut String| {
        if !cur.is_empty() {
            match map.iter().find(|(a, _)| a == cur) {
                Some((_, b)) => out.push_str(b),
                None => out.push_str(cur),
            }
            cur.clear();
        }
    };
    for ch in src.chars() {
        if ch.is_alphanumeric() || ch == '_' {
            cur.push(ch);
        } else {
            flush(&mut cur, &mut out);
            out.push(ch);
        }
    }
    flush(&mut cur, &mut out);
    out
}

/// The same module with every module-scope variable renamed to another identifier style ("camel": `theName`,
/// "upper": `NAME_U`). Returns the new source and the (old, new) name pairs.
pub fn restyle_globals(src: &str, style: &str) -> Option<(String, Vec<(String, String)>)> {
    let module = naga::front::wgsl::parse_str(src).ok()?;
    let mut map = vec![];
    for (_, g) in module.global_variables.iter() {
        let n = g.name.clone()?;
        let new = match style {
            "camel" => {
                let mut c = n.chars();
                let first = c.next()?;
                format!("the{}{}", first.to_uppercase(), c.as_str())
            }
            _ => format!("{}_U", n.to_uppercase()),
        };
        map.push((n, new));
    }
    if map.is_empty() {
        return None;
    }
    Some((rename_idents(src, &map), map))
}

/// Normalised tokens of the top-level items selected by `keep(kind, name)`; kind is one of struct, const, fn, mod,
/// impl (name = self type), trait, use, other.
pub fn items_tokens(text: &str, keep: &dyn Fn(&str, &str) -> bool) -> Result<Vec<String>, String> {
    use quote::ToTokens;
    let file = syn::parse_file(text).map_err(|e| e.to_string())?;
    let mut ts = proc_macro2::TokenStream::new();
    for item in &file.items {
        let (kind, name) = match item {
            syn::Item::Struct(s) => ("struct", s.ident.to_string()),
            syn::Item::Const(c) => ("const", c.ident.to_string()),
            syn::Item::Fn(f) => ("fn", f.sig.ident.to_string()),
            syn::Item::Mod(m) => ("mod", m.ident.to_string()),
            syn::Item::Impl(i) => ("impl", i.self_ty.to_token_stream().to_string().replace(' ', "")),
            syn::Item::Trait(t) => ("trait", t.ident.to_string()),
            syn::Item::Use(_) => ("use", String::new()),
            _ => ("other", String::new()),
        };
        if keep(kind, &name) {
            item.to_tokens(&mut ts);
        }
    }
    norm_tokens(&ts.to_string())
}

/// The part of the output selected by `keep` must not depend on the write options: the same source under two other
/// option sets (where generation succeeds) must give token-identical items.
pub fn option_leg(rep: &mut Report, key: &str, src: &str, base: &Config, base_text: &str, what: &str, keep: &dyn Fn(&str, &str) -> bool) {
    let reference = match items_tokens(base_text, keep) {
        Ok(t) => t,
        Err(_) => return,
    };
    let alts = [
        Config { bytemuck_vertex: true, bytemuck_host: true, encase: true, serde: true, repr: Repr::Glam, validate: Validate::All, ..Config::default() },
        Config { serde: true, encase: true, repr: Repr::Nalgebra, ..Config::default() },
    ];
    for alt in alts {
        if alt == *base {
            continue;
        }
        rep.evaluations += 1;
        if let Outcome::Ok(t) = generate(src, &alt) {
            match items_tokens(&t, keep) {
                Ok(x) if x == reference => {}
                Ok(x) => {
                    let pos = x.iter().zip(reference.iter()).position(|(a, b)| a != b).unwrap_or(x.len().min(reference.len()));
                    rep.violation(format!("{key}|options={}", alt.key()), format!("{what} differ between two option sets (token #{pos}: `{}` vs `{}`)", reference.get(pos).cloned().unwrap_or_default(), x.get(pos).cloned().unwrap_or_default()), serde_json::json!({"wgsl": src, "config": alt.key(), "base": base.key()}));
                }
                Err(e) => rep.violation(format!("{key}|options={}", alt.key()), format!("output under another option set is not Rust: {e}"), serde_json::json!({"wgsl": src, "config": alt.key()})),
            }
        }
    }
}

/// The same module with every built-in type that follows a `: ` (members, variables, parameters, constants, overrides)
/// written through a WGSL `alias` declared at the top. Struct names and types in other positions stay as they are.
pub fn alias_types(src: &str) -> Option<String> {
    if src.contains("alias ") {
        return None;
    }
    let bytes: Vec<char> = src.chars().collect();
    let mut out = String::with_capacity(src.len() + 256);
    let mut aliases: Vec<String> = vec![];
    let mut i = 0;
    while i < bytes.len() {
        if bytes[i] == ':' && i + 1 < bytes.len() && bytes[i + 1] == ' ' && i + 2 < bytes.len() && bytes[i + 2].is_ascii_lowercase() {
            // capture the type up to a delimiter at angle depth 0
            let mut j = i + 2;
            let mut depth = 0i32;
            while j < bytes.len() {
                let c = bytes[j];
                if c == '<' {
                    depth += 1;
                } else if c == '>' {
                    depth -= 1;
                } else if depth == 0 && (c == ',' || c == ';' || c == ')' || c == '\n' || c == '{' || c == '=' || (c == ' ' && j + 1 < bytes.len() && (bytes[j + 1] == '=' || bytes[j + 1] == '{' || bytes[j + 1] == '}'))) {
                    break;
                }
                j += 1;
            }
            let ty: String = bytes[i + 2..j].iter().collect::<String>().trim_end().to_string();
            let ok = !ty.is_empty() && depth == 0 && ty.chars().all(|c| c.is_ascii_alphanumeric() || "_<>, ".contains(c));
            if ok {
                let k = match aliases.iter().position(|a| *a == ty) {
                    Some(k) => k,
                    None => {
                        aliases.push(ty.clone());
                        aliases.len() - 1
                    }
                };
                out.push_str(&format!(": TyAlias{k}"));
                i += 2 + ty.chars().count();
                continue;
            }
        }
        out.push(bytes[i]);
        i += 1;
    }
    if aliases.is_empty() {
        return None;
    }
    let decls: String = aliases.iter().enumerate().map(|(k, t)| format!("alias TyAlias{k} = {t};\n")).collect();
    Some(format!("{decls}{out}"))
}

/// The same module without its entry points (a declarations-only file: shared bindings, helpers, types).
pub fn without_entry_points(src: &str) -> Option<String> {
    let d = split_decls(src)?;
    let kept: Vec<String> = d.iter().filter(|x| {
        let t = x.trim_start();
        !(t.starts_with("@vertex") || t.starts_with("@fragment") || t.starts_with("@compute"))
    }).cloned().collect();
    if kept.len() == d.len() || kept.is_empty() {
        return None;
    }
    Some(kept.concat())
}
