//! C08 — exactly the host-visible structs are emitted, once each.
//! Programs: a pool of <= 4 structs, every nesting DAG among the plain ones, each struct given a
//! role set; reference = closure of module-scope variable types ∪ (entry parameters \ entry results).
use crate::common::*;
use serde_json::json;
use std::collections::BTreeSet;

#[derive(Clone, Copy, Debug, PartialEq, Eq, Hash, PartialOrd, Ord)]
pub enum Role {
    Uniform,
    Storage,
    Workgroup,
    Private,
    PushConstant,
    FixedArrayElem,
    RtArrayElem,
    HelperParam,
    Local,
    VertexParam,
    FragmentParam,
    VertexResult,
    FragmentResult,
    ComputeParam,
    /// element of a workgroup array whose length is an `override`
    OverrideArrayElem,
    /// element of an array of arrays in a storage buffer
    NestedArrayElem,
    /// type of a module-scope `const` (a value known to the shader only: no Rust struct)
    ModuleConst,
    /// element type of a module-scope `const` array
    ModuleConstArrayElem,
    /// result type of an ordinary (non-entry) function
    HelperResult,
}
use Role::*;

#[derive(Clone, Copy, Debug, PartialEq, Eq, Hash, PartialOrd, Ord)]
pub enum Shape {
    /// plain members (may nest other plain structs)
    Plain,
    /// `@location(0) a: vec4<f32>, @builtin(vertex_index) vi: u32`
    VertexIn,
    /// `@builtin(position) pos: vec4<f32>, @location(0) c: vec4<f32>`
    Varying,
    /// `@location(0) c: vec4<f32>`
    Located,
    /// `@builtin(global_invocation_id) id: vec3<u32>`
    ComputeIn,
    /// `flag: bool, mask: vec3<bool>, bits: array<bool, 2>` (private / workgroup memory only)
    BoolMembers,
}

impl Shape {
    pub fn roles(self) -> &'static [Role] {
        match self {
            Shape::Plain => &[Uniform, Storage, Workgroup, Private, PushConstant, FixedArrayElem, RtArrayElem, HelperParam, Local, OverrideArrayElem, NestedArrayElem, ModuleConst, ModuleConstArrayElem, HelperResult],
            Shape::VertexIn => &[VertexParam, Uniform, Storage, HelperParam, Local, RtArrayElem, HelperResult],
            Shape::Varying => &[VertexResult, FragmentParam, Uniform, Storage, Private, Local],
            Shape::Located => &[VertexParam, FragmentParam, FragmentResult, Storage, Workgroup, FixedArrayElem, HelperResult],
            Shape::ComputeIn => &[ComputeParam, Storage, Local],
            Shape::BoolMembers => &[Workgroup, Private, HelperParam, Local, ModuleConst],
        }
    }
    fn members(self) -> &'static str {
        match self {
            Shape::Plain => "    a: vec4<f32>,\n",
            Shape::VertexIn => "    @location(0) a: vec4<f32>,\n    @builtin(vertex_index) vi: u32,\n",
            Shape::Varying => "    @builtin(position) pos: vec4<f32>,\n    @location(0) c: vec4<f32>,\n",
            Shape::Located => "    @location(0) c: vec4<f32>,\n",
            Shape::ComputeIn => "    @builtin(global_invocation_id) id: vec3<u32>,\n",
            Shape::BoolMembers => "    flag: bool,\n    mask: vec3<bool>,\n    bits: array<bool, 2>,\n",
        }
    }
}

#[derive(Clone, Debug)]
pub struct SDef {
    pub shape: Shape,
    pub roles: Vec<Role>,
    /// indices (> own index) of plain structs nested as members
    pub nests: Vec<usize>,
    /// how the nesting is expressed per nested struct: 0 direct member, 1 array<S,2> member
    pub nest_via_array: bool,
}

pub struct Prog {
    pub key: String,
    pub src: String,
    pub expected: BTreeSet<String>,
    pub steps: u64,
}

const NAMES: [&str; 4] = ["Zeta", "Alpha", "Mid", "Beta"];

pub fn build(defs: &[SDef], key: String) -> Prog {
    let n = defs.len();
    let mut src = String::new();
    // declare in reverse so that nested structs come first (WGSL allows any order; this varies arena order vs name order)
    for i in (0..n).rev() {
        let d = &defs[i];
        src.push_str(&format!("struct {} {{\n{}", NAMES[i], d.shape.members()));
        for (k, j) in d.nests.iter().enumerate() {
            if d.nest_via_array {
                src.push_str(&format!("    n{k}: array<{}, 2>,\n", NAMES[*j]));
            } else {
                src.push_str(&format!("    n{k}: {},\n", NAMES[*j]));
            }
        }
        src.push_str("};\n");
    }
    let mut binding = 0;
    let mut globals_roots: Vec<usize> = vec![];
    let mut entry_params: BTreeSet<usize> = BTreeSet::new();
    let mut entry_results: BTreeSet<usize> = BTreeSet::new();
    let mut helpers = String::new();
    let mut vs_params = vec![];
    let mut fs_params = vec![];
    let mut cs_params = vec![];
    let mut vs_result: Option<usize> = None;
    let mut fs_result: Option<usize> = None;
    let mut locals = String::new();
    let mut steps = n as u64;
    for (i, d) in defs.iter().enumerate() {
        let name = NAMES[i];
        for r in &d.roles {
            steps += 1;
            match r {
                Uniform => {
                    // two variables of the same struct type: must still be emitted once
                    src.push_str(&format!("@group(0) @binding({binding}) var<uniform> u{i}: {name};\n"));
                    src.push_str(&format!("@group(0) @binding({}) var<uniform> u{i}b: {name};\n", binding + 1));
                    binding += 2;
                    globals_roots.push(i);
                }
                Storage => {
                    src.push_str(&format!("@group(0) @binding({binding}) var<storage, read_write> s{i}: {name};\n"));
                    binding += 1;
                    globals_roots.push(i);
                }
                Workgroup => {
                    src.push_str(&format!("var<workgroup> w{i}: {name};\n"));
                    globals_roots.push(i);
                }
                Private => {
                    src.push_str(&format!("var<private> p{i}: {name};\n"));
                    globals_roots.push(i);
                }
                PushConstant => {
                    src.push_str(&format!("var<push_constant> pc{i}: {name};\n"));
                    globals_roots.push(i);
                }
                FixedArrayElem => {
                    src.push_str(&format!("@group(0) @binding({binding}) var<storage, read> fa{i}: array<{name}, 3>;\n"));
                    binding += 1;
                    globals_roots.push(i);
                }
                RtArrayElem => {
                    src.push_str(&format!("@group(0) @binding({binding}) var<storage, read> ra{i}: array<{name}>;\n"));
                    binding += 1;
                    globals_roots.push(i);
                }
                OverrideArrayElem => {
                    src.push_str(&format!("override tile_len{i}: u32 = 4u;\nvar<workgroup> oa{i}: array<{name}, tile_len{i}>;\n"));
                    globals_roots.push(i);
                }
                NestedArrayElem => {
                    src.push_str(&format!("@group(0) @binding({binding}) var<storage, read> na{i}: array<array<{name}, 2>, 3>;\n"));
                    binding += 1;
                    globals_roots.push(i);
                }
                ModuleConst => src.push_str(&format!("const mc{i} = {name}();\n")),
                ModuleConstArrayElem => src.push_str(&format!("const mca{i} = array<{name}, 2>({name}(), {name}());\n")),
                HelperResult => helpers.push_str(&format!("fn helper_result{i}() -> {name} {{ var r: {name}; return r; }}\n")),
                HelperParam => helpers.push_str(&format!("fn helper{i}(x: {name}) -> f32 {{ return 1.0; }}\n")),
                Local => locals.push_str(&format!("    var l{i}: {name};\n")),
                VertexParam => {
                    vs_params.push(i);
                    entry_params.insert(i);
                }
                FragmentParam => {
                    fs_params.push(i);
                    entry_params.insert(i);
                }
                ComputeParam => {
                    cs_params.push(i);
                    entry_params.insert(i);
                }
                VertexResult => {
                    vs_result = Some(i);
                    entry_results.insert(i);
                }
                FragmentResult => {
                    fs_result = Some(i);
                    entry_results.insert(i);
                }
            }
        }
    }
    src.push_str(&helpers);
    // entries (always all three stages; two fragment entries sharing the parameter struct)
    let params = |ps: &[usize], prefix: &str| ps.iter().map(|i| format!("{prefix}{i}: {}", NAMES[*i])).collect::<Vec<_>>().join(", ");
    match vs_result {
        Some(r) => src.push_str(&format!("@vertex fn vs_main({}) -> {} {{\n{locals}    var o: {};\n    return o;\n}}\n", params(&vs_params, "vin"), NAMES[r], NAMES[r])),
        None => src.push_str(&format!("@vertex fn vs_main({}) -> @builtin(position) vec4<f32> {{\n{locals}    return vec4<f32>(0.0);\n}}\n", params(&vs_params, "vin"))),
    }
    for fname in ["fs_main", "fs_second"] {
        match fs_result {
            Some(r) => src.push_str(&format!("@fragment fn {fname}({}) -> {} {{\n    var o: {};\n    return o;\n}}\n", params(&fs_params, "fin"), NAMES[r], NAMES[r])),
            None => src.push_str(&format!("@fragment fn {fname}({}) {{\n}}\n", params(&fs_params, "fin"))),
        }
    }
    src.push_str(&format!("@compute @workgroup_size(1) fn cs_main({}) {{\n}}\n", params(&cs_params, "cin")));

    // reference: closure of global variable types through members/arrays ∪ (entry params \ entry results)
    let mut expected = BTreeSet::new();
    let mut stack = globals_roots.clone();
    while let Some(i) = stack.pop() {
        if expected.insert(NAMES[i].to_string()) {
            for j in &defs[i].nests {
                stack.push(*j);
            }
        }
    }
    for p in &entry_params {
        if !entry_results.contains(p) {
            expected.insert(NAMES[*p].to_string());
        }
    }
    Prog { key, src, expected, steps }
}

const RESERVED: [&str; 3] = ["OverrideConstants", "VertexEntry", "FragmentEntry"];

pub fn check(p: &Prog, rep: &mut Report) {
    rep.states += 1;
    rep.transitions += p.steps;
    if let Err(e) = naga_check(&p.src) {
        rep.filtered(&format!("naga rejects: {}", e.lines().next().unwrap_or("").chars().take(50).collect::<String>()));
        return;
    }
    let cfg = Config { encase: true, ..Config::default() };
    rep.evaluations += 1;
    let text = match generate(&p.src, &cfg) {
        Outcome::Ok(t) => t,
        other => {
            rep.generation_failed(p.key.clone(), &other.class(), &p.src, &cfg);
            return;
        }
    };
    let m = omodel::parse(&text).unwrap_or_else(|e| machinery(&format!("C08: {e}")));
    let emitted: Vec<String> = m.top.structs.iter().filter(|s| !RESERVED.contains(&s.name.as_str())).map(|s| s.name.clone()).collect();
    let set: BTreeSet<String> = emitted.iter().cloned().collect();
    rep.nontrivial.insert(hash64(&p.src));
    // which structs are emitted does not depend on the write options (every 3rd program in quick)
    if rep.thorough() || hash64(&p.key) % 3 == 0 {
        for alt in [Config { bytemuck_vertex: true, serde: true, encase: true, repr: Repr::Glam, validate: Validate::All, ..Config::default() }, Config { encase: true, repr: Repr::Nalgebra, rustfmt: false, ..Config::default() }] {
            rep.evaluations += 1;
            if let Outcome::Ok(t2) = generate(&p.src, &alt) {
                let m2 = omodel::parse(&t2).unwrap_or_else(|e| machinery(&format!("C08: {e}")));
                let mut e2: Vec<String> = m2.top.structs.iter().filter(|s| !RESERVED.contains(&s.name.as_str())).map(|s| s.name.clone()).collect();
                let mut e1 = emitted.clone();
                e1.sort();
                e2.sort();
                if e1 != e2 {
                    rep.violation(format!("{}|options={}", p.key, alt.key()), format!("the emitted structs depend on the write options: {e2:?} vs {e1:?}"), json!({"wgsl": p.src, "config": alt.key(), "base": cfg.key()}));
                }
            }
        }
    }
    rep.outcomes.insert(format!("{set:?}"));
    let detail = json!({"wgsl": p.src, "config": cfg.key(), "expected": p.expected, "emitted": emitted});
    if set.len() != emitted.len() {
        rep.violation(p.key.clone(), format!("struct emitted twice: {emitted:?}"), detail.clone());
    }
    let missing: Vec<_> = p.expected.difference(&set).cloned().collect();
    let extra: Vec<_> = set.difference(&p.expected).cloned().collect();
    if !missing.is_empty() {
        rep.violation(p.key.clone(), format!("missing struct(s) {missing:?}"), detail.clone());
    }
    if !extra.is_empty() {
        rep.violation(p.key.clone(), format!("extra struct(s) {extra:?}"), detail);
    }
}

fn subsets_upto<T: Copy>(items: &[T], max: usize) -> Vec<Vec<T>> {
    let mut out = vec![];
    for mask in 0..(1usize << items.len()) {
        if (mask.count_ones() as usize) <= max {
            out.push((0..items.len()).filter(|i| mask & (1 << i) != 0).map(|i| items[i]).collect());
        }
    }
    out
}

/// Entry-parameter structs shared between entry points in every pattern of up to three entries with up to two struct
/// parameters each over two (vertex) or three (fragment) structs: adjacent and non-adjacent repeats, both orders.
fn sharing_space() -> Vec<Prog> {
    let mut out = vec![];
    let structs = ["SharedA", "SharedB", "SharedC"];
    let decl = "struct SharedA { @location(0) a: vec4<f32> };\nstruct SharedB { @location(1) b: vec2<f32> };\nstruct SharedC { @location(2) c: vec4<f32> };\n";
    // parameter lists: none, [X], [X, Y] with X != Y
    let mut lists: Vec<Vec<usize>> = vec![vec![]];
    for x in 0..3 {
        lists.push(vec![x]);
        for y in 0..3 {
            if x != y {
                lists.push(vec![x, y]);
            }
        }
    }
    for stage in ["vertex", "fragment"] {
        for n in 2..=3usize {
            for seq in wgslgen::sequences(lists.len(), n) {
                let used: BTreeSet<usize> = seq.iter().flat_map(|l| lists[*l].iter().copied()).collect();
                // keep patterns in which some struct is taken by at least two entries
                let repeats = (0..3).any(|s| seq.iter().filter(|l| lists[**l].contains(&s)).count() >= 2);
                if !repeats || (n == 3 && used.len() < 2) {
                    continue;
                }
                let mut src = String::from(decl);
                for (e, l) in seq.iter().enumerate() {
                    let ps: Vec<String> = lists[*l].iter().enumerate().map(|(i, s)| format!("p{i}: {}", structs[*s])).collect();
                    if stage == "vertex" {
                        src.push_str(&format!("@vertex fn vs_{e}({}) -> @builtin(position) vec4<f32> {{\n    return vec4<f32>(0.0);\n}}\n", ps.join(", ")));
                    } else {
                        src.push_str(&format!("@fragment fn fs_{e}({}) -> @location(0) vec4<f32> {{\n    return vec4<f32>(0.0);\n}}\n", ps.join(", ")));
                    }
                }
                let expected: BTreeSet<String> = used.iter().map(|s| structs[*s].to_string()).collect();
                out.push(Prog { key: format!("sharing|{stage}|{:?}", seq.iter().map(|l| lists[*l].clone()).collect::<Vec<_>>()), src, expected, steps: n as u64 });
            }
        }
    }
    out
}

/// Many struct types: a root in a storage buffer whose members are N other structs (every second one through an
/// array), with an unused struct declared before each of them; N around 64 / 128 / 256.
fn wide_types_space() -> Vec<Prog> {
    let mut out = vec![];
    for n in [16usize, 63, 64, 65, 128, 129, 257] {
        let mut src = String::new();
        let mut expected = BTreeSet::new();
        let mut members = String::new();
        for i in 0..n {
            src.push_str(&format!("struct Unused{i} {{ z: f32 }};\nstruct Part{i} {{ a: vec4<f32> }};\n"));
            if i % 2 == 0 {
                members.push_str(&format!("    p{i}: Part{i},\n"));
            } else {
                members.push_str(&format!("    p{i}: array<Part{i}, 2>,\n"));
            }
            expected.insert(format!("Part{i}"));
        }
        src.push_str(&format!("struct WideRoot {{\n{members}}};\n@group(0) @binding(0) var<storage, read> wide_root: WideRoot;\n@compute @workgroup_size(1) fn cs_main() {{\n}}\n"));
        expected.insert("WideRoot".to_string());
        out.push(Prog { key: format!("wide-types|n={n}"), src, expected, steps: n as u64 });
    }
    out
}

pub fn space(thorough: bool) -> Vec<Prog> {
    let mut out = sharing_space();
    out.extend(wide_types_space());
    // (1) one struct of every shape with every role subset (full power set)
    for shape in [Shape::Plain, Shape::VertexIn, Shape::Varying, Shape::Located, Shape::ComputeIn, Shape::BoolMembers] {
        for roles in subsets_upto(shape.roles(), usize::MAX) {
            if roles.iter().filter(|r| **r == PushConstant).count() > 1 {
                continue;
            }
            // quick: role sets of size <= 3 and the full set; thorough: the whole power set
            if !thorough && roles.len() > 3 && roles.len() != shape.roles().len() {
                continue;
            }
            let key = format!("single|{shape:?}|{roles:?}");
            out.push(build(&[SDef { shape, roles, nests: vec![], nest_via_array: false }], key));
        }
    }
    // (2) two structs of IO shapes with role subsets of size <= 2 each (shared / unshared between entries)
    let io = [Shape::VertexIn, Shape::Varying, Shape::Located, Shape::ComputeIn];
    for a in io {
        for b in io {
            for ra in subsets_upto(a.roles(), 2) {
                for rb in subsets_upto(b.roles(), 2) {
                    // at most one result struct per stage
                    let vr = ra.contains(&VertexResult) as u8 + rb.contains(&VertexResult) as u8;
                    let fr = ra.contains(&FragmentResult) as u8 + rb.contains(&FragmentResult) as u8;
                    if vr > 1 || fr > 1 {
                        continue;
                    }
                    let key = format!("io-pair|{a:?}{ra:?}|{b:?}{rb:?}");
                    out.push(build(
                        &[SDef { shape: a, roles: ra.clone(), nests: vec![], nest_via_array: false }, SDef { shape: b, roles: rb, nests: vec![], nest_via_array: false }],
                        key,
                    ));
                }
            }
        }
    }
    // (3) plain structs: every nesting DAG on k structs x one role (or none) per struct x nesting via member / via array
    let single_roles: Vec<Vec<Role>> = {
        let mut v = vec![vec![]];
        for r in Shape::Plain.roles() {
            v.push(vec![*r]);
        }
        v
    };
    let kmax = if thorough { 4 } else { 3 };
    for k in 2..=kmax {
        let n_edges = k * (k - 1) / 2;
        for dag in 0..(1usize << n_edges) {
            for assign in wgslgen::sequences(single_roles.len(), k) {
                let pcs = assign.iter().filter(|i| single_roles[**i] == vec![PushConstant]).count();
                if pcs > 1 {
                    continue;
                }
                // k = 4 is restricted to programs with at most two non-empty role sets (bounds the product)
                if k == 4 && assign.iter().filter(|i| **i != 0).count() > 2 {
                    continue;
                }
                for via_array in [false, true] {
                    if via_array && dag == 0 {
                        continue;
                    }
                    let mut defs = vec![];
                    let mut e = 0;
                    for i in 0..k {
                        let mut nests = vec![];
                        for j in (i + 1)..k {
                            if dag & (1 << e) != 0 {
                                nests.push(j);
                            }
                            e += 1;
                        }
                        defs.push(SDef { shape: Shape::Plain, roles: single_roles[assign[i]].clone(), nests, nest_via_array: via_array });
                    }
                    let key = format!("plain|k={k}|dag={dag}|roles={assign:?}|array={}", via_array as u8);
                    out.push(build(&defs, key));
                }
            }
        }
    }
    // (4) a plain struct nested chain below an IO root is impossible in WGSL (IO members must be scalars/vectors);
    //     instead: IO-shaped struct *also* nested in a plain host struct
    for shape in io {
        for roles in subsets_upto(shape.roles(), 2) {
            for host_role in [Uniform, Storage, Private, Local] {
                // Plain struct 0 nests struct 1 (IO shape)
                let defs = vec![
                    SDef { shape: Shape::Plain, roles: vec![host_role], nests: vec![1], nest_via_array: false },
                    SDef { shape, roles: roles.clone(), nests: vec![], nest_via_array: false },
                ];
                out.push(build(&defs, format!("io-nested|{shape:?}{roles:?}|host={host_role:?}")));
            }
        }
    }
    out
}

pub fn run(tier: &str) -> i32 {
    let mut rep = Report::new("C08", tier);
    let mut progs = space(rep.thorough());
    // module-scope declaration order is not significant: reversed / functions-first variants (every 4th in quick)
    let n0 = progs.len();
    for i in 0..n0 {
        if rep.thorough() || hash64(&progs[i].key) % 4 == 1 {
            for how in ["reverse", "entries-first", "interleave"] {
                if let Some(src) = reorder_decls(&progs[i].src, how) {
                    progs.push(Prog { key: format!("{}|decl-order={how}", progs[i].key), src, expected: progs[i].expected.clone(), steps: progs[i].steps });
                }
            }
        }
    }
    let results = par_map(&progs, |p| {
        let mut r = Report::new("C08", tier);
        check(p, &mut r);
        r
    });
    for (i, p) in progs.iter().enumerate() {
        if i % (progs.len() / 5 + 1) == 7 {
            rep.sample(json!({"key": p.key, "wgsl": p.src, "expected_structs": p.expected}));
        }
    }
    for r in results {
        rep.merge(r);
    }
    rep.traces_validated = rep.evaluations;
    rep.rule = format!(
        "(1) one struct of each of 6 member shapes (incl. bool members in private / workgroup memory) with every subset (quick: subsets of size <= 3 and the full set) of its admissible roles (uniform/storage/workgroup/private/push-constant variable, fixed/runtime array element, helper parameter, local, module-scope const value / const array element, element of an override-sized array / of an array of arrays, vertex/fragment/compute parameter, vertex/fragment result); (2) pairs of IO-shaped structs with role subsets of size <=2; (3) every nesting DAG on <= {} plain structs x one-or-no role per struct x nesting by member / by array member; (4) IO-shaped structs nested in a plain host struct; (5) entry-parameter structs shared by 2..3 entries of one stage in every adjacent / non-adjacent pattern. Two variables and two fragment entries share each struct. Programs naga rejects are outside the universe (counted in filtered_out). Oracle: reachability reference; observed: multiset of top-level struct names.",
        if rep.thorough() { 4 } else { 3 }
    );
    let filtered: u64 = rep.filtered_out.values().sum();
    if filtered * 2 > rep.states {
        machinery("C08: more than half of the space was filtered out");
    }
    if rep.outcomes.len() < 5 {
        machinery("C08: too few distinct outcomes - vacuous");
    }
    rep.finish()
}
