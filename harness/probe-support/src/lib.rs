//! Helpers compiled into every probe crate: structural type denotation bound to the linked crates,
//! trait-implementation probes, JSON line helpers.

/// `implements!(Type: Trait)` -> bool, without requiring the bound (inherent-const trick).
#[macro_export]
macro_rules! implements {
    ($t:ty : $($tr:tt)+) => {{
        struct W<T: ?Sized>(core::marker::PhantomData<T>);
        #[allow(dead_code)]
        trait No { const V: bool = false; }
        impl<T: ?Sized> No for T {}
        #[allow(dead_code)]
        impl<T: ?Sized + $($tr)+> W<T> { const V: bool = true; }
        <W<$t>>::V
    }};
}

/// Structural denotation: scalar kind and width, element counts, arrays, growable vectors.
pub trait Denote {
    fn denote() -> String;
}
macro_rules! prim {
    ($($t:ty => $s:expr),*) => { $(impl Denote for $t { fn denote() -> String { $s.to_string() } })* };
}
prim!(f32 => "f4", f64 => "f8", i32 => "i4", u32 => "u4", i64 => "i8", u64 => "u8", bool => "b1", i16 => "i2", u16 => "u2", i8 => "i1", u8 => "u1");
impl<T: Denote, const N: usize> Denote for [T; N] {
    fn denote() -> String {
        format!("arr({},{})", T::denote(), N)
    }
}
impl<T: Denote> Denote for Vec<T> {
    fn denote() -> String {
        format!("rt({})", T::denote())
    }
}
fn vec_of<T: Denote, const N: usize>(_: &[T; N]) -> String {
    format!("vec({},{})", T::denote(), N)
}
fn mat_of<T: Denote, const R: usize, const C: usize>(_: &[[T; R]; C]) -> String {
    format!("mat({},cols={},rows={})", T::denote(), C, R)
}
macro_rules! glam_vec { ($($t:ty),*) => { $(impl Denote for $t { fn denote() -> String { vec_of(&<$t>::ZERO.to_array()) } })* }; }
macro_rules! glam_mat { ($($t:ty),*) => { $(impl Denote for $t { fn denote() -> String { mat_of(&<$t>::ZERO.to_cols_array_2d()) } })* }; }
glam_vec!(glam::Vec2, glam::Vec3, glam::Vec4, glam::DVec2, glam::DVec3, glam::DVec4, glam::UVec2, glam::UVec3, glam::UVec4, glam::IVec2, glam::IVec3, glam::IVec4, glam::Vec3A);
glam_mat!(glam::Mat2, glam::Mat3, glam::Mat4, glam::DMat2, glam::DMat3, glam::DMat4, glam::Mat3A);
impl<T: Denote, const R: usize, const C: usize> Denote for nalgebra::SMatrix<T, R, C> {
    fn denote() -> String {
        if C == 1 {
            format!("vec({},{})", T::denote(), R)
        } else {
            format!("mat({},cols={},rows={})", T::denote(), C, R)
        }
    }
}

/// Denotation of a field's type, named through a projection closure (no value needed).
pub fn field_denote<S, T: Denote>(_: fn(&S) -> &T) -> String {
    T::denote()
}
pub fn field_size<S, T>(_: fn(&S) -> &T) -> usize {
    std::mem::size_of::<T>()
}

pub fn jstr(s: &str) -> String {
    let mut o = String::from("\"");
    for c in s.chars() {
        match c {
            '"' => o.push_str("\\\""),
            '\\' => o.push_str("\\\\"),
            '\n' => o.push_str("\\n"),
            '\r' => o.push_str("\\r"),
            '\t' => o.push_str("\\t"),
            c if (c as u32) < 0x20 => o.push_str(&format!("\\u{:04x}", c as u32)),
            c => o.push(c),
        }
    }
    o.push('"');
    o
}

pub fn bytes_json(b: &[u8]) -> String {
    let v: Vec<String> = b.iter().map(|x| x.to_string()).collect();
    format!("[{}]", v.join(","))
}
